#!/usr/bin/env python3
"""Single entry point of the verification machinery.
   tools/check.py <ID> [--tier quick|thorough] [--replay PATH] [--repo PATH]
   tools/check.py --setup
Exit 0: property held on everything explored; exit 1 + `VIOLATION property=<id> replay=<path>` otherwise."""
import os, sys, argparse, importlib, time
VERIF = os.path.dirname(os.path.dirname(os.path.abspath(__file__)))
sys.path.insert(0, os.path.join(VERIF, 'tools', 'vlib'))
sys.path.insert(0, os.path.join(VERIF, 'tools', 'props'))
sys.path.insert(0, os.path.join(VERIF, 'tools'))


def load(pid):
    return importlib.import_module(pid).PROP


def all_props():
    """the properties whose checks are registered (tools/claimed.json, maintained by hand)"""
    import json
    return json.load(open(os.path.join(VERIF, 'tools', 'claimed.json')))


def setup():
    import coq as coqlib, repo as repolib
    t0 = time.time()
    lib, bdir, st = repolib.build_lib('/repo')
    print('repo sanitizer build:', st, flush=True)
    with coqlib.Lock('.coq.lock'):
        rep = coqlib.regenerate('/repo')
        coqlib.write_project()
    ok, log = coqlib.make(['Properties/Properties_%s.vo' % pid for pid in all_props()], 3000)
    print('coq build ok=%s' % ok, flush=True)
    if not ok:
        print(log[-3000:])
    for pid in all_props():
        p = load(pid)
        try:
            if p.driver:
                repolib.build_driver(p.driver)
            if p.model is not None or p.driver:
                coqlib.build_model_driver(p.model or p.id)
            print('built drivers for', pid, flush=True)
        except Exception as e:
            print('driver build for %s failed: %s' % (pid, str(e)[-1500:]))
            ok = False
    print('setup done in %.0fs' % (time.time() - t0))
    return 0 if ok else 1


def main():
    ap = argparse.ArgumentParser()
    ap.add_argument('prop', nargs='?')
    ap.add_argument('--tier', default=os.environ.get('VERIF_TIER', 'quick'))
    ap.add_argument('--replay')
    ap.add_argument('--repo', default='/repo')
    ap.add_argument('--setup', action='store_true')
    a = ap.parse_args()
    if a.setup:
        sys.exit(setup())
    if not a.prop:
        ap.error('property id required')
    import engine
    p = load(a.prop)
    if a.replay:
        if hasattr(p, 'replay'):
            sys.exit(p.replay(a.replay, a.repo))
        sys.exit(engine.replay(p, a.replay, a.repo))
    seed = int(os.environ.get('VERIF_SEED', '1'))
    tier = a.tier if a.tier in ('quick', 'thorough') else 'quick'
    runner = getattr(p, 'run_check', None)
    if runner:
        sys.exit(runner(tier, seed, a.repo))
    sys.exit(engine.run_check(p, tier, seed, a.repo))


if __name__ == '__main__':
    main()
