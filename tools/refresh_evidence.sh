#!/bin/sh
# re-run every registered check (quick tier, seed 1) on /repo so that evidence/*.json describes the registered tree
cd /verif
for p in $(python3 -c "import json; print(' '.join(json.load(open('tools/claimed.json'))))"); do
  VERIF_SEED=1 python3 tools/check.py $p 2>&1 | grep -E "^(PASS|FAIL|VIOLATION|KNOWN)" | cut -c1-160
done
