"""Coq side of a check: regenerate Gen/, (re)build the project, compile one property file while
capturing its `Print Assumptions` output, scan for forbidden constructs, count obligations,
extract the model to OCaml and build the model driver."""
import os, re, subprocess, sys, glob, fcntl, time, shutil

VERIF = os.path.dirname(os.path.dirname(os.path.dirname(os.path.abspath(__file__))))
COQ = os.path.join(VERIF, 'coq')
BUILD = os.path.join(VERIF, 'build')
sys.path.insert(0, os.path.join(VERIF, 'tools', 'translate'))

FORBIDDEN = re.compile(r'\b(Admitted|admit|Axiom|Axioms|Parameter|Parameters|Conjecture|Conjectures|'
                       r'Admit Obligations|bypass_check|type-in-type|impredicative-set)\b|Unset\s+Guard|'
                       r'Unset\s+Positivity|Unset\s+Universe')
STMT = re.compile(r'^\s*(?:Local\s+|Global\s+|#\[[^\]]*\]\s*)?(Theorem|Lemma|Corollary|Example|Fact|Proposition|Remark)\s+([A-Za-z0-9_\']+)', re.M)

# axioms of the standard library that may appear under Print Assumptions (named in DESIGN.md section 8)
ALLOWED_AXIOMS = {
    'ClassicalDedekindReals.sig_forall_dec', 'ClassicalDedekindReals.sig_not_dec',
    'FunctionalExtensionality.functional_extensionality_dep', 'Classical_Prop.classic',
    'functional_extensionality_dep', 'classic', 'sig_forall_dec', 'sig_not_dec',
    'Eqdep.Eq_rect_eq.eq_rect_eq', 'JMeq.JMeq_eq', 'ProofIrrelevance.proof_irrelevance',
}


MAIN_COQ = COQ


def use_repo(repo):
    """Checks of an alternate repository copy (mutation testing) work in a private copy of coq/ so that the
    generated files of the main tree are never disturbed."""
    global COQ
    if os.path.abspath(repo) == '/repo':
        COQ = MAIN_COQ
        return
    import repo as repolib
    d = os.path.join(BUILD, 'coq-' + repolib.tag_for(repo))
    os.makedirs(d, exist_ok=True)
    subprocess.run(['rsync', '-a', '--delete', '--exclude', 'Gen/', MAIN_COQ + '/', d + '/'], check=True)
    COQ = d


def lockname():
    return '.coq.lock' if COQ == MAIN_COQ else '.coq-%s.lock' % os.path.basename(COQ)


class Lock:
    def __init__(self, name):
        os.makedirs(BUILD, exist_ok=True)
        self.f = open(os.path.join(BUILD, name), 'w')

    def __enter__(self):
        fcntl.flock(self.f, fcntl.LOCK_EX)

    def __exit__(self, *a):
        fcntl.flock(self.f, fcntl.LOCK_UN)
        self.f.close()


def strip_comments(t):
    out = []
    depth = 0
    i = 0
    while i < len(t):
        if t.startswith('(*', i):
            depth += 1
            i += 2
        elif t.startswith('*)', i) and depth:
            depth -= 1
            i += 2
        else:
            if depth == 0:
                out.append(t[i])
            elif t[i] == '\n':
                out.append('\n')
            i += 1
    return ''.join(out)


def v_files():
    fs = []
    for root, _, names in os.walk(COQ):
        for n in names:
            if n.endswith('.v') and os.path.basename(root) != 'Extract':
                fs.append(os.path.relpath(os.path.join(root, n), COQ))
    return sorted(fs)


def write_project():
    txt = '-Q . NixV\n-arg -w -arg -notation-overridden,-deprecated-hint-without-locality,' \
          '-deprecated-instance-without-locality,-unknown-option\n' + '\n'.join(v_files()) + '\n'
    p = os.path.join(COQ, '_CoqProject')
    changed = (not os.path.exists(p)) or open(p).read() != txt
    if changed:
        open(p, 'w').write(txt)
    if changed or not os.path.exists(os.path.join(COQ, 'Makefile')):
        subprocess.run(['coq_makefile', '-f', '_CoqProject', '-o', 'Makefile'], cwd=COQ, check=True,
                       capture_output=True)


def regenerate(repo='/repo'):
    import gen
    import importlib
    importlib.reload(gen)
    return gen.generate(repo, outdir=os.path.join(COQ, 'Gen'))


def shared_targets():
    """files every property may depend on; built under the lock so that concurrent checks never compile them twice"""
    out = []
    for d in ('Base', 'Gen'):
        dd = os.path.join(COQ, d)
        if os.path.isdir(dd):
            out += [os.path.join(d, f) + 'o' for f in sorted(os.listdir(dd)) if f.endswith('.v')]
    return out


def make(targets, timeout=1800):
    """make -k the given .vo targets (paths relative to coq/). Returns (ok, log)."""
    cmd = ['timeout', str(timeout), 'make', '-k', '-j16'] + list(targets)
    r = subprocess.run(cmd, cwd=COQ, capture_output=True, text=True)
    return r.returncode == 0, r.stdout + r.stderr


def deps_of(vfile):
    """transitive .v dependencies inside coq/ (relative paths), from coqdep"""
    r = subprocess.run(['coqdep', '-Q', '.', 'NixV'] + v_files(), cwd=COQ, capture_output=True, text=True)
    dep = {}
    for line in r.stdout.splitlines():
        if ':' not in line:
            continue
        l, rr = line.split(':', 1)
        tgts = [x for x in l.split() if x.endswith('.vo')]
        srcs = [x[:-1] for x in rr.split() if x.endswith('.vo')]
        for t in tgts:
            dep[t[:-1]] = [os.path.normpath(s) for s in srcs]
    seen = []
    todo = [os.path.normpath(vfile)]
    while todo:
        x = todo.pop()
        if x in seen:
            continue
        seen.append(x)
        todo += dep.get(x, [])
    return [s for s in seen if os.path.exists(os.path.join(COQ, s))]


def scan(files):
    """forbidden constructs in the given coq/ files; returns list of (file, line, text)"""
    bad = []
    for f in files:
        if f.startswith('Gen' + os.sep):
            pass
        t = strip_comments(open(os.path.join(COQ, f)).read())
        # string literals may legitimately contain the words
        t2 = re.sub(r'"(?:[^"]|"")*"', '""', t)
        stack = []
        for i, line in enumerate(t2.split('\n'), 1):
            if FORBIDDEN.search(line):
                bad.append((f, i, line.strip()[:120]))
            m = re.match(r'\s*(Section|Module\s+Type|Module)\s+([A-Za-z0-9_\']+)\s*(\.|:|<:|\()', line)
            if m and not (m.group(1).startswith('Module') and ':=' in line):
                stack.append((m.group(1), m.group(2)))
            m = re.match(r'\s*End\s+([A-Za-z0-9_\']+)\s*\.', line)
            if m and stack and stack[-1][1] == m.group(1):
                stack.pop()
            if re.match(r'\s*(Variable|Variables|Hypothesis|Hypotheses|Context)\b', line):
                if not any(k == 'Section' for k, _ in stack):
                    bad.append((f, i, 'section-less ' + line.strip()[:100]))
    return bad


def count_obligations(files):
    names = []
    for f in files:
        t = strip_comments(open(os.path.join(COQ, f)).read())
        for m in STMT.finditer(t):
            names.append(f + ':' + m.group(2))
    return names


def parse_assumptions(log):
    """Split coqc output of a Properties file into per-Print-Assumptions blocks."""
    blocks = []
    cur = None
    for line in log.splitlines():
        if line.startswith('Closed under the global context'):
            blocks.append([])
            cur = None
        elif line.startswith('Axioms:'):
            cur = []
            blocks.append(cur)
        elif cur is not None:
            m = re.match(r'^([A-Za-z_][A-Za-z0-9_\.\']*)\s*(:.*)?$', line)
            if m:
                cur.append(m.group(1))
            elif line and not line.startswith(' '):
                cur = None
    return blocks


def prove(prop_id, repo='/repo', timeout=1800):
    """Regenerate, build and check Properties_<id>.v.  Returns dict with the outcome."""
    t0 = time.time()
    res = {'ok': False, 'stage': None, 'log': '', 'theorems': [], 'axioms': [], 'obligations': 0, 'discharged': 0}
    use_repo(repo)
    with Lock(lockname()):
        gen_report = regenerate(repo)
        res['translator'] = gen_report
        write_project()
        make(shared_targets(), timeout)
    if True:
        pf = os.path.join('Properties', 'Properties_%s.v' % prop_id)
        deps = deps_of(pf)
        res['files'] = deps
        gen_needed = [g for g in gen_report.get('errors', {}) if os.path.join('Gen', g + '.v') in deps]
        if gen_needed:
            res['stage'] = 'translate'
            res['log'] = 'translator could not express: ' + '; '.join('%s: %s' % (g, gen_report['errors'][g]) for g in gen_needed)
            res['failed_theorem'] = 'translation of ' + ', '.join(gen_needed)
            res['obligations'] = len(count_obligations([d for d in deps if not d.startswith('Gen')]))
            return res
        bad = scan(deps)
        if bad:
            res['stage'] = 'scan'
            res['log'] = 'forbidden construct: ' + '; '.join('%s:%d %s' % b for b in bad[:5])
            return res
        obl = count_obligations(deps)
        res['obligations'] = len(obl)
        vo = pf + 'o'
        if os.path.exists(os.path.join(COQ, vo)):
            os.remove(os.path.join(COQ, vo))
        ok, log = make([vo], timeout)
        res['log'] = log[-6000:]
        # which files compiled
        done = [d for d in deps if os.path.exists(os.path.join(COQ, d + 'o'))]
        res['discharged'] = len(count_obligations(done))
        if not ok:
            res['stage'] = 'prove'
            m = re.search(r'File "\./([^"]+)", line (\d+)', log)
            if m:
                # name the enclosing lemma
                f, ln = m.group(1), int(m.group(2))
                try:
                    lines = open(os.path.join(COQ, f)).read().split('\n')[:ln]
                    nm = None
                    for l in reversed(lines):
                        mm = STMT.match(l)
                        if mm:
                            nm = mm.group(2)
                            break
                    res['failed_theorem'] = '%s (%s line %d)' % (nm, f, ln)
                except OSError:
                    res['failed_theorem'] = '%s line %d' % (f, ln)
            else:
                res['failed_theorem'] = 'build of ' + vo
            return res
        blocks = parse_assumptions(log)
        thms = [n.split(':')[1] for n in count_obligations([pf]) if True]
        res['theorems'] = thms
        ax = sorted(set(a for b in blocks for a in b))
        res['axioms'] = ax
        res['print_assumptions_blocks'] = len(blocks)
        unknown = [a for a in ax if a not in ALLOWED_AXIOMS and a.split('.')[-1] not in ALLOWED_AXIOMS]
        if unknown:
            res['stage'] = 'axioms'
            res['log'] = 'axioms outside the allow-list: ' + ', '.join(unknown)
            res['failed_theorem'] = 'Print Assumptions: ' + ', '.join(unknown)
            return res
        res['ok'] = True
        res['wall_s'] = round(time.time() - t0, 1)
        return res


def extract_deps(ex):
    """the .vo files (relative to coq/) an Extract file needs"""
    t = strip_comments(open(ex).read())
    mods = re.findall(r'NixV\.([A-Za-z0-9_\.]+)', t)
    return sorted(set(m.rstrip('.').replace('.', os.sep) + '.vo' for m in mods))


def build_model_driver(prop_id, repo='/repo'):
    """Extract coq/Extract/Extract_<id>.v (from the model regenerated/rebuilt against `repo`) and build
    ocaml/drv_<id>.ml against it. Returns exe path."""
    use_repo(repo)
    import repo as repolib
    with Lock(lockname()):
        regenerate(repo)
        write_project()
        make(shared_targets(), 1800)
    with Lock('.ocaml-%s-%s.lock' % (prop_id, repolib.tag_for(repo))):
        odir = os.path.join(BUILD, 'ocaml', prop_id if COQ == MAIN_COQ else prop_id + '-' + repolib.tag_for(repo))
        os.makedirs(odir, exist_ok=True)
        ex = os.path.join(COQ, 'Extract', 'Extract_%s.v' % prop_id)
        ok, log = make(extract_deps(ex), 1800)
        if not ok:
            raise RuntimeError('model files do not build: ' + log[-3000:])
        model = os.path.join(odir, 'model_%s.ml' % prop_id)
        # re-extract only when the Extract file or one of the compiled model files it names has changed
        import hashlib
        h = hashlib.sha256(open(ex, 'rb').read())
        for d in extract_deps(ex):
            try:
                h.update(open(os.path.join(COQ, d), 'rb').read())
            except OSError:
                h.update(b'missing')
        keyf = os.path.join(odir, '.extract.key')
        if not (os.path.exists(model) and os.path.exists(keyf) and open(keyf).read() == h.hexdigest()):
            r = subprocess.run(['timeout', '900', 'coqc', '-w', '-all', '-Q', COQ, 'NixV', ex], cwd=odir,
                               capture_output=True, text=True)
            if r.returncode != 0:
                raise RuntimeError('extraction failed: ' + (r.stdout + r.stderr)[-3000:])
            open(keyf, 'w').write(h.hexdigest())
        drv = open(os.path.join(VERIF, 'ocaml', 'drv_%s.ml' % prop_id)).read()
        uses = re.findall(r'\(\* use: ([A-Za-z0-9_]+) \*\)', drv)
        parts = [open(os.path.join(VERIF, 'ocaml', 'prelude.ml')).read(), open(model).read(),
                 open(os.path.join(VERIF, 'ocaml', 'common.ml')).read()] + \
                [open(os.path.join(VERIF, 'ocaml', u + '.ml')).read() for u in uses] + [drv]
        allml = os.path.join(odir, 'all_%s.ml' % prop_id)
        txt = '\n'.join(parts)
        exe = os.path.join(odir, 'modeldrv_%s' % prop_id)
        if not (os.path.exists(allml) and open(allml).read() == txt and os.path.exists(exe)):
            open(allml, 'w').write(txt)
            r = subprocess.run(['ocamlfind', 'ocamlopt', '-O2', '-w', '-a', '-package', 'zarith', '-linkpkg',
                                allml, '-o', exe], cwd=odir, capture_output=True, text=True)
            if r.returncode != 0:
                r = subprocess.run(['ocamlfind', 'ocamlopt', '-w', '-a', '-package', 'zarith', '-linkpkg',
                                    allml, '-o', exe], cwd=odir, capture_output=True, text=True)
            if r.returncode != 0:
                raise RuntimeError('ocaml build failed: ' + (r.stdout + r.stderr)[-3000:])
        return exe
