"""Generic check pipeline (DESIGN.md sections 2 and 4):
translate -> prove -> build -> generate -> correspond -> decide -> evidence."""
import os, sys, json, time, subprocess, hashlib, shutil, random, re, tempfile
from concurrent.futures import ThreadPoolExecutor

VERIF = os.path.dirname(os.path.dirname(os.path.dirname(os.path.abspath(__file__))))
BUILD = os.path.join(VERIF, 'build')
sys.path.insert(0, os.path.join(VERIF, 'tools', 'vlib'))
import coq as coqlib
import repo as repolib


class Case:
    """One case = one or more script lines executed in order in one driver process."""
    __slots__ = ('lines', 'tag', 'meta')

    def __init__(self, lines, tag='', meta=None):
        self.lines = lines if isinstance(lines, list) else [lines]
        self.tag = tag
        self.meta = meta or {}

    def text(self):
        return '\n'.join(self.lines)


class Prop:
    """Base class of a property's check definition (tools/props/Cxx.py)."""
    id = None
    driver = None            # harness/<driver>.cpp
    model = None             # suffix of coq/Extract/Extract_<model>.v and ocaml/drv_<model>.ml
    level = 'proof'
    technique = ''
    exhaustive = False
    assumptions = []
    trusted_base = []
    nontrivial_rule = ''
    search_scale = 20
    search_budget_s = 600     # wall-clock budget of the widened search after a broken proof / correspondence

    def generate(self, seed, tier, scale=1):
        raise NotImplementedError

    def corpus(self):
        """minimised failures kept from earlier runs; always run first"""
        d = os.path.join(VERIF, 'tools', 'corpus', self.id)
        out = []
        if os.path.isdir(d):
            for f in sorted(os.listdir(d)):
                lines = [l.rstrip('\n') for l in open(os.path.join(d, f)) if l.strip() and not l.startswith('#')]
                if lines:
                    out.append(Case(lines, 'corpus:' + f))
        return out

    def canon(self, line):
        return line

    def compare(self, a, b):
        """are implementation line `a` and model line `b` the same observation?"""
        if b == 'ERR':          # the specification demands a refusal, whatever the exception class
            return a.startswith('ERR')
        if b.startswith('UB') and a.startswith('CRASH'):
            return True             # the model predicts undefined behaviour and the sanitizers saw it

        return self.canon(a) == self.canon(b)

    def nontrivial(self, case, model_lines):
        """a case is non-trivial when the model reached a non-error outcome"""
        return any(l.startswith('OK') for l in model_lines)

    def signature(self, case, impl_lines, spec_lines):
        """canonical description of a failing case for the known-findings match"""
        return {'case': case.lines[0].split(' ')[0]}

    def describe(self, case, impl_lines, spec_lines):
        return 'implementation answers %r where the specification requires %r' % (impl_lines, spec_lines)

    def impl_args(self, casefile, workdir):
        return [casefile, workdir]

    def extra_checks(self, ctx):
        """property-specific additional runtime checks; returns list of failure dicts"""
        return []


def split_out(lines):
    """'n OUT' lines -> {n: OUT}"""
    d = {}
    for l in lines:
        l = l.rstrip('\n')
        if not l:
            continue
        sp = l.split(' ', 1)
        try:
            d[int(sp[0])] = sp[1] if len(sp) > 1 else ''
        except ValueError:
            continue
    return d


def run_driver_on(exe, args_fn, cases, workroot, tag, sanitize, timeout=600):
    """Run `cases` through a driver, restarting after a crash. Returns list (per case) of list of output lines."""
    results = [None] * len(cases)
    start = 0
    attempt = 0
    crashes = []
    timeouts_here = 0
    while start < len(cases):
        attempt += 1
        wd = tempfile.mkdtemp(prefix='%s-' % tag, dir=workroot)
        cf = os.path.join(wd, 'cases.txt')
        ranges = []
        n = 0
        with open(cf, 'w') as f:
            for c in cases[start:]:
                lo = n + 1
                for l in c.lines:
                    f.write(l + '\n')
                    n += 1
                ranges.append((lo, n))
        env = dict(os.environ)
        if sanitize:
            env.update(repolib.SAN_ENV)
        try:
            r = subprocess.run([exe] + args_fn(cf, wd), capture_output=True, text=True, errors='replace', env=env, timeout=timeout, cwd=wd)
            rc, out, err = r.returncode, r.stdout, r.stderr
        except subprocess.TimeoutExpired as e:
            rc, out, err = -9, (e.stdout or b'').decode(errors='replace') if isinstance(e.stdout, bytes) else (e.stdout or ''), 'TIMEOUT'
        d = split_out(out.split('\n'))
        last_done = 0
        crashed_at = None
        for i, (lo, hi) in enumerate(ranges):
            got = [d.get(k) for k in range(lo, hi + 1)]
            if all(g is not None for g in got):
                results[start + i] = got
                last_done = i + 1
            else:
                crashed_at = i
                break
        shutil.rmtree(wd, ignore_errors=True)
        if crashed_at is None:
            break
        if err == 'TIMEOUT' and (crashed_at > 0 or timeouts_here < 2):
            # the time limit hit (a loaded machine, not a hang): continue from the unfinished case with a doubled limit;
            # only a case that alone exceeds the limit twice in a row is reported
            timeouts_here = timeouts_here + 1 if crashed_at == 0 else 0
            timeout *= 2
            start = start + crashed_at
            continue
        timeouts_here = 0
        # the process died inside case `crashed_at`
        lo, hi = ranges[crashed_at]
        got = [d.get(k) for k in range(lo, hi + 1)]
        summ = sanitizer_summary(err, rc)
        got = [g if g is not None else 'CRASH ' + summ for g in got]
        results[start + crashed_at] = got
        crashes.append((start + crashed_at, summ, err[-3000:]))
        start = start + crashed_at + 1
        if attempt > 400:
            for j in range(start, len(cases)):
                results[j] = ['CRASH too-many-crashes'] * len(cases[j].lines)
            break
    return results, crashes


def sanitizer_summary(err, rc):
    m = re.search(r'SUMMARY: (\w+): ([^\n]*)', err)
    if m:
        s = m.group(2)
        s = re.sub(r'0x[0-9a-f]+', 'ADDR', s)
        return (m.group(1) + ':' + s.split(' in ')[0]).replace(' ', '_')[:120]
    m = re.search(r'runtime error: ([^\n]*)', err)
    if m:
        return 'UBSan:' + re.sub(r'0x[0-9a-f]+', 'ADDR', m.group(1)).replace(' ', '_')[:120]
    if 'TIMEOUT' in err:
        return 'timeout'
    if 'terminate called' in err:
        return 'std::terminate'
    return 'exit_%s' % rc


def shard(cases, n):
    k = max(1, min(n, len(cases)))
    size = (len(cases) + k - 1) // k
    return [cases[i:i + size] for i in range(0, len(cases), size)]


def run_sharded(exe, args_fn, cases, tag, sanitize, workers=16, timeout=900):
    workroot = os.path.join(BUILD, 'run')
    os.makedirs(workroot, exist_ok=True)
    shards = shard(cases, workers)
    with ThreadPoolExecutor(max_workers=workers) as ex:
        outs = list(ex.map(lambda s: run_driver_on(exe, args_fn, s, workroot, tag, sanitize, timeout), shards))
    results = []
    crashes = []
    base = 0
    for (r, c), s in zip(outs, shards):
        results += r
        crashes += [(base + i, summ, err) for (i, summ, err) in c]
        base += len(s)
    return results, crashes


def load_known():
    p = os.path.join(VERIF, 'known-findings.json')
    if not os.path.exists(p):
        return []
    return json.load(open(p)).get('findings', [])


def sig_matches(entry_sig, sig):
    """every key of the listed signature must be present and equal (lists = membership)"""
    for k, v in entry_sig.items():
        if k not in sig:
            return False
        if isinstance(v, list) and not isinstance(sig[k], list):
            if sig[k] not in v:
                return False
        elif sig[k] != v:
            return False
    return True


MAX_REPORT = 5   # distinct violations written out per run; further ones are only counted


class Outcome:
    def __init__(self):
        self.violations = []       # list of dict(case, impl, spec, why, replay)
        self.known = []
        self.mismatches = []       # correspondence disagreements (case idx)
        self.evals = 0
        self.nontrivial = set()
        self.samples = []
        self.crashes = []
        self.validated = 0
        self.dist = {}


def evaluate(prop, impl_exe, model_exe, cases, out):
    """run both sides on cases; fill `out`; returns (corr_mismatch list, spec_fail list)"""
    if not cases:
        return [], []
    impl_res, crashes = run_sharded(impl_exe, prop.impl_args, cases, prop.id + '-impl', True)
    model_res, mcr = run_sharded(model_exe, lambda cf, wd: [cf], cases, prop.id + '-model', False)
    if mcr:
        raise RuntimeError('model driver crashed on case %r: %s' % (cases[mcr[0][0]].lines, mcr[0][2][-500:]))
    out.crashes += crashes
    mism = []
    fails = []
    for i, c in enumerate(cases):
        il = impl_res[i]
        ml_raw = model_res[i]
        ml = []
        sl = []
        for x in ml_raw:
            if ' ## ' in x:
                a, b = x.split(' ## ', 1)
            else:
                a, b = x, x
            ml.append(a)
            sl.append(b)
        out.evals += 1
        if prop.nontrivial(c, ml):
            out.nontrivial.add(hashlib.sha1(c.text().encode()).hexdigest())
        t = c.tag.split(':')[0] if c.tag else 'untagged'
        out.dist[t] = out.dist.get(t, 0) + 1
        same = all(prop.compare(a, b) for a, b in zip(il, ml))
        if same:
            out.validated += 1
        else:
            mism.append((c, il, ml))
        specbad = [k for k, (a, b) in enumerate(zip(il, sl)) if b != 'ANY' and not prop.compare(a, b)]
        if specbad:
            fails.append((c, il, sl))
    return mism, fails


def write_replay(prop, n, case, info):
    d = os.path.join(BUILD, 'replay')
    os.makedirs(d, exist_ok=True)
    p = os.path.join(d, '%s-%d.case' % (prop.id, n))
    with open(p, 'w') as f:
        f.write('# property %s\n' % prop.id)
        for k, v in info.items():
            for line in str(v).split('\n'):
                f.write('# %s: %s\n' % (k, line))
        if case is not None:
            for l in case.lines:
                f.write(l + '\n')
    return p


def run_check(prop, tier, seed, repo='/repo'):
    t0 = time.time()
    out = Outcome()
    printed = []
    exit_code = 0
    ev_extra = {}

    def say(s):
        print(s, flush=True)
        printed.append(s)

    # 1+2 translate, prove
    pr = coqlib.prove(prop.id, repo)
    proofs_ok = pr['ok']
    # 3 build implementation and model drivers
    impl_exe, bstats = repolib.build_driver(prop.driver, repo)
    model_exe = None
    model_err = None
    try:
        model_exe = coqlib.build_model_driver(prop.model or prop.id, repo)
    except RuntimeError as e:
        model_err = str(e)
    known = [k for k in load_known() if k.get('property') == prop.id and k.get('status') == 'open']
    nrep = [0]
    suppressed = [0]
    reported_sigs = []

    def report_fail(c, il, sl):
        sig = prop.signature(c, il, sl)
        for k in known:
            if sig_matches(k.get('signature', {}), sig):
                if k not in out.known:
                    out.known.append(k)
                    say('KNOWN-FINDING: property=%s %s' % (prop.id, k.get('what', '')))
                return False
        if sig in reported_sigs:
            return True
        reported_sigs.append(sig)
        if len(out.violations) >= MAX_REPORT:
            suppressed[0] += 1
            return True
        nrep[0] += 1
        p = write_replay(prop, nrep[0], c, {'what': prop.describe(c, il, sl), 'implementation': il, 'specification': sl,
                                            'signature': json.dumps(sig)})
        out.violations.append({'replay': p, 'why': prop.describe(c, il, sl)})
        say('VIOLATION property=%s replay=%s' % (prop.id, p))
        return True

    corr_ok = True
    first_mismatch = None
    if model_exe is None:
        corr_ok = False
    else:
        cases = prop.corpus() + prop.generate(seed, tier, 1)
        out.samples = pick_samples(cases)
        mism, fails = evaluate(prop, impl_exe, model_exe, cases, out)
        explained = set()
        for f in fails:
            before = len(out.known)
            matched_known = any(sig_matches(k.get('signature', {}), prop.signature(*f)) for k in known)
            report_fail(*f)
            if matched_known:
                explained.add(id(f[0]))
        # a disagreement between implementation and model on a case that is a listed open finding (e.g. a
        # non-deterministic defect the model cannot reproduce) is that finding, not a broken correspondence
        mism = [m for m in mism if id(m[0]) not in explained]
        if mism:
            corr_ok = False
            first_mismatch = mism[0]
        out.mismatches = mism
        extra = prop.extra_checks({'impl_exe': impl_exe, 'model_exe': model_exe, 'tier': tier, 'seed': seed,
                                   'say': say, 'out': out, 'ev': ev_extra, 'repo': repo})
        for e in extra:
            report_fail(e['case'], e['impl'], e['spec'])

    searched = 0
    if (not proofs_ok or not corr_ok) and not out.violations:
        # DESIGN section 4: widen the search for a concrete failing input
        found = False
        if model_exe is not None:
            for s in range(1, 6):
                cases = prop.generate(seed * 1000 + s, 'thorough' if tier == 'quick' else tier, prop.search_scale)
                searched += len(cases)
                mism, fails = evaluate(prop, impl_exe, model_exe, cases, out)
                for f in fails:
                    if report_fail(*f):
                        found = True
                if found or time.time() - t0 > prop.search_budget_s:
                    break
        if not found and not (out.known and proofs_ok and corr_ok):
            nrep[0] += 1
            if not proofs_ok:
                what = 'proof obligation no longer checks: %s' % pr.get('failed_theorem', pr.get('stage'))
                detail = pr.get('log', '')[-1500:]
            elif model_exe is None:
                what = 'model could not be extracted/built'
                detail = model_err or ''
            else:
                c, il, ml = first_mismatch
                what = 'correspondence: implementation and model disagree'
                detail = 'case: %s\nimplementation: %s\nmodel: %s' % (c.lines, il, ml)
            p = write_replay(prop, nrep[0], first_mismatch[0] if first_mismatch else None,
                             {'what': what, 'detail': detail, 'searched_cases': searched})
            out.violations.append({'replay': p, 'why': what})
            say('VIOLATION property=%s replay=%s no-failing-input-found' % (prop.id, p))
    if out.violations:
        exit_code = 1

    wall = round(time.time() - t0, 1)
    tb = ['Coq 8.16.1 kernel (coqc, vm_compute; no native_compute)',
          'axioms reported by Print Assumptions: ' + (', '.join(pr.get('axioms', [])) or 'none (closed under the global context)'),
          'extraction: ExtrOcamlBasic directives only; OCaml 4.13.1; ocaml/prelude.ml + common.ml + drv_%s.ml glue (zarith for decimal I/O)' % (prop.model or prop.id),
          'correspondence harness: harness/%s.cpp + common.hpp, g++ 12 -O1 ASan+UBSan, -ffp-contract=off' % prop.driver,
          ] + list(prop.trusted_base)
    ev = {
        'property_id': prop.id, 'tier': tier, 'seed': seed, 'level': prop.level,
        'coverage': {
            'obligations': pr.get('obligations', 0), 'discharged': pr.get('discharged', 0),
            'checker_cmd': 'make -k Properties/Properties_%s.vo (coqc 8.16.1, full .vo build) in /verif/coq after regenerating coq/Gen from %s' % (prop.id, repo),
            'trusted_base': tb,
            'theorems': pr.get('theorems', []),
            'print_assumptions': pr.get('axioms', []),
            'print_assumptions_blocks': pr.get('print_assumptions_blocks', 0),
            'proofs_ok': proofs_ok, 'correspondence_ok': corr_ok,
            'proof_failure': None if proofs_ok else pr.get('failed_theorem', pr.get('stage')),
            'translator': pr.get('translator', {}),
            'coq_files': pr.get('files', []),
            'evaluations': out.evals, 'distinct_nontrivial': len(out.nontrivial),
            'rule': prop.nontrivial_rule,
            'samples': out.samples,
            'traces_validated_against_impl': out.validated,
            'disagreements_checked': len(out.mismatches),
            'first_disagreements': [{'case': c.lines, 'implementation': il, 'model': ml} for (c, il, ml) in out.mismatches[:5]],
            'input_distribution': out.dist,
            'implementation_crashes': [c[1] for c in out.crashes][:20],
            'searched_after_break': searched,
            'exhaustive': bool(prop.exhaustive),
            'repo_build': bstats,
            'known_findings_hit': [k.get('what') for k in out.known],
            'further_violations_not_written_out': suppressed[0],
        },
        'assumptions': list(prop.assumptions),
        'wall_s': wall,
        'violations': len(out.violations),
    }
    ev['coverage'].update(ev_extra)
    # evidence of the registered tree goes to evidence/; runs against an alternate copy (--repo) keep theirs apart
    evdir = os.path.join(VERIF, 'evidence') if os.path.abspath(repo) == '/repo' else \
        os.path.join(BUILD, 'evidence-' + repolib.tag_for(repo))
    os.makedirs(evdir, exist_ok=True)
    json.dump(ev, open(os.path.join(evdir, prop.id + '.json'), 'w'), indent=1)
    say('%s %s tier=%s seed=%s proofs_ok=%s corr_ok=%s cases=%d nontrivial=%d violations=%d known=%d wall=%.1fs' % (
        'PASS' if exit_code == 0 else 'FAIL', prop.id, tier, seed, proofs_ok, corr_ok, out.evals, len(out.nontrivial),
        len(out.violations), len(out.known), wall))
    return exit_code


def pick_samples(cases):
    if not cases:
        return []
    s = sorted(cases, key=lambda c: len(c.text()))
    picks = [cases[0], s[len(s) // 2], s[-1]]
    outl = []
    for c in picks:
        t = c.lines if len(c.lines) <= 40 else c.lines[:40] + ['... (%d more lines)' % (len(c.lines) - 40)]
        outl.append({'tag': c.tag, 'lines': t})
    return outl


def replay(prop, path, repo='/repo'):
    lines = [l.rstrip('\n') for l in open(path) if l.strip() and not l.startswith('#')]
    hdr = [l.rstrip('\n') for l in open(path) if l.startswith('#')]
    print('\n'.join(hdr))
    if not lines:
        print('replay file names a broken proof obligation / correspondence; re-running the check shows it')
        return 1
    impl_exe, _ = repolib.build_driver(prop.driver, repo)
    model_exe = coqlib.build_model_driver(prop.model or prop.id, repo)
    out = Outcome()
    c = Case(lines, 'replay')
    mism, fails = evaluate(prop, impl_exe, model_exe, [c], out)
    for (cc, il, sl) in fails:
        print('implementation : %s\nspecification  : %s' % (il, sl))
    for (cc, il, ml) in mism:
        print('implementation : %s\nmodel          : %s' % (il, ml))
    if fails:
        print('VIOLATION property=%s replay=%s' % (prop.id, path))
        return 1
    print('no violation on this input')
    return 0
