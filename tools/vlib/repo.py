"""Incremental sanitizer build of /repo's *current working tree* into /verif/build.

Every library source CMake lists (src/*.cpp src/*/*.cpp backend/hdf5/*.cpp
backend/hdf5/h5x/*.cpp) is compiled with the repository's own flags
(-std=c++11 -DH5_USE_110_API=1) plus ASan/UBSan and -DNIX_VERIF.  An object is
re-used only when the content of the source and of every header it included
last time (from the compiler's depfile) is unchanged, so an edited /repo is
always rebuilt.  Harness drivers are linked against the resulting archive.
"""
import hashlib, os, re, subprocess, sys, glob, fcntl, time
from concurrent.futures import ThreadPoolExecutor

VERIF = os.path.dirname(os.path.dirname(os.path.dirname(os.path.abspath(__file__))))
BUILD = os.path.join(VERIF, 'build')
REPO_DEFAULT = '/repo'

SAN = ['-fsanitize=address,undefined,float-cast-overflow', '-fno-sanitize-recover=undefined,float-cast-overflow',
       '-fno-omit-frame-pointer']
BASE = ['-std=c++11', '-DH5_USE_110_API=1', '-DNIX_VERIF', '-O1', '-g', '-fPIC', '-w', '-ffp-contract=off']
LIBS = ['-L/usr/lib/x86_64-linux-gnu/hdf5/serial', '-lhdf5', '-lboost_date_time', '-lboost_regex',
        '-lboost_filesystem', '-lboost_system', '-lpthread']


def sha(b):
    return hashlib.sha256(b).hexdigest()


def fhash(path, cache={}):
    try:
        st = os.stat(path)
    except OSError:
        return 'missing'
    key = (path, st.st_mtime_ns, st.st_size)
    if key not in cache:
        with open(path, 'rb') as f:
            cache[key] = sha(f.read())
    return cache[key]


def tag_for(repo):
    return 'main' if os.path.abspath(repo) == REPO_DEFAULT else 'alt-' + sha(os.path.abspath(repo).encode())[:10]


def version_header(repo, outdir):
    txt = open(os.path.join(repo, 'CMakeLists.txt')).read()
    v = {}
    for k in ('MAJOR', 'MINOR', 'PATCH'):
        m = re.search(r'set\s*\(\s*VERSION_%s\s+(\d+)' % k, txt)
        v[k] = m.group(1) if m else '0'
    tpl = open(os.path.join(repo, 'version.h.in')).read()
    for k in v:
        tpl = tpl.replace('@VERSION_%s@' % k, v[k])
    d = os.path.join(outdir, 'include', 'nix')
    os.makedirs(d, exist_ok=True)
    p = os.path.join(d, 'nixversion.hpp')
    if not os.path.exists(p) or open(p).read() != tpl:
        open(p, 'w').write(tpl)


def sources(repo):
    pats = ['src/*.cpp', 'src/*/*.cpp', 'backend/hdf5/*.cpp', 'backend/hdf5/h5x/*.cpp']
    out = []
    for p in pats:
        out += sorted(glob.glob(os.path.join(repo, p)))
    return out


def includes(repo, bdir):
    return ['-I' + os.path.join(repo, 'include'), '-I' + os.path.join(bdir, 'include'),
            '-I' + os.path.join(repo, 'backend'), '-I/usr/include/hdf5/serial']


def parse_deps(dfile):
    try:
        t = open(dfile).read()
    except OSError:
        return None
    t = t.replace('\\\n', ' ')
    t = t.split(':', 1)[1] if ':' in t else ''
    return [x for x in t.split() if x]


def compile_one(args):
    src, obj, flags = args
    dfile = obj[:-2] + '.d'
    sigf = obj[:-2] + '.sig'
    deps = parse_deps(dfile)
    flagsig = sha(' '.join(flags).encode())
    if deps is not None and os.path.exists(obj) and os.path.exists(sigf):
        cur = sha((flagsig + ''.join(fhash(d) for d in deps)).encode())
        if open(sigf).read() == cur:
            return (src, True, '')
    cmd = ['g++'] + flags + ['-MMD', '-MF', dfile, '-c', src, '-o', obj]
    r = subprocess.run(cmd, capture_output=True, text=True)
    if r.returncode != 0:
        for f in (obj, sigf):
            if os.path.exists(f):
                os.remove(f)
        return (src, False, r.stderr[-4000:])
    deps = parse_deps(dfile) or []
    open(sigf, 'w').write(sha((flagsig + ''.join(fhash(d) for d in deps)).encode()))
    return (src, False, '')


class BuildError(Exception):
    pass


def build_lib(repo=REPO_DEFAULT, log=None):
    """Build (incrementally) the sanitizer archive for the working tree at `repo`.
    Returns (archive path, bdir, stats)."""
    t0 = time.time()
    bdir = os.path.join(BUILD, 'repo-' + tag_for(repo))
    odir = os.path.join(bdir, 'obj')
    os.makedirs(odir, exist_ok=True)
    lockf = open(os.path.join(bdir, '.lock'), 'w')
    fcntl.flock(lockf, fcntl.LOCK_EX)
    try:
        version_header(repo, bdir)
        flags = BASE + SAN + includes(repo, bdir)
        jobs = []
        objs = []
        for s in sources(repo):
            rel = os.path.relpath(s, repo).replace('/', '__')[:-4]
            o = os.path.join(odir, rel + '.o')
            objs.append(o)
            jobs.append((s, o, flags))
        # drop objects of sources that no longer exist
        for o in glob.glob(os.path.join(odir, '*.o')):
            if o not in objs:
                os.remove(o)
        with ThreadPoolExecutor(max_workers=16) as ex:
            res = list(ex.map(compile_one, jobs))
        errs = [(s, e) for (s, ok, e) in res if e]
        if errs:
            raise BuildError('compile failed:\n' + '\n'.join('%s:\n%s' % x for x in errs[:3]))
        rebuilt = sum(1 for (_, cached, _) in res if not cached)
        lib = os.path.join(bdir, 'libnixsan.a')
        if rebuilt or not os.path.exists(lib):
            if os.path.exists(lib):
                os.remove(lib)
            subprocess.run(['ar', 'rcs', lib] + objs, check=True)
        return lib, bdir, {'sources': len(jobs), 'rebuilt': rebuilt, 'wall_s': round(time.time() - t0, 1)}
    finally:
        fcntl.flock(lockf, fcntl.LOCK_UN)
        lockf.close()


def build_driver(name, repo=REPO_DEFAULT, extra_srcs=()):
    """Compile harness/<name>.cpp against the sanitizer archive; returns the binary path."""
    lib, bdir, stats = build_lib(repo)
    src = os.path.join(VERIF, 'harness', name + '.cpp')
    exe = os.path.join(bdir, name)
    flags = BASE + SAN + includes(repo, bdir) + ['-I' + os.path.join(VERIF, 'harness')]
    obj = os.path.join(bdir, name + '.drv.o')
    s, cached, err = compile_one((src, obj, flags))
    if err:
        raise BuildError('driver %s failed to compile against the working tree:\n%s' % (name, err))
    if (not cached) or stats['rebuilt'] or not os.path.exists(exe) or os.path.getmtime(exe) < os.path.getmtime(lib):
        r = subprocess.run(['g++'] + SAN + [obj, lib] + LIBS + ['-o', exe], capture_output=True, text=True)
        if r.returncode != 0:
            raise BuildError('link of %s failed:\n%s' % (name, r.stderr[-3000:]))
    return exe, stats


SAN_ENV = {'ASAN_OPTIONS': 'detect_leaks=0:abort_on_error=0:exitcode=97:allocator_may_return_null=1',
           'UBSAN_OPTIONS': 'print_stacktrace=1:halt_on_error=1:exitcode=98'}

if __name__ == '__main__':
    repo = sys.argv[1] if len(sys.argv) > 1 else REPO_DEFAULT
    print(build_lib(repo))
