#!/usr/bin/env python3
"""Regenerates MANIFEST.json from the property modules in tools/props (claimed checks) and
tools/not_applicable.json (reasons for properties not claimed)."""
import os, sys, json, importlib
VERIF = os.path.dirname(os.path.dirname(os.path.abspath(__file__)))
sys.path.insert(0, os.path.join(VERIF, 'tools', 'vlib'))
sys.path.insert(0, os.path.join(VERIF, 'tools', 'props'))
props = [json.loads(l) for l in open(os.path.join(VERIF, 'properties.jsonl'))]
ids = [p['id'] for p in props]
mods = json.load(open(os.path.join(VERIF, 'tools', 'claimed.json')))
na = json.load(open(os.path.join(VERIF, 'tools', 'not_applicable.json')))
hooks = json.load(open(os.path.join(VERIF, 'tools', 'hooks.json')))
checks = []
for pid in mods:
    p = importlib.import_module(pid).PROP
    checks.append({
        'property_id': pid,
        'quick_cmd': 'python3 tools/check.py %s --tier quick' % pid,
        'thorough_cmd': 'python3 tools/check.py %s --tier thorough' % pid,
        'evidence_file': '/verif/evidence/%s.json' % pid,
        'replay_cmd_template': 'python3 tools/check.py %s --replay {path}' % pid,
        'engine': 'coq+correspondence',
        'level_claimed': {'category': p.level, 'text': p.level_text, 'design_ref': 'DESIGN.md section 7, ' + pid},
        'level_note': p.level_note,
        'technique': p.technique,
    })
m = {
    'version': 1,
    'setup_cmd': 'python3 tools/check.py --setup',
    'hooks': hooks,
    'engines': [{'name': 'coq+correspondence', 'path': 'tools/check.py', 'serves_properties': mods,
                 'kind_free_text': 'Coq 8.16 proofs over an executable Gallina model (coq/), model tied to /repo on every run by a '
                                   'clang-AST-to-Gallina translator (tools/translate) and by a differential correspondence run of the '
                                   'extracted model (ocaml/) against the sanitizer-built library (harness/)'}],
    'checks': checks,
    'not_applicable': [{'property_id': i, 'reason': na.get(i, 'check not built yet (work in progress)')} for i in ids if i not in mods],
    'notes': 'See DESIGN.md. Every check regenerates coq/Gen from /repo, rebuilds the Coq project target of the property, rebuilds '
             '/repo\'s working tree with ASan/UBSan and -DNIX_VERIF, and runs the correspondence.',
}
json.dump(m, open(os.path.join(VERIF, 'MANIFEST.json'), 'w'), indent=1)
print('claimed:', mods)
