"""C18 — unit scaling (unit algebra half): splitUnit / isSIUnit / isScalable / getSIScaling of src/util/util.cpp.

Coq model of the regular expressions as ordered alternation over the GENERATED tables, theorems over the
whole grammar, correspondence on every unit string of the grammar and every pair sharing base and power."""
import os, re, random, itertools, struct
from fractions import Fraction
import engine
from engine import Prop, Case

def ulp_tolerance(n):
    """The C++ double has to be within this many ulp of 10^k, k = n * (exp_a - exp_b).  The library computes
    pow(f_a / f_b, n) from two decimal literals rounded to binary64 and one IEEE division (3 roundings, relative error
    <= 3 * 2^-53), which the n-th power multiplies by |n|; libm's pow adds its own rounding: (3|n| + 1) ulp, i.e. the
    4 ulp of DESIGN.md for the plain prefix change n = 1."""
    return 3 * abs(n) + 1


def enc(s):
    if isinstance(s, str):
        s = s.encode('utf-8')
    return 's:' + s.hex()


def dec(tok):
    return bytes.fromhex(tok[2:])


def read_tables(repo):
    """PREFIXES / UNITS (ordered) from the util.cpp of the tree under check - never hard-coded."""
    src = open(os.path.join(repo, 'src', 'util', 'util.cpp'), encoding='utf-8', errors='replace').read()

    def alt(name):
        m = re.search(r'const\s+string\s+%s\s*=\s*"\(((?:[^"\\]|\\.)*)\)"\s*;' % name, src)
        if not m:
            raise RuntimeError('cannot find %s in util.cpp' % name)
        return m.group(1).split('|')
    return alt('PREFIXES'), alt('UNITS')


def read_factor_exponents(repo):
    """decimal exponent of every PREFIX_FACTORS entry of the tree under check (None when it is no power of ten)"""
    src = open(os.path.join(repo, 'src', 'util', 'util.cpp'), encoding='utf-8', errors='replace').read()
    m = re.search(r'PREFIX_FACTORS\s*=\s*\{(.*?)\};', src, re.S)
    out = {}
    for p, v in re.findall(r'\{\s*"([^"]*)"\s*,\s*([0-9.eE+-]+)\s*\}', m.group(1) if m else ''):
        f = float(v)
        out[p] = next((k for k in range(-30, 31) if float('1e%d' % k) == f), None)
    return out


def ulp_at(x):
    """unit in the last place of binary64 at the positive rational x"""
    e = x.numerator.bit_length() - x.denominator.bit_length()
    if Fraction(2) ** e > x:
        e -= 1
    elif Fraction(2) ** (e + 1) <= x:
        e += 1
    return Fraction(2) ** (max(e, -1022) - 52)


def dbl_of_bits(h):
    bits = int(h, 16)
    s, e, m = bits >> 63, (bits >> 52) & 0x7ff, bits & ((1 << 52) - 1)
    if e == 0x7ff:
        return 'nan' if m else ('-inf' if s else 'inf')
    v = Fraction(m, 1) * Fraction(2) ** (-1074) if e == 0 else Fraction((1 << 52) + m) * Fraction(2) ** (e - 1075)
    return -v if s else v


def ulp_error(hexbits, k):
    """distance of the double with these bits from 10^k in ulp(10^k); None for inf/nan"""
    v = dbl_of_bits(hexbits)
    if isinstance(v, str) or abs(k) > 400:
        return None
    exact = Fraction(10) ** k
    return abs(v - exact) / ulp_at(exact)


DBL_MAX = Fraction(2) ** 1024 - Fraction(2) ** 971


def close_to_pow10(hexbits, k, tol):
    v = dbl_of_bits(hexbits)
    if k > 400:                      # 10^k is far above the largest double: pow overflows to +inf
        return v == 'inf'
    if k < -400:                     # far below the smallest subnormal: pow underflows to +0
        return not isinstance(v, str) and v == 0 and hexbits == '0' * 16
    exact = Fraction(10) ** k
    if isinstance(v, str):
        return v == 'inf' and exact > DBL_MAX
    return abs(v - exact) <= tol * ulp_at(exact)


CONV_TOLERANCE = 5      # ulp: 4 for the factor of a plain prefix change (n = 1) + 1 for the product value * factor


def scaled_double_ok(implbits, valuebits, k):
    """convertToSeconds/Kelvin<double>: value * getSIScaling(..) against value * 10^k"""
    v = dbl_of_bits(valuebits)
    r = dbl_of_bits(implbits)
    if isinstance(v, str):
        return r == v
    if v == 0:
        return implbits == valuebits
    if abs(k) > 700:
        return False
    exact = v * Fraction(10) ** k
    if isinstance(r, str):
        # the product overflows: an infinity of the right sign, when value * 10^k is beyond (or within tolerance of) the largest double
        return r == ('inf' if exact > 0 else '-inf') and abs(exact) >= DBL_MAX - CONV_TOLERANCE * ulp_at(DBL_MAX)
    return abs(r - exact) <= CONV_TOLERANCE * ulp_at(min(abs(exact), DBL_MAX))


def scaled_int_ok(impl, n, k):
    """convertToSeconds/Kelvin<int>: round(value * factor) against n * 10^k; near a half either neighbour is accepted"""
    if abs(k) > 400:
        return False
    exact = n * Fraction(10) ** k
    return abs(impl - exact) <= Fraction(1, 2) + CONV_TOLERANCE * Fraction(2) ** -52 * abs(exact)


class C18(Prop):
    id = 'C18'
    driver = 'drv_C18'
    model = 'C18'
    exhaustive = False        # set per run: True in the thorough tier (see run_check)
    repo = '/repo'
    level_text = ('Machine-checked Coq theorems about an executable model of splitUnit / isSIUnit / isScalable / getSIScaling in which the '
                  'regular expressions are ordered alternations over the PREFIXES, UNITS and PREFIX_FACTORS tables regenerated from '
                  'src/util/util.cpp on every run: every prefix x base unit x power (-3..3) string parses back into its parts, the factor is '
                  '10^(power*(exp_a-exp_b)), reciprocity, composition, symmetry of scalability, rejection of different base / power and of '
                  'non-SI strings (for arbitrary strings, against a declarative definition of the SI grammar), the factor table equals the SI '
                  'exponents. The model is tied to the sanitizer-built library by a correspondence run over all units of the grammar, all '
                  'ordered pairs sharing base and power, sampled other pairs and a malformed stream, judged by an extracted oracle that '
                  'works on units given as (prefix, base, power) parts.')
    level_note = ('getSIScaling is modelled as the exponent k of the factor 10^k; the C++ double (table lookups, one division, libm pow, none '
                  'of them assumed correctly rounded beyond IEEE division) is accepted when it lies within (3|n|+1) ulp of 10^k, n the power (4 ulp for n = 1). Trusted: Coq kernel, '
                  'the table extractor of tools/translate/gen.py, the hand-written regex/splitUnit model (tied by correspondence), '
                  'ExtrOcamlBasic extraction, the driver glue. The retrieval-invariance half of C18 lives in the retrieval model (C05/C06/C17).')
    technique = 'Coq proof over generated tables (finite grammar sweep by vm_compute + symbolic algebra) + exhaustive correspondence with a parts-based oracle'
    nontrivial_rule = ('all 21 x 31 x 7 unit strings (split3, issi3), all ordered pairs of prefixes for every base x power (scaling6 / scalable6: all '
                       '95 697 pairs in the thorough tier; in quick all 441 pairs for a third of the base x power combinations + a 10 % sample), sampled pairs with different base or power, extended powers (signs, several digits, int '
                       'limits), compound units, single-character mutations of valid units and a fixed malformed list; a case is non-trivial when '
                       'the model reaches an OK outcome; distinct = distinct case text')
    assumptions = ['strings are byte strings; Boost.Regex (Perl syntax, C locale) is modelled for the operators the five expressions use: '
                   'literals, ordered alternation, greedy ? * +, the classes [+-] [1-9] \\d',
                   'the double returned by getSIScaling is compared with 10^k up to (3|n|+1) ulp, n the power (pow and the stored decimal literals are not exact)',
                   'std::stoi = strtol base 10 with int range check (C locale)']
    trusted_base = ['table extractor tools/translate/gen.py (PREFIXES, UNITS, POWER, PREFIX_FACTORS regenerated every run)',
                    'hand-written model coq/Units/UnitsModel.v of regex_match / regex_search / splitUnit / isScalable / getSIScaling, tied by the correspondence run',
                    'tolerance comparison of doubles with 10^k in tools/props/C18.py (exact rational arithmetic)']

    # ---- engine hooks -------------------------------------------------------------------------------------------
    def run_check(self, tier, seed, repo='/repo'):
        self.repo = repo
        # thorough: every unit string and every ordered pair sharing base and power is run; quick samples the pairs
        self.exhaustive = (tier == 'thorough')
        return engine.run_check(self, tier, seed, repo)

    def extra_checks(self, ctx):
        ep = {}
        for c, n in sorted(self.route_counts.items()):
            r = self.ROUTES.get(c, c)
            ep[r] = ep.get(r, 0) + n
        ctx['ev']['entry_points'] = ep
        ctx['ev']['entry_points_not_called'] = self.NOT_CALLED
        return []

    def compare(self, a, b):
        if b.startswith('OK k:'):
            if not a.startswith('OK d:'):
                return False
            try:
                k, n = b[5:].split(':')
                return close_to_pow10(a[5:], int(k), ulp_tolerance(int(n)))
            except ValueError:
                return False
        if b.startswith('OK x:'):
            if not a.startswith('OK d:'):
                return False
            vb, k = b[5:].split(':')
            return scaled_double_ok(a[5:], vb, int(k))
        if b.startswith('OK y:'):
            if not a.startswith('OK i:'):
                return False
            n, k = b[5:].split(':')
            try:
                return scaled_int_ok(int(a[5:]), int(n), int(k))
            except ValueError:
                return False
        return Prop.compare(self, a, b)

    def describe(self, case, impl, spec):
        t = case.lines[0].split(' ')
        args = [dec(x).decode('utf-8', 'replace') if x.startswith('s:') else x for x in t[1:]]
        return '%s %r: implementation answers %r where the specification requires %r' % (t[0], args, impl, spec)

    def signature(self, case, impl, spec):
        t = case.lines[0].split(' ')
        cmd = t[0]
        args = [dec(x).decode('utf-8', 'replace') if x.startswith('s:') else x for x in t[1:]]
        if cmd in self.ROUTE_CMDS:
            return {'kind': 'route', 'route': cmd, 'base': args[0] if args else ''}
        kind = 'parse' if cmd.startswith('split') or cmd.startswith('issi') else 'scaling'
        base = None
        if cmd in ('split3', 'issi3', 'scaling6', 'scalable6'):
            base = args[1]
        else:
            # raw strings: the longest base unit of the table that the first argument contains after an optional prefix
            try:
                prefixes, units = read_tables(self.repo)
            except Exception:
                prefixes, units = [], []
            s = args[0].split('^')[0] if args else ''
            cands = [u for u in units if s == u or any(s == p + u for p in prefixes)]
            base = max(cands, key=len) if cands else s
        return {'kind': kind, 'base': base}

    # ---- generator ----------------------------------------------------------------------------------------------
    POWER_SUFFIXES = ['', '^1', '^2', '^3', '^-1', '^-2', '^-3']
    EXT_POWERS = ['^+1', '^+3', '^4', '^10', '^-12', '^100', '^2147483647', '^2147483648', '^-2147483648', '^-2147483649',
                  '^99999999999999999999', '^-99999999999999999999', '^20', '^-7', '^+2147483648', '^6', '^-6']
    MALFORMED = ['', ' ', 'spikes', 'mV/s', 'mV*s', 'mV^2*Hz^-1', 'V/', '/V', 'V**s', 'mV / s', '^2', '^', 'mm^0', 'mm^-0', 'mm^+2', 'mm^+0',
                 'mm^02', 'mm^2x', 'mm^2 ', ' mm^2', 'mm ^2', 'm m', 'mmm', 'mmx', 'xmm', 'mm^', 'mm^-', 'mm^+', 'mm^^2', 'mm^2^2', 'mm^1.5',
                 'µV', 'muV', 'uV', 'µ', 'mu', 'mmu', 'mumu', 'm\tV', '\tmV', 'mV\n', 'Ohm', 'kOhm', 'ohm', 'OHM', '%', 'm%', 'dB', 'ddB',
                 'da', 'dam', 'dad', 'd', 'T', 'TT', 'mT', 'Tm', 'cd', 'ccd', 'mol', 'mmol', 'Mol', 'molm', 'mo', 'kat', 'kkat', 'Kat',
                 'min', 'h', 'hh', 'sec', 's', 'ms', 'degC', '°C', 'K', 'mK', 'Gy', 'GGy', 'Sv', 'mSv', 'Wb', 'mWb', 'lm', 'lx', 'mlm', 'l', 'L',
                 'ml', 'rad', 'mrad', 'radm', 'Pa', 'PPa', 'hPa', 'Hz', 'kHz', 'hHz', 'HHz', 'Bq', 'N', 'J', 'W', 'C', 'V', 'F', 'S', 'H', 'A', 'g', 'kg',
                 'mV^2*', '*mV', 'mV*', 'mV//s', 'mV/s/s', 'mV^2/s^-1*kg', 'mol^2/s', 's/mol^2', 'Sv^2*Wb^2', 'm*', 'V*A', 'N*m', 'J/K*mol',
                 'mV\x00', '\x00', 'm\x00V', 'Vm^2147483648', 'km^-2147483649', 'Ym^400', 'ym^400', 'Ym^-400', 'mm^9999999999',
                 'M', 'k', 'u', 'n', 'p', 'f', 'a', 'z', 'y', 'Y', 'Z', 'E', 'P', 'G', 'c', 'ma', 'am', 'yy', 'yg', 'zs', 'EV', 'PV', 'Pg', 'Eg']

    # public entry points of include/nix/util/util.hpp exercised by the driver: command -> route
    ROUTES = {
        'split': 'util::splitUnit', 'split3': 'util::splitUnit',
        'issi': 'util::isSIUnit + isAtomicSIUnit + isCompoundSIUnit', 'issi3': 'util::isSIUnit + isAtomicSIUnit + isCompoundSIUnit',
        'scalable': 'util::isScalable(string, string)', 'scalable6': 'util::isScalable(string, string)',
        'scaling': 'util::getSIScaling', 'scaling6': 'util::getSIScaling',
        'sanitize': 'util::unitSanitizer', 'deblank': 'util::deblankString(const string&)',
        'deblank_inplace': 'util::deblankString(string&)',
        'vscalable': 'util::isScalable(vector<string>, vector<string>)', 'setsame': 'util::isSetAtSamePos',
        'splitc': 'util::splitCompoundUnit (+ invertPower)',
        'tosec_d': 'util::convertToSeconds<double>', 'tosec_i': 'util::convertToSeconds<int>',
        'tokel_d': 'util::convertToKelvin<double>', 'tokel_i': 'util::convertToKelvin<int>',
        'namecheck': 'util::nameCheck', 'namesan': 'util::nameSanitizer', 'chkname': 'util::checkEntityName',
        'chktype': 'util::checkEntityType', 'chkempty': 'util::checkEmptyString', 'chknt': 'util::checkEntityNameAndType',
        'timert': 'util::timeToStr + strToTime (round trip)', 'numrt': 'util::numToStr + strToNum<long long> (round trip)',
        'strnum': 'util::strToNum<int>', 'deref': 'util::deRef(optional<int>) + deRef(int)',
    }
    ROUTE_CMDS = ('vscalable', 'setsame', 'splitc', 'tosec_d', 'tosec_i', 'tokel_d', 'tokel_i', 'deblank_inplace', 'namecheck',
                  'namesan', 'chkname', 'chktype', 'chkempty', 'chknt', 'timert', 'numrt', 'strnum', 'deref')
    NOT_CALLED = {
        'util::getDimensionUnit (dataAccess.hpp)': 'needs entities; belongs to the retrieval drivers (C05)',
        'util::convertToSeconds/convertToKelvin<float>, <long long> ...': 'only T = double and T = int are instantiated (binary32 arithmetic is not modelled here)',
        'util::dimTypeToStr': 'dimension descriptors (C13)',
        'util::toId / toName / checkEntityInput / checkNameOrId(not declared)': 'need entities (C03 / C12)',
        'util::createId, getTime': 'non-deterministic (C12 examines the id generator)',
        'util::numToStr / strToNum for floating types': 'stream formatting with 6 significant digits is not a round trip; not a unit function',
        'util::applyPolynomial': 'array data path (C01 calibrated reads)',
    }
    route_counts = {}

    def generate(self, seed, tier, scale=1):
        rnd = random.Random(seed)
        prefixes, units = read_tables(self.repo)
        allp = [''] + prefixes
        pw = self.POWER_SUFFIXES
        cases = []
        quick = (tier == 'quick' and scale == 1)

        counts = {}

        def c(tag, cmd, *args):
            counts[cmd] = counts.get(cmd, 0) + 1
            cases.append(Case('%s %s' % (cmd, ' '.join(enc(a) for a in args)), tag))

        def line(cmd, *toks):
            counts[cmd] = counts.get(cmd, 0) + 1
            return '%s %s' % (cmd, ' '.join(toks))

        def lst(xs):
            return ' '.join([str(len(xs))] + [enc(x) for x in xs])

        def dbits(x):
            return 'd:%016x' % struct.unpack('>Q', struct.pack('>d', x))[0]

        # 1. the whole grammar of the property's quantifier: 21 x 31 x 7 strings
        for p in allp:
            for u in units:
                for w in pw:
                    c('split3', 'split3', p, u, w)
                    c('issi3', 'issi3', p, u, w)
        # 2. every ordered pair of prefixes for every base x power: scaling (all), scalability (quick: sample)
        #    (quick: all 441 prefix pairs for a third of the base x power combinations, chosen so that every base unit
        #    and every power is covered, and a 10 % sample of the pairs of the other combinations; thorough: everything)
        for i, u in enumerate(units):
            for j, w in enumerate(pw):
                full = (not quick) or (i + j) % 3 == 0
                for pa in allp:
                    for pb in allp:
                        if full or rnd.random() < 0.10:
                            c('scaling6-same', 'scaling6', pa, u, w, pb, u, w)
                        if not quick or rnd.random() < 0.06:
                            c('scalable6-same', 'scalable6', pa, u, w, pb, u, w)
        # 3. pairs with different base and / or power
        n_other = (6000 if quick else 50000) * (1 if scale == 1 else 2)
        for _ in range(n_other):
            pa, pb = rnd.choice(allp), rnd.choice(allp)
            ua = rnd.choice(units)
            wa = rnd.choice(pw)
            how = rnd.randrange(3)
            ub = ua if how == 1 else rnd.choice(units)
            wb = wa if how == 0 else rnd.choice(pw)
            c('scaling6-other', 'scaling6', pa, ua, wa, pb, ub, wb)
            c('scalable6-other', 'scalable6', pa, ua, wa, pb, ub, wb)
        # 4. powers outside -3..3: signs, several digits, the limits of int
        for w in self.EXT_POWERS:
            for _ in range(12 if quick else 60):
                pa, pb, u = rnd.choice(allp), rnd.choice(allp), rnd.choice(units)
                c('ext-power', 'split3', pa, u, w)
                c('ext-power', 'issi3', pa, u, w)
                c('ext-power', 'scaling6', pa, u, w, pb, u, w)
                c('ext-power', 'scaling6', pa, u, w, pb, u, rnd.choice(self.EXT_POWERS + pw))
                c('ext-power', 'scalable6', pa, u, w, pb, u, rnd.choice([w, w, rnd.choice(self.EXT_POWERS)]))
        # 5. raw strings: the fixed malformed list, alone and in pairs
        mal = list(self.MALFORMED)
        for s in mal:
            c('malformed', 'split', s)
            c('malformed', 'issi', s)
            c('malformed', 'sanitize', s)
            c('malformed', 'deblank', s)
            c('malformed', 'scaling', s, s)
            c('malformed', 'scalable', s, s)
        valid = [p + u + w for p in allp for u in units for w in pw]
        for _ in range(1500 if quick else 12000):
            a = rnd.choice(mal)
            b = rnd.choice(mal) if rnd.random() < 0.5 else rnd.choice(valid)
            if rnd.random() < 0.5:
                a, b = b, a
            c('malformed-pair', 'scaling', a, b)
            c('malformed-pair', 'scalable', a, b)
        # 6. single-character mutations of valid units (delete / insert / replace / swap) and raw valid pairs
        alphabet = sorted(set(''.join(prefixes + units))) + list('^+-0123456789 */\t.xµ')
        for _ in range((4000 if quick else 40000) * (1 if scale == 1 else 3)):
            s = rnd.choice(valid)
            k = rnd.randrange(4)
            i = rnd.randrange(len(s) + 1)
            if k == 0 and s:
                j = min(i, len(s) - 1)
                m = s[:j] + s[j + 1:]
            elif k == 1:
                m = s[:i] + rnd.choice(alphabet) + s[i:]
            elif k == 2 and s:
                j = min(i, len(s) - 1)
                m = s[:j] + rnd.choice(alphabet) + s[j + 1:]
            else:
                j = min(i, max(len(s) - 2, 0))
                m = s[:j] + s[j + 1:j + 2] + s[j:j + 1] + s[j + 2:]
            c('mutated', 'split', m)
            c('mutated', 'issi', m)
            o = rnd.choice([s, rnd.choice(valid), m])
            c('mutated', 'scaling', m, o)
            c('mutated', 'scalable', o, m)
        for _ in range(1500 if quick else 15000):
            a = rnd.choice(valid)
            b = rnd.choice(valid)
            c('raw-valid', 'scaling', a, b)
            c('raw-valid', 'scalable', a, b)
        # 7. compound units
        for _ in range(1500 if quick else 10000):
            n = rnd.randrange(2, 5)
            parts = [rnd.choice(valid) if rnd.random() < 0.9 else rnd.choice(mal) for _ in range(n)]
            s = parts[0]
            for q in parts[1:]:
                s += rnd.choice(['*', '/', '*', '/', ' * ', '']) + q
            c('compound', 'issi', s)
            c('compound', 'split', s)
            t = s if rnd.random() < 0.5 else rnd.choice(valid)
            c('compound', 'scalable', s, t)
            c('compound', 'scaling', s, t)
        # 8. sanitizer: strings over a small alphabet rich in "mu", the micro sign and blanks
        sa = ['m', 'u', 'µ', ' ', '\t', 'V', 'm', 'u', '\xc2', 's', '^', '2']
        for _ in range(1500 if quick else 10000):
            s = ''.join(rnd.choice(sa) for _ in range(rnd.randrange(0, 9)))
            b = s.encode('utf-8', 'replace') if rnd.random() < 0.8 else s.encode('latin-1', 'replace')
            c('sanitize', 'sanitize', b)
            c('sanitize', 'deblank', b)
        # ---- further public routes of util.hpp (notes/route-audit.md, section C18) --------------------------------------
        nr = 1 if quick else 8
        exps = read_factor_exponents(self.repo)
        # 9. isScalable(vector, vector) and isSetAtSamePos
        for _ in range(1200 * nr):
            n = rnd.randrange(0, 5)
            a = [rnd.choice(valid) if rnd.random() < 0.9 else rnd.choice(mal) for _ in range(n)]
            b = []
            for s in a:
                k = rnd.random()
                if k < 0.7 and s in valid:
                    # same base and power, another prefix: rebuild from the parts
                    i = valid.index(s)
                    w = pw[i % len(pw)]
                    u = units[(i // len(pw)) % len(units)]
                    b.append(rnd.choice(allp) + u + w)
                elif k < 0.85:
                    b.append(s)
                else:
                    b.append(rnd.choice(valid + mal))
            k = rnd.random()
            if k < 0.1 and b:
                b.pop(rnd.randrange(len(b)))
            elif k < 0.2:
                b.insert(rnd.randrange(len(b) + 1), rnd.choice(valid))
            cases.append(Case(line('vscalable', lst(a), lst(b)), 'route-vector'))
            cases.append(Case(line('vscalable', lst(b), lst(a)), 'route-vector'))
            e1 = [rnd.choice(['', '', 'mV', ' ', 'x']) for _ in range(rnd.randrange(0, 5))]
            e2 = [rnd.choice(['', 's', 'spikes']) if rnd.random() < 0.3 else ('' if x == '' else 'q') for x in e1]
            if rnd.random() < 0.15 and e2:
                e2.pop()
            cases.append(Case(line('setsame', lst(e1), lst(e2)), 'route-vector'))
            cases.append(Case(line('setsame', lst(e2), lst(e1)), 'route-vector'))
        # 10. splitCompoundUnit: atoms, real compound units (every separator pattern), blanks, malformed
        for s in valid if not quick else rnd.sample(valid, 600):
            c('route-compound', 'splitc', s)
        for s in mal:
            c('route-compound', 'splitc', s)
        for _ in range(2500 * nr):
            n = rnd.randrange(2, 5)
            parts = [rnd.choice(valid) if rnd.random() < 0.93 else rnd.choice(mal + ['m^+2', 'kg^-+2', 's^+1']) for _ in range(n)]
            s = parts[0]
            for q in parts[1:]:
                s += rnd.choice(['*', '/', '*', '/', '/', ' * ', ' / ', '/ ', '', '.', '  ']) + q
            if rnd.random() < 0.05:
                s += rnd.choice(['/', '*', ' ', ' /', '/ '])
            c('route-compound', 'splitc', s)
        # 11. convertToSeconds<T> / convertToKelvin<T>, T = double and int
        sec_units = ['min', 'h', 's', 'sec'] + [p + 's' for p in prefixes] + ['mmin', 'hh', 'S', 'Sec', 'ms^2', 'ms^1', 's^1', '', ' s', 'spikes', 'mV', 'K', 'Hz']
        kel_units = ['K', '\u00b0K', 'C', '\u00b0C', 'F', '\u00b0F'] + [p + 'K' for p in prefixes] + ['k', 'c', 'f', '\u00b0', 'degC', 'mK^2', 'K^1', '', ' K', 's', 'mV', 'cd']
        dvals = [0.0, -0.0, 1.0, -1.0, 1.5, 0.1, 60.0, 3600.0, 37.0, 98.6, -40.0, 451.0, 273.15, -273.15, 1e-300, 1e300, 1.7976931348623157e308,
                 5e-324, float('inf'), float('-inf'), float('nan'), 123456789.125, 2.5, 0.5, 1e16 + 2]
        for units_, cmd_d, cmd_i, base in ((sec_units, 'tosec_d', 'tosec_i', 's'), (kel_units, 'tokel_d', 'tokel_i', 'K')):
            for u in units_:
                vs = dvals + [rnd.uniform(-1e6, 1e6) for _ in range(4 * nr)] + [rnd.uniform(-1, 1) * 10.0 ** rnd.randrange(-20, 20) for _ in range(4 * nr)]
                for v in vs:
                    cases.append(Case(line(cmd_d, enc(u), dbits(v)), 'route-convert'))
                # ints: keep every intermediate and the result inside int (overflow / out-of-range casts are undefined behaviour)
                k = exps.get(u[:-1]) if (len(u) > 1 and u.endswith(base) and u[:-1] in exps) else None
                lim = 30000000 if u == 'min' else 500000 if u == 'h' else 2000000000
                if k is not None and k > 0:
                    lim = max(0, 2000000000 // 10 ** k)
                ivals = [0, 1, -1, 2, 5, 7, -13, 33, 59, 60, 100, 451, 1000, -1000, 1499, 1500, 1501, 2500, 4999, 5000, 5001] + \
                        [rnd.randint(-100000, 100000) for _ in range(6 * nr)] + [lim, -lim]
                for n in ivals:
                    if abs(n) <= lim:
                        cases.append(Case(line(cmd_i, enc(u), str(n)), 'route-convert'))
        # 12. in-place deblank, name helpers, round trips
        for s in mal + [rnd.choice(valid) for _ in range(100)]:
            c('route-helpers', 'deblank_inplace', s)
        names = ['', 'a', 'a/b', '/', '//', 'a/', '/a', 'a b', 'a//b/c', 'x' * 40, 'n\u00e4me', 'a\\b', '_', 'a_b', ' ']
        for s in names:
            for cmd in ('namecheck', 'namesan', 'chkname', 'chktype', 'chkempty'):
                c('route-helpers', cmd, s)
            for s2 in names[:6]:
                c('route-helpers', 'chknt', s, s2)
        for n in [0, 1, 59, 60, 86399, 86400, 951782400, 1234567890, 1709164800, 1709251199, 2147483647, 2147483648, 4102444799, -1, -86400,
                  -2208988800] + [rnd.randrange(-2208988800, 4102444800) for _ in range(200 * nr)]:
            cases.append(Case(line('timert', str(n)), 'route-helpers'))
        for n in [0, 1, -1, 2 ** 31 - 1, -2 ** 31, 2 ** 63 - 1, -2 ** 63] + [rnd.randrange(-2 ** 63, 2 ** 63) for _ in range(100 * nr)]:
            cases.append(Case(line('numrt', str(n)), 'route-helpers'))
        for s in ['0', '12', '-7', ' 42', '\t-3', 'x', '', '2147483647', '2147483648', '-2147483648', '-2147483649', '+', '-', '+5', '12abc', '0x10',
                  '1e3', '1.9', '007', '99999999999999999999', ' ', '--1', '+-1'] + [str(rnd.randrange(-2 ** 33, 2 ** 33)) for _ in range(60 * nr)]:
            c('route-helpers', 'strnum', s)
        for v in ['none', '0', '5', '-3', '2147483647', '-2147483648']:
            cases.append(Case(line('deref', v), 'route-helpers'))
        # 13. both directions and a repetition inside ONE process, on pairs whose concatenations collide when written without a
        #     separator ("m" + "mm" = "mm" + "m", "T" + "TT" = "TT" + "T"): an answer remembered under such a key would show here
        twins = [u for u in units if u in prefixes]
        for u in twins:
            for w in pw:
                a, b = u + w, u + u + w
                cases.append(Case([line('scaling', enc(a), enc(b)), line('scaling', enc(b), enc(a)), line('scaling', enc(a), enc(b)),
                                   line('scalable', enc(a), enc(b)), line('scalable', enc(b), enc(a)),
                                   line('vscalable', lst([a, b]), lst([b, a])), line('vscalable', lst([b, a]), lst([a, b])),
                                   line('scaling', enc(b), enc(a))], 'both-directions'))
        for _ in range(300 * nr):
            u, w = rnd.choice(units), rnd.choice(pw)
            pa, pb, pc = rnd.choice(allp), rnd.choice(allp), rnd.choice(allp)
            a, b, d = pa + u + w, pb + u + w, pc + u + w
            cases.append(Case([line('scaling', enc(a), enc(b)), line('scaling', enc(b), enc(a)), line('scaling', enc(b), enc(d)),
                               line('scaling', enc(a), enc(d)), line('scaling', enc(a), enc(b))], 'both-directions'))
        for p1, p2 in [('m', 'k'), ('k', 'm'), ('u', 'M'), ('', 'm'), ('da', 'd'), ('d', 'da')]:
            cases.append(Case([line('tosec_d', enc(p1 + 's'), dbits(2.5)), line('tosec_d', enc(p2 + 's'), dbits(2.5)),
                               line('tosec_d', enc(p1 + 's'), dbits(2.5)), line('tokel_d', enc(p1 + 'K'), dbits(2.5)),
                               line('tokel_d', enc(p2 + 'K'), dbits(2.5)), line('tokel_d', enc(p1 + 'K'), dbits(2.5))], 'both-directions'))
        if scale == 1:
            self.route_counts = counts
        return cases


PROP = C18()
