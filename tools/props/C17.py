"""C17 — position-based slices (util::dataSlice) and DataView windows; second half of C18: retrieval is
invariant under exact rescaling of the request.  Model: coq/Access/Slice.v, View.v (code path, with one switch
per defect); specification: coq/Access/SliceSpec.v (brute-force region evaluator, integer window arithmetic)."""
import random, struct
from engine import Prop, Case

U64 = 1 << 64


def bits(d):
    return struct.unpack('>Q', struct.pack('>d', d))[0]


def frombits(b):
    return struct.unpack('>d', struct.pack('>Q', b & 0xffffffffffffffff))[0]


def enc(d):
    if d != d:
        return 'd:7ff8000000000000'
    return 'd:%016x' % bits(d)


def ulp_next(d, k=1):
    if d != d or d in (float('inf'), float('-inf')):
        return d
    b = bits(d)
    m = -(b & 0x7fffffffffffffff) if b >> 63 else b
    m += k
    return frombits(((-m) | (1 << 63)) if m < 0 else m)


def u(n):
    """u64 token"""
    n %= U64
    return str(n) if n < (1 << 62) else hex(n)


# prefix factors exactly as the literals of src/util/util.cpp (the generated Coq table holds the same doubles)
PF = {'': 1.0, 'm': 1e-3, 'u': 1e-6, 'k': 1e3, 'M': 1e6, 'n': 1e-9, 'c': 1e-2}
UNITS = {  # token -> (prefix, base)
    's': ('', 's'), 'ms': ('m', 's'), 'us': ('u', 's'), 'ks': ('k', 's'),
    'Hz': ('', 'Hz'), 'kHz': ('k', 'Hz'), 'MHz': ('M', 'Hz'),
    'V': ('', 'V'), 'mV': ('m', 'V'), 'uV': ('u', 'V'),
}
FAMILY = {'s': ['s', 'ms', 'us', 'ks'], 'Hz': ['Hz', 'kHz', 'MHz'], 'V': ['V', 'mV', 'uV']}


def si_scaling(org, dst):
    """util::getSIScaling for atomic units of power 1 (statement for statement)"""
    po, bo = UNITS[org]
    pd, bd = UNITS[dst]
    assert bo == bd
    if po == pd:
        return 1.0
    if pd == '' and po != '':
        return PF[po]
    if po == '' and pd != '':
        return 1.0 / PF[pd]
    return PF[po] / PF[pd]


class Dim:
    """a dimension descriptor and its coordinates"""

    def __init__(self, kind, **kw):
        self.kind = kind
        self.__dict__.update(kw)

    def token(self):
        if self.kind == 'S':
            return 'S %s %s %s' % (enc(self.dt), enc(self.off) if self.off is not None else '-', self.unit or '-')
        if self.kind == 'R':
            return 'R %s %s' % (self.unit or '-', ' '.join(enc(t) for t in self.ticks))
        if self.kind == 'L':
            return 'L %d' % self.n
        return 'F %d' % self.n

    def naxis(self):
        """number of coordinates (None = not bounded by the descriptor)"""
        if self.kind == 'S':
            return None
        if self.kind == 'R':
            return len(self.ticks)
        return self.n if self.n > 0 else None

    def x(self, i):
        if self.kind == 'S':
            return i * self.dt + (self.off or 0.0)     # binary64, round to nearest: exactly positionAt()
        if self.kind == 'R':
            return self.ticks[i]
        return float(i)

    def has_unit(self):
        return self.kind in ('S', 'R') and self.unit is not None


def make_dim(rnd, n, wellformed=True):
    """a descriptor for a data dimension of n elements"""
    kind = rnd.choice(['S', 'S', 'R', 'R', 'L', 'F'])
    if kind == 'S':
        dt = rnd.choice([1.0, 0.5, 0.25, 0.1, 1.0 / 3.0, 0.7, 2.5, 1e-3])
        off = rnd.choice([None, None, 0.0, 0.3, -2.5, 10.0])
        unit = rnd.choice([None, 's', 'ms', 'kHz', 'mV', 'Hz'])
        return Dim('S', dt=dt, off=off, unit=unit)
    if kind == 'R':
        extra = rnd.choice([0, 0, 1, 3]) if wellformed else rnd.choice([-1, 0, 2])
        k = max(1, n + extra)
        t = [rnd.choice([0.0, -1.5, 2.0, 0.1])]
        while len(t) < k:
            step = rnd.choice(['ulp', 'small', 'unit', 'big'])
            last = t[-1]
            t.append(ulp_next(last, 1) if step == 'ulp' else last + rnd.choice([0.1, 0.25, 1e-3]) if step == 'small'
                     else last + 1.0 if step == 'unit' else last + rnd.choice([7.5, 100.0]))
        unit = rnd.choice([None, 's', 'ms', 'mV', 'kHz'])
        return Dim('R', ticks=t, unit=unit)
    if kind == 'L':
        return Dim('L', n=rnd.choice([0, 0, n, n, n + 2]) if wellformed else max(0, n - 1))
    return Dim('F', n=rnd.choice([0, n, n, n + 3]) if wellformed else max(0, n - 1))


def positions_for(rnd, d, n, quality):
    """a (start, end) pair in the dimension's own unit, aimed at the case splits"""
    na = d.naxis()
    hi = n + 2 if na is None else min(na, n + 2)          # indices with a coordinate that we use
    idx = list(range(0, max(1, hi)))

    def near(i):
        x = d.x(i)
        nxt = d.x(i + 1) if (na is None or i + 1 < na) else x + 1.0
        prv = d.x(i - 1) if i > 0 else x - 1.0
        return rnd.choice([x, x, x, ulp_next(x, 1), ulp_next(x, -1), (x + nxt) / 2, (x + prv) / 2])

    if quality == 'inside':
        a, b = sorted([rnd.choice(idx[:n] or [0]), rnd.choice(idx[:n] or [0])])
        return near(a), near(b)
    if quality == 'point':
        a = rnd.choice(idx)
        p = near(a)
        return p, p
    if quality == 'nearpoint':
        a = rnd.choice(idx)
        p = near(a)
        return p, rnd.choice([ulp_next(p, 1), p + 1e-17 * abs(p), p])
    if quality == 'reversed':
        a, b = sorted([rnd.choice(idx), rnd.choice(idx)])
        s, e = near(b), near(a)
        return (s, e) if s > e else (d.x(b) + 0.5, d.x(a) - 0.5)
    if quality == 'beyond':
        a = rnd.choice(idx[:n] or [0])
        far = d.x(hi - 1) + rnd.choice([0.0, 0.5, 100.0]) if hi >= 1 else 5.0
        return near(a), far
    if quality == 'below':
        return d.x(0) - rnd.choice([0.5, 3.0]), rnd.choice([d.x(0) - 0.25, near(rnd.choice(idx[:n] or [0]))])
    if quality == 'outside':
        base = d.x(hi - 1)
        return base + 10.0, base + 20.0
    raise ValueError(quality)


def rescale(rnd, d, s, e):
    """another unit and positions that scale back to (s, e) EXACTLY in binary64; None if there is none"""
    if not d.has_unit():
        return None
    base = UNITS[d.unit][1]
    others = [x for x in FAMILY[base] if x != d.unit]
    rnd.shuffle(others)
    for uo in others:
        f = si_scaling(uo, d.unit)
        s2, e2 = s / f, e / f
        if s2 * f == s and e2 * f == e and (s2 > e2) == (s > e) and (s2 == e2) == (s == e):
            return uo, s2, e2
    return None


def arr_line(shape, dims):
    return 'arr %s ; %s' % (' '.join(str(n) for n in shape), ' ; '.join(d.token() for d in dims))


def slice_line(starts, ends, units, mode):
    return 'slice %s ; %s ; %s ; %s' % (' '.join(enc(x) for x in starts), ' '.join(enc(x) for x in ends), ' '.join(units), mode)


QUALITIES = ['inside'] * 6 + ['point', 'point', 'nearpoint', 'reversed', 'beyond', 'below', 'outside']
MODES = ['incl', 'excl', 'excl', 'default']


def gen_slices(rnd, n_arrays, per_array, n_unspec, out):
    unspec_budget = n_unspec
    for _ in range(n_arrays):
        rank = rnd.choice([1, 1, 2, 2, 3])
        shape = [rnd.choice([1, 2, 3, 4, 5, 6]) for _ in range(rank)]
        dims = [make_dim(rnd, n) for n in shape]
        hdr = arr_line(shape, dims)
        full = []
        for _ in range(per_array):
            qs = [rnd.choice(QUALITIES) for _ in range(rank)]
            if rnd.random() < 0.5:
                qs = ['inside'] * rank
                if rnd.random() < 0.4:
                    qs[rnd.randrange(rank)] = rnd.choice(QUALITIES)
            pe = [positions_for(rnd, d, n, q) for d, n, q in zip(dims, shape, qs)]
            starts, ends = [p[0] for p in pe], [p[1] for p in pe]
            mode = rnd.choice(MODES)
            ukind = rnd.choice(['absent', 'absent', 'none', 'own', 'own', 'partial', 'foreign'])
            if ukind == 'absent':
                units = []
            elif ukind == 'none':
                units = ['none'] * rank
            elif ukind == 'own':
                units = [(d.unit if d.has_unit() else 'none') for d in dims]
            elif ukind == 'partial':
                units = [(d.unit if d.has_unit() else 'none') for d in dims][:rnd.randrange(0, rank + 1)]
            else:
                units = [rnd.choice(['none', 's', 'ms', 'mV', 'kHz']) for _ in dims]
            full.append((slice_line(starts, ends, units, mode), 'slice-' + ('units' if units else 'plain')))
            # C18, second half: the same request in another unit, scaled exactly, must give the same elements
            if ukind in ('own', 'absent') and rnd.random() < 0.7:
                su, eu, uu = list(starts), list(ends), [(d.unit if d.has_unit() else 'none') for d in dims]
                changed = False
                for i, d in enumerate(dims):
                    r = rescale(rnd, d, starts[i], ends[i])
                    if r and rnd.random() < 0.8:
                        uu[i], su[i], eu[i] = r
                        changed = True
                if changed:
                    own = [(d.unit if d.has_unit() else 'none') for d in dims]
                    out.append(Case([hdr, slice_line(starts, ends, own, mode), slice_line(su, eu, uu, mode)], 'slice-rescale'))
        # group the full-rank requests: they cannot run off the argument vectors
        for i in range(0, len(full), 6):
            chunk = full[i:i + 6]
            out.append(Case([hdr] + [l for l, _ in chunk], chunk[0][1]))
        # fewer entries than dimensions: ONE request per case (on the pinned tree each of them aborts the driver)
        if unspec_budget > 0:
            for k in range(0, rank):
                if unspec_budget <= 0:
                    break
                pe = [positions_for(rnd, d, n, 'inside') for d, n in zip(dims[:k], shape[:k])]
                for mode in (['incl', 'excl'] if rnd.random() < 0.5 else [rnd.choice(MODES)]):
                    units = rnd.choice([[], [(d.unit if d.has_unit() else 'none') for d in dims[:k]]])
                    out.append(Case([hdr, slice_line([p[0] for p in pe], [p[1] for p in pe], units, mode)], 'slice-unspecified'))
                    unspec_budget -= 1


def gen_malformed(rnd, n, out):
    for _ in range(n):
        rank = rnd.choice([1, 2, 3])
        shape = [rnd.choice([1, 2, 3, 4]) for _ in range(rank)]
        dims = [make_dim(rnd, m, wellformed=rnd.random() < 0.5) for m in shape]
        hdr = arr_line(shape, dims)
        lines = []
        for _ in range(4):
            what = rnd.choice(['toolong', 'toomanyunits', 'nan', 'inf', 'foreignunit', 'short-descriptor'])
            pe = [positions_for(rnd, d, m, 'inside') for d, m in zip(dims, shape)]
            starts, ends, units = [p[0] for p in pe], [p[1] for p in pe], []
            if what == 'toolong':
                starts, ends = starts + [0.0], ends + [1.0]
            elif what == 'toomanyunits':
                units = ['none'] * (rank + 1)
            elif what == 'nan':
                starts[rnd.randrange(rank)] = float('nan')
            elif what == 'inf':
                ends[rnd.randrange(rank)] = float('inf')
            elif what == 'foreignunit':
                units = [rnd.choice(['mV', 's', 'kHz', 'none']) for _ in dims]
            lines.append(slice_line(starts, ends, units, rnd.choice(MODES)))
        out.append(Case([hdr] + lines, 'slice-malformed'))


def view_ops(rnd, shape, origin, window, n_ops, wrapish):
    rank = len(shape)
    ops = []
    for _ in range(n_ops):
        kind = rnd.choice(['inside', 'inside', 'inside', 'touch', 'cross', 'cross', 'whole', 'nooffset', 'wrap', 'wrap', 'rank', 'zero', 'aread'])
        if kind == 'aread':
            ops.append('aread')
            continue
        cnt, off = [], []
        for w in window:
            if kind in ('inside', 'wrap', 'rank', 'zero', 'whole', 'nooffset'):
                o = rnd.randrange(0, w + 1)
                c = rnd.randrange(0 if w == o else 1, w - o + 1) if w - o >= 1 else 0
            elif kind == 'touch':
                c = rnd.randrange(1, w + 1) if w >= 1 else 0
                o = w - c
            else:  # cross
                o = rnd.randrange(0, w + 2)
                c = max(0, w - o) + rnd.choice([1, 1, 2, 5])
            cnt.append(c)
            off.append(o)
        if kind == 'cross' and rank > 1:
            # only one dimension crosses, the others stay inside
            keep = rnd.randrange(rank)
            for j in range(rank):
                if j != keep:
                    off[j] = rnd.randrange(0, window[j] + 1)
                    cnt[j] = rnd.randrange(0, window[j] - off[j] + 1)
        if kind == 'wrap':
            j = rnd.randrange(rank)
            back = rnd.choice([1, 1, 2, 3, origin[j] if origin[j] else 1])
            off[j] = U64 - back                      # offset near 2^64: offset + count wraps to a small number
            cnt[j] = back + rnd.randrange(0, window[j] + 1)
        if kind == 'zero':
            cnt[rnd.randrange(rank)] = 0
        ct = ' '.join(u(c) for c in cnt)
        ot = ' '.join(u(o) for o in off)
        if kind == 'whole':
            ct = ''
            ot = ' '.join('0' for _ in off) if rnd.random() < 0.5 else ''
        if kind == 'nooffset':
            ot = ''
        if kind == 'rank':
            if rnd.random() < 0.5:
                ct += ' 1'
            else:
                ot += ' 0'
        if rnd.random() < 0.45:
            ops.append('vwrite %s ; %s ; %d' % (ct, ot, rnd.choice([100, 1000, -50, 7000])))
            if rnd.random() < 0.6:
                ops.append('aread')
        else:
            ops.append('vread %s ; %s' % (ct, ot))
    ops.append('aread')
    # a count near 2^64 that slips through the wrapped window test makes HDF5 overrun the buffer (the driver
    # dies): such a request is the LAST line of its case
    if rnd.random() < 0.12 or wrapish:
        cnt, off = [], []
        for w in window:
            o = rnd.randrange(0, w + 1)
            off.append(o)
            cnt.append(rnd.randrange(0, w - o + 1))
        j = rnd.randrange(rank)
        cnt[j] = U64 - rnd.choice([1, 2, off[j] if off[j] else 1])
        if rnd.random() < 0.5:
            off[j] = rnd.choice([1, 2, 3])
        ops.append('%s %s ; %s%s' % (rnd.choice(['vread', 'vwrite']), ' '.join(u(c) for c in cnt), ' '.join(u(o) for o in off), ''))
        if ops[-1].startswith('vwrite'):
            ops[-1] += ' ; 100'
    return ops


def gen_views(rnd, n, out):
    for _ in range(n):
        rank = rnd.choice([1, 1, 2, 2, 3])
        shape = [rnd.choice([1, 2, 3, 5, 8, 20 if rank == 1 else 6]) for _ in range(rank)]
        dims = [Dim('L', n=0) for _ in shape]
        hdr = arr_line(shape, dims)
        ctor = rnd.choice(['good', 'good', 'good', 'good', 'edge', 'cross', 'wrap', 'rank', 'beyond'])
        origin = [rnd.randrange(0, n_ + 1) for n_ in shape]
        window = [rnd.randrange(0 if o == n_ else 1, n_ - o + 1) if n_ > o else 0 for o, n_ in zip(origin, shape)]
        if ctor == 'edge':
            window = [n_ - o for o, n_ in zip(origin, shape)]
        co, cw = list(origin), list(window)
        if ctor == 'cross':
            j = rnd.randrange(rank)
            cw[j] = shape[j] - origin[j] + rnd.choice([1, 2])
        elif ctor == 'beyond':
            j = rnd.randrange(rank)
            co[j] = shape[j] + rnd.choice([1, 3])
            cw[j] = rnd.choice([0, 1])
        elif ctor == 'wrap':
            j = rnd.randrange(rank)
            if rnd.random() < 0.5:
                co[j] = rnd.choice([1, 2, 3])
                cw[j] = U64 - rnd.choice([1, 2, co[j]])
            else:
                co[j] = U64 - rnd.choice([1, 2])
                cw[j] = rnd.choice([1, 2, 3])
        elif ctor == 'rank':
            if rnd.random() < 0.5:
                co = co + [0]
            else:
                cw = cw[:-1]
        lines = [hdr, 'view %s ; %s' % (' '.join(u(c) for c in cw), ' '.join(u(o) for o in co)), 'vextent']
        if ctor == 'wrap':
            # the window must be refused; what a wrongly constructed view does afterwards is not judged, one probe only
            lines.append('vread %s ; %s' % (' '.join('1' for _ in shape), ' '.join('0' for _ in shape)))
        else:
            lines += view_ops(rnd, shape, origin, window, rnd.randrange(4, 10), False)
        out.append(Case(lines, 'view-' + ('good' if ctor in ('good', 'edge') else 'badwindow')))


def gen_indata(rnd, n, out):
    for _ in range(n):
        rank = rnd.choice([1, 2, 3])
        shape = [rnd.choice([1, 2, 5, 9]) for _ in range(rank)]
        hdr = arr_line(shape, [Dim('L', n=0) for _ in shape])
        lines = [hdr]
        for _ in range(8):
            pos = [rnd.randrange(0, s + 2) for s in shape]
            cnt = [rnd.choice([1, 1, 2, max(1, s - p), max(1, s - p + 1)]) for s, p in zip(shape, pos)]
            r = rnd.random()
            j = rnd.randrange(rank)
            if r < 0.2:
                pos[j] = U64 - rnd.choice([1, 2])
                cnt[j] = rnd.choice([2, 3])
            elif r < 0.3:
                cnt[j] = U64 - rnd.choice([0, 1, pos[j]]) if pos[j] else U64 - 1
            elif r < 0.35:
                cnt[j] = 0
            lines.append('indata %s ; %s' % (' '.join(u(p) for p in pos), ' '.join(u(c) for c in cnt)))
        out.append(Case(lines, 'indata'))


def gen_values(rnd, n, out):
    """the template entry points DataSet::getData(value, offset) / setData(value, offset) through a view, and on the
    array itself as a control: scalar and short-vector values x offsets {empty, zeros, in-window, out-of-window} x windows
    of 1 and more elements x ranks 1..3.  The calls that make the unrepaired templates run over the value (scalar with an
    empty - for setData also an all-zero - offset) abort the driver: each case ends with one of them."""
    for _ in range(n):
        rank = rnd.choice([1, 1, 2, 3])
        shape = [rnd.choice([2, 3, 5, 8, 20 if rank == 1 else 4]) for _ in range(rank)]
        hdr = arr_line(shape, [Dim('L', n=0) for _ in shape])
        origin = [rnd.randrange(0, n_) for n_ in shape]
        if rnd.random() < 0.3:
            window = [1] * rank                                # a window of one element
        else:
            window = [rnd.randrange(1, n_ - o + 1) for o, n_ in zip(origin, shape)]
        lines = [hdr, 'view %s ; %s' % (' '.join(map(str, window)), ' '.join(map(str, origin)))]

        def offset(kind):
            if kind == 'empty':
                return []
            if kind == 'zeros':
                return [0] * rank
            if kind == 'inside':
                return [rnd.randrange(0, w) for w in window]
            if kind == 'outside':
                o = [rnd.randrange(0, w) for w in window]
                j = rnd.randrange(rank)
                o[j] = window[j] + rnd.choice([0, 1, 3])
                return o
            return [0] * (rank + 1)                            # wrong rank

        one = all(w == 1 for w in window)

        def risky(op, kind, off):
            # the unrepaired templates transfer the whole window from / to one scalar
            return kind == 's' and not one and ((op == 'vget' and off == []) or (op == 'vset' and all(x == 0 for x in off)))

        def line(op, kind, off):
            o = ' '.join(u(x) for x in off)
            return '%s %s ; %s' % (op, kind, o) + (' ; %d' % rnd.choice([100, 500, -7]) if op in ('vset', 'aset') else '')

        for _ in range(rnd.randrange(4, 9)):
            op = rnd.choice(['vget', 'vget', 'vset', 'aget', 'aset'])
            kind = rnd.choice(['s', 's', 's', str(rnd.choice([1, 2, 3, max(1, window[-1])]))])
            off = offset(rnd.choice(['zeros', 'inside', 'inside', 'outside', 'empty', 'rank']))
            if risky(op, kind, off):
                continue
            lines.append(line(op, kind, off))
            if rnd.random() < 0.3:
                lines.append('aread')
        lines.append('aread')
        op = rnd.choice(['vget', 'vget', 'vset', 'vset'])
        lines.append(line(op, 's', offset('empty' if op == 'vget' else rnd.choice(['empty', 'zeros']))))
        out.append(Case(lines, 'view-value-probe'))


ROUTES = ['sc', 'c1', 'c2', 'vec', 'val', 'ma', 'nd']

# every public entry point the drivers call: case-language token -> what it is
ENTRY_POINTS = {
    'slice': 'util::dataSlice(array, start, end, units, RangeMatch) and the 4-argument form (mode defaulted)',
    'slice3': 'util::dataSlice(array, start, end) - units and mode defaulted',
    'indata': 'util::positionAndExtentInData(array, position, count)',
    'posin': 'util::positionInData(array, position)',
    'dimunit': 'util::getDimensionUnit(Dimension)',
    'p2i': 'util::positionToIndex(position, unit, PositionMatch, const Dimension &) - exported generic dispatcher',
    'p2iv': 'util::positionToIndex(starts, ends, units, RangeMatch, const Dimension &) - exported generic dispatcher, 1..3 entries',
    'view': 'DataView::DataView(array, count, offset)',
    'vextent': 'DataView::dataExtent()',
    'vsetextent': 'DataView::dataExtent(const NDSize &)',
    'vtype': 'DataView::dataType()',
    'vread': 'DataSet::getData(DataType, void *, count, offset) on a DataView (ioRead)',
    'vwrite': 'DataSet::setData(DataType, const void *, count, offset) on a DataView (ioWrite)',
    'vget': 'template DataSet::getData(T &, offset) on a DataView, scalar / std::vector',
    'vset': 'template DataSet::setData(const T &, offset) on a DataView, scalar / std::vector',
    'aget': 'template DataSet::getData(T &, offset) on the DataArray (control)',
    'aset': 'template DataSet::setData(const T &, offset) on the DataArray (control)',
    'aread': 'DataArray::getData(DataType, void *, count, offset) - whole array',
    'tgetall': 'template DataSet::getData(T &) on a DataView x {scalar, T[N], T[M][N], vector, valarray, multi_array, NDArray}',
    'tget3': 'template DataSet::getData(T &, count, offset) on a DataView x the 7 container kinds',
    'tgetat': 'template DataSet::getData(T &, offset) on a DataView x the 7 container kinds',
    'tsetall': 'template DataSet::setData(const T &) on a DataView x the 7 container kinds (reaches DataView::dataExtent(NDSize))',
    'tset': 'template DataSet::setData(const T &, offset) on a DataView x the 7 container kinds',
}


def gen_typed(rnd, n, out):
    """every template route of DataSet.hpp through a view, for every typed container kind.  The three-argument read with an
    EMPTY count into a value of rank 0 (scalar, NDArray) transfers the whole window on the unrepaired tree (the driver
    aborts): such a call is the last line of its case."""
    for _ in range(n):
        rank = rnd.choice([1, 1, 2, 3])
        shape = [rnd.choice([2, 3, 5, 6, 8]) for _ in range(rank)]
        hdr = arr_line(shape, [Dim('L', n=0) for _ in shape])
        origin = [rnd.randrange(0, n_) for n_ in shape]
        style = rnd.random()
        if style < 0.2:
            window = [1] * rank
        elif style < 0.45 and rank > 1:
            window = [1] * rank                                # one non-singleton dimension: what a vector can hold
            j = rnd.randrange(rank)
            window[j] = rnd.randrange(1, shape[j] - origin[j] + 1)
        else:
            window = [rnd.randrange(1, n_ - o + 1) for o, n_ in zip(origin, shape)]
        one = all(w == 1 for w in window)
        lines = [hdr, 'view %s ; %s' % (' '.join(map(str, window)), ' '.join(map(str, origin)))]

        def ext_for(route):
            if route == 'sc':
                return []
            if route == 'c1':
                return [rnd.choice([3, 5])]
            if route == 'c2':
                return [2, 3]
            if route in ('vec', 'val'):
                return [rnd.choice([0, 1, 2, 3, window[-1], max(window)])]
            if route == 'ma':
                r = rnd.choice([rank, rank, rank, rnd.choice([1, 2, 3])])
                return [rnd.choice([1, 2, window[i] if i < rank else 2]) for i in range(r)]
            r = rnd.choice([rank, rank, 0, rnd.choice([1, 2, 3])])
            return [rnd.choice([1, 2, window[i] if i < rank else 2]) for i in range(r)]

        def offset(kind):
            if kind == 'empty':
                return []
            if kind == 'zeros':
                return [0] * rank
            if kind == 'inside':
                return [rnd.randrange(0, w) for w in window]
            if kind == 'outside':
                o = [rnd.randrange(0, w) for w in window]
                j = rnd.randrange(rank)
                o[j] = window[j] + rnd.choice([0, 1, 3])
                return o
            return [0] * (rank + 1)

        def count_for(route, ext, off):
            k = rnd.random()
            if k < 0.12:
                return []
            if k < 0.3 and ext and len(ext) == rank:
                return list(ext)
            base = off if len(off) == rank else [0] * rank
            c = [rnd.randrange(1, max(1, w - o) + 1) for w, o in zip(window, base)]
            if route in ('vec', 'val', 'c1') and rnd.random() < 0.7:
                j = rnd.randrange(rank)
                c = [1] * rank
                c[j] = rnd.choice([1, 2, 3, max(1, window[j] - base[j])])
            if k > 0.9:
                j = rnd.randrange(rank)
                c[j] = window[j] + 1
            return c

        def risky3(route, cnt, off):
            return cnt == [] and route in ('sc', 'nd') and all(x == 0 for x in off) and not one

        for _ in range(rnd.randrange(5, 10)):
            op = rnd.choice(['tgetall', 'tgetall', 'tget3', 'tget3', 'tget3', 'tgetat', 'tgetat', 'tset', 'tset', 'tsetall', 'vsetextent', 'vtype'])
            route = rnd.choice(ROUTES)
            ext = ext_for(route)
            e = ' '.join(map(str, ext))
            off = offset(rnd.choice(['zeros', 'inside', 'inside', 'outside', 'empty', 'rank']))
            o = ' '.join(u(x) for x in off)
            if op == 'tgetall':
                lines.append('tgetall %s %s' % (route, e))
            elif op == 'tget3':
                cnt = count_for(route, ext, off)
                if risky3(route, cnt, off):
                    continue
                lines.append('tget3 %s %s ; %s ; %s' % (route, e, ' '.join(map(str, cnt)), o))
            elif op == 'tgetat':
                lines.append('tgetat %s %s ; %s' % (route, e, o))
            elif op == 'tset':
                lines.append('tset %s %s ; %s ; %d' % (route, e, o, rnd.choice([100, 500, -7])))
                if rnd.random() < 0.5:
                    lines.append('aread')
            elif op == 'tsetall':
                lines.append('tsetall %s %s ; %d' % (route, e, rnd.choice([100, 900])))
                lines.append('aread')
            elif op == 'vsetextent':
                lines.append('vsetextent %s' % ' '.join(map(str, rnd.choice([window, shape, [1] * rank]))))
            else:
                lines.append('vtype')
        lines.append('aread')
        route = rnd.choice(['sc', 'nd'])
        lines.append('tget3 %s %s ;  ; %s' % (route, '' if route == 'sc' else '1', ' '.join(u(x) for x in offset(rnd.choice(['empty', 'zeros'])))))
        out.append(Case(lines, 'view-typed-probe'))


def gen_access(rnd, n, out):
    """the remaining public routes of util/dataAccess on arrays with random descriptors (no writes: the ids are the data)"""
    rules = ['L', 'LE', 'GE', 'G', 'EQ']
    for _ in range(n):
        rank = rnd.choice([1, 2, 2, 3])
        shape = [rnd.choice([1, 2, 3, 4, 5, 6]) for _ in range(rank)]
        dims = [make_dim(rnd, m) for m in shape]
        lines = [arr_line(shape, dims)]
        for _ in range(rnd.randrange(6, 12)):
            op = rnd.choice(['slice3', 'slice3', 'posin', 'dimunit', 'p2i', 'p2i', 'p2iv', 'p2iv'])
            j = rnd.randrange(rank)
            d, m = dims[j], shape[j]
            if op == 'slice3':
                qs = [rnd.choice(QUALITIES) if rnd.random() < 0.3 else 'inside' for _ in range(rank)]
                pe = [positions_for(rnd, dd, mm, q) for dd, mm, q in zip(dims, shape, qs)]
                lines.append('slice3 %s ; %s' % (' '.join(enc(x[0]) for x in pe), ' '.join(enc(x[1]) for x in pe)))
            elif op == 'posin':
                pos = [rnd.choice([0, mm - 1, mm, mm + 1, rnd.randrange(0, mm)]) for mm in shape]
                r = rnd.random()
                if r < 0.1:
                    pos = pos + [0]
                elif r < 0.2:
                    pos[rnd.randrange(rank)] = U64 - 1
                lines.append('posin %s' % ' '.join(u(x) for x in pos))
            elif op == 'dimunit':
                lines.append('dimunit %d' % j)
            else:
                def unit_for():
                    r = rnd.random()
                    if r < 0.35 or not d.has_unit():
                        return rnd.choice(['none', 'none', 'ms', 'mV']) if r < 0.5 else 'none'
                    if r < 0.6:
                        return d.unit
                    if r < 0.9:
                        return rnd.choice(FAMILY[UNITS[d.unit][1]])
                    return rnd.choice(['mV', 's', 'kHz'])
                if op == 'p2i':
                    s_, e_ = positions_for(rnd, d, m, rnd.choice(['inside', 'inside', 'beyond', 'below']))
                    un = unit_for()
                    p = s_
                    if un != 'none' and d.has_unit() and UNITS[un][1] == UNITS[d.unit][1]:
                        p = s_ / si_scaling(un, d.unit)
                    lines.append('p2i %d %s %s %s' % (j, enc(p), un, rnd.choice(rules)))
                else:
                    k = rnd.choice([1, 1, 2, 3])
                    st, en, us = [], [], []
                    for _ in range(k):
                        s_, e_ = positions_for(rnd, d, m, rnd.choice(['inside', 'inside', 'point', 'reversed', 'beyond']))
                        un = unit_for()
                        if un != 'none' and d.has_unit() and UNITS[un][1] == UNITS[d.unit][1]:
                            f = si_scaling(un, d.unit)
                            s_, e_ = s_ / f, e_ / f
                        st.append(s_); en.append(e_); us.append(un)
                    r = rnd.random()
                    if r < 0.08:
                        en = en[:-1]
                    elif r < 0.16:
                        us = us[:-1]
                    lines.append('p2iv %d %s ; %s ; %s ; %s' % (j, rnd.choice(['incl', 'excl']), ' '.join(enc(x) for x in st),
                                                                  ' '.join(enc(x) for x in en), ' '.join(us)))
        out.append(Case(lines, 'access-routes'))


def directed():
    """the probes of DESIGN.md section 9 and the repository's own test requests"""
    e = enc
    c = []
    one = 'arr 20 ; S %s - -' % e(1.0)
    c.append(Case([one, 'slice %s ; %s ; ; incl' % (e(2.0), e(5.0)), 'slice %s ; %s ; ; excl' % (e(2.0), e(5.0)),
                   'slice %s ; %s ; ; default' % (e(2.0), e(5.0)), 'slice %s ; %s ; ; excl' % (e(2.0), e(2.0)),
                   'slice %s ; %s ; ; incl' % (e(5.0), e(2.0)), 'slice %s ; %s ; ; incl' % (e(15.0), e(25.0))], 'directed'))
    c.append(Case([one, 'slice %s ; %s ; ; excl' % (e(2.5), e(2.5))], 'directed'))
    c.append(Case([one, 'slice %s ; %s ; ; incl' % (e(2.5), e(2.5))], 'directed'))
    # item 20: window [5,15) of 20, request offset 2^64-1 count 2
    c.append(Case([one, 'view 10 ; 5', 'vextent', 'vread 2 ; 0', 'vread 2 ; 9', 'vread 2 ; 0xffffffffffffffff',
                   'vwrite 2 ; 0xffffffffffffffff ; 500', 'aread', 'vwrite 2 ; 8 ; 100', 'vwrite 2 ; 9 ; 200', 'aread'], 'directed'))
    c.append(Case([one, 'view 0xffffffffffffffff ; 3', 'vextent', 'vread 2 ; 1'], 'directed'))
    c.append(Case([one, 'indata 0xffffffffffffffff ; 2', 'indata 19 ; 1', 'indata 19 ; 2', 'indata 0 ; 20', 'indata 0 ; 21'], 'directed'))
    # testFlexibleTagging's shape: 100 x 10 x 5 is scaled down to 6 x 4 x 5; two dimensions given
    flex = 'arr 6 4 5 ; S %s - ms ; L 0 ; L 0' % e(1.0)
    c.append(Case([flex, 'slice %s %s ; %s %s ; ; incl' % (e(0.0), e(1.0), e(3.0), e(2.0))], 'directed'))
    c.append(Case([flex, 'slice %s %s ; %s %s ; ; excl' % (e(0.0), e(1.0), e(3.0), e(2.0))], 'directed'))
    c.append(Case([flex, 'slice ; ; ; incl'], 'directed'))
    # testDataSlice: 2-d set x sampled, units
    two = 'arr 10 11 ; L 0 ; S %s - s' % e(0.1)
    c.append(Case([two, 'slice %s %s ; %s %s ; none s ; incl' % (e(0.0), e(0.0), e(9.0), e(1.0)),
                   'slice %s %s ; %s %s ; none s ; excl' % (e(0.0), e(0.0), e(9.0), e(1.0)),
                   'slice %s %s ; %s %s ; none ms ; incl' % (e(0.0), e(0.0), e(9.0), e(1000.0)),
                   'slice %s %s ; %s %s ; none mV ; incl' % (e(0.0), e(0.0), e(9.0), e(1.0)),
                   'slice %s %s ; %s %s ; none ks ; incl' % (e(0.0), e(0.0), e(9.0), e(1.0))], 'directed'))
    return c


class C17(Prop):
    id = 'C17'
    driver = 'drv_C17'
    model = 'C17'
    level = 'proof'
    search_scale = 4
    search_budget_s = 300
    technique = ('Coq model of dataSlice / fillPositionsExtentsAndUnits / positionToIndex / positionAndExtentInData and of the '
                 'DataView constructor, transform_coordinates, ioRead/ioWrite (explicit 64-bit wrap-around) on top of the C07 index '
                 'functions (generated) and the C01 array model; one switch per defect; theorems for the repaired behaviour, computed '
                 'counterexamples for the pinned code; correspondence on generated arrays, requests and view histories, judged by '
                 'the extracted brute-force region evaluator and integer window arithmetic')
    level_text = ('Proved in Coq (unbounded in rank, shape, descriptor contents, 64-bit offsets and counts; full statements for every '
                  'behaviour with the four repairable defects off, i.e. for what the code becomes with notes/proposed-fixes/C17-*.patch): '
                  'dataSlice returns exactly what the specification\'s brute-force evaluator returns (C17_slice_meets_spec) - the box whose '
                  'extent in every specified dimension is the region {i | start <= x_i <= end} resp. {x_i < end} of the coordinates the '
                  'descriptor yields (slice_exact; the evaluator is proved equal to that Prop-level reading on monotone axes, '
                  'C17_spec_dim_exact), an error exactly when start > end (slice_start_gt_end_rejected, for every behaviour), the units '
                  'have different base units, a region is empty or leaves the data (slice_oob_rejected); unspecified dimensions in full '
                  'in Inclusive mode with the padding the code has (slice_unspecified_full_inclusive) - the Exclusive counterpart is '
                  'refuted on a computed witness (pinned open finding); the ids the drivers print are the specification\'s ids in '
                  'row-major order (C17_slice_read_ids); positionAndExtentInData for all u64 values (C17_in_data_spec).  C18, second '
                  'half: a request whose positions scale exactly to (s, e) returns what (s, e, dimension unit) returns, parametric in '
                  'the factor (rescale_invariant, rescale_invariant_slice, rescale_invariant_slice_partial for any number of given positions); getSIScaling is the quotient of the generated prefix '
                  'factors for all 21 x 21 prefix pairs (C18_si_scaling_fdiv); x * 1.0 = x.  Views: the constructor accepts exactly '
                  'the windows inside the array; a request with offset_d + count_d <= window_d over the integers is the array read at '
                  'origin + offset (view_read_is_array_read_at_origin_plus_offset), a write changes exactly the addressed cells and no '
                  'cell outside the window (view_write_frame), every other request - for ANY u64 offset and count, including sums that '
                  'wrap - is refused with OutOfBounds and transfers nothing (view_oob_rejected).  Value transfers (the templates '
                  'DataSet::getData(value, offset) / setData(value, offset), buffer size explicit): with the templates repaired a scalar '
                  'moves exactly one element - the window origin for an empty offset - or the call throws, a vector of n moves n; never an '
                  'access outside the value (C17_view_get_value_spec, C17_view_set_value_spec, C17_scalar_read_one_element; '
                  'C17_scalar_template_refuted for the unrepaired templates).  Every template route of DataSet.hpp through a view for every '
                  'Hydra container kind (scalar, T[N], T[M][N], vector, valarray, multi_array, NDArray; resize rules of Data/NDArr.v): '
                  'getData(value, count, offset) is the (count, offset) request after the resize, an empty count being one element, and '
                  'never transfers more than the resized value holds (C17_view_tget3_spec, C17_resize_holds; C17_tget3_refuted for '
                  'the unrepaired template); getData(value) resizes to the window and receives it (C17_view_tgetall_spec); '
                  'setData(value) reaches DataView::dataExtent(NDSize), which always throws - refused, nothing written.  '
                  'util::positionInData (C17_position_in_data_spec), the multi-entry positionToIndex dispatcher and the 3-argument '
                  'dataSlice are related to the definitions the slice theorems are about.  For the pinned code each statement '
                  'fails on a computed witness (..._refuted); the last theorem current_is_repaired ties the model driver to the repaired behaviour.  The '
                  'model is tied to the code by the correspondence run (model == implementation on every line, also for every single '
                  'patch with the matching switch); the extracted specification judges the implementation\'s answers.')
    level_note = ('The C07 position->index theorems (sampled_index_spec, set_index_spec, df_index_spec, range_index_spec) are USED, not '
                  'assumed: slice_exact, slice_oob_rejected, C17_slice_meets_spec and slice_unspecified_full_inclusive are stated for '
                  'well-formed descriptors ([dim_wf] = the premises of those theorems: sampled - finite offset, finite interval > 0, finite '
                  'coordinates; range - at most 2^53+1 finite STRICTLY ascending ticks; set / data frame - at most 2^53 labels / rows) and '
                  'admissible positions (converted into the dimension\'s unit they are finite, and below 2^52 on set / data-frame '
                  'dimensions); slice_unspecified_full_inclusive additionally needs x_(n-1) < x_n after the last element on SAMPLED axes '
                  '(proved for the other kinds) and n <= 2^52.  Assumed / trusted: splitUnit\'s split '
                  'of an atomic SI unit into prefix and base unit (C18); HDF5 hyperslab semantics as in Data/NDArr.v, plus: a hyperslab '
                  'whose end reaches 2^64 passes HDF5\'s own bound test (observed as a buffer overrun; only reachable through the wrapped '
                  'window test); x86-64 SSE2 doubles.  Conventions fixed in SliceSpec.v: a request with start = end is a point request '
                  '(closed interval in both modes; pinned by testDataSlice); a unit on a dimension without unit is ignored (as the pair '
                  'overload of positionToIndex does); an element beyond the descriptor\'s coordinates (fewer ticks / labels than data) '
                  'has no coordinate and is never selected.  Not judged (specification answers ANY): different numbers of start and '
                  'end positions, units for positions that are not given, a shape entry 0, non-finite positions, a count 0 in '
                  'positionAndExtentInData, what a view does whose construction should have been refused.')
    nontrivial_rule = ('cases: an array of rank 1..3 (shape entries 1..6, random descriptors of all four kinds, units from s/ms/us/ks, '
                       'Hz/kHz/MHz, V/mV/uV) with requests whose positions sit on coordinates, one ulp beside them, between them, below '
                       'the first / beyond the last coordinate / beyond the data, reversed, point and near-point requests, both modes and '
                       'the default, unit vectors absent / none / own / partial / foreign; exactly rescaled twins (exactness checked in '
                       'binary64 before the case is emitted); 0..rank-1 given positions (one request per case: the pinned tree aborts on '
                       'them); malformed: too many entries, NaN / infinite positions, descriptors shorter than the data.  View histories: '
                       'windows inside / at the edge / crossing / beyond / wrapping / of wrong rank, then 4-9 requests inside / touching / '
                       'crossing in one dimension / offset near 2^64 / count near 2^64 (last line: HDF5 overruns the buffer on the pinned '
                       'tree) / empty count or offset / zero counts / rank mismatch, reads and writes interleaved with whole-array dumps.  '
                       'Value streams: getData / setData(value, offset) with scalar and short-vector values x offsets empty / zeros / in window / '
                       'out of window / wrong rank x windows of 1 and more elements x ranks 1..3, through the view and on the array (control).  '
                       'Typed streams: the five template routes x the seven container kinds with container extents, counts and offsets '
                       'inside / crossing / empty / of wrong rank, windows with one, one non-singleton and several dimensions; access '
                       'routes: 3-argument dataSlice, positionInData, getDimensionUnit, both generic positionToIndex dispatchers (1..3 entries, '
                       'size mismatches, own / scaled / foreign units).  The evidence lists every entry point and the lines it got.  '
                       'Non-trivial = the model returned data for at least one line; distinct = distinct case text')
    assumptions = ['a dimension\'s coordinates are the doubles its descriptor yields (sampled: fl(fl(i*interval)+offset), range: the ticks, set / data frame: the index)',
                   'descriptors are well formed in the sense of the C07 theorems (dim_wf) and converted positions are finite, below 2^52 on set / data-frame dimensions (pos_ok)',
                   'start = end denotes a point request (closed interval in both modes)',
                   'prefix factors: the binary64 literals of PREFIX_FACTORS (generated table); pow() is not called for units without a power',
                   'a set dimension without labels / a data-frame dimension over a frame without rows is an unbounded integer axis (as in C07)',
                   'HDF5 accepts a hyperslab whose end start+count reaches 2^64 (its bound test wraps); modelled as undefined behaviour']
    trusted_base = ['hand models coq/Access/Slice.v, View.v (statement-for-statement readings of src/util/dataAccess.cpp, src/DataView.cpp, '
                    'include/nix/DataView.hpp, NDSize.hpp, DataSet.hpp), tied by correspondence',
                    'translator output coq/Gen/GenDimensions.v (getSampledIndex, getSetIndex, getDataFrameIndex), GenTables.v (PREFIX_FACTORS); hand model Axis/RangeModel.v (getIndex)',
                    'array model coq/Data/NDArr.v (C01)']

    OOB = ('nix::OutOfBounds', 'std::out_of_range')

    def canon(self, line):
        if line.startswith('ERR '):
            cls = line[4:].strip()
            if cls in self.OOB or cls == 'oob':
                return 'ERR oob'
            if cls.startswith('nix::hdf5::'):
                return 'ERR h5'
        return line

    def compare(self, a, b):
        if b.startswith('UB'):
            # the model predicts undefined behaviour: a sanitizer abort or whatever the library happens to do
            # (the specification half of the same line still demands the refusal)
            return True
        return Prop.compare(self, a, b)

    def generate(self, seed, tier, scale=1):
        rnd = random.Random(seed * 104729 + 17)
        quick = tier == 'quick'
        out = directed()
        k = scale
        gen_slices(rnd, (220 if quick else 2500) * k, 12 if quick else 18, (110 if quick else 500) * k, out)
        gen_malformed(rnd, (50 if quick else 500) * k, out)
        gen_views(rnd, (600 if quick else 8000) * k, out)
        gen_indata(rnd, (40 if quick else 400) * k, out)
        gen_values(rnd, (80 if quick else 800) * k, out)
        gen_typed(rnd, (120 if quick else 1500) * k, out)
        gen_access(rnd, (100 if quick else 1200) * k, out)
        # on the pinned tree some hundred cases abort the driver (read past the argument vectors, HDF5 overrun after a wrapped
        # window test); spread them evenly over the driver processes (the engine gives up on a shard after 400 restarts)
        head, tail = out[:len(directed())], out[len(directed()):]
        rnd.shuffle(tail)
        self._routes = {}
        for c in head + tail:
            for l in c.lines:
                t = l.split(' ')
                key = t[0] + (':' + t[1] if t[0] in ('tgetall', 'tget3', 'tgetat', 'tsetall', 'tset') else '')
                self._routes[key] = self._routes.get(key, 0) + 1
        return head + tail

    def extra_checks(self, ctx):
        # which public entry points the drivers call and how many lines of this run went through each
        ctx['ev']['entry_points'] = ENTRY_POINTS
        ctx['ev']['typed_container_routes'] = ROUTES
        ctx['ev']['query_lines_per_route'] = dict(sorted(getattr(self, '_routes', {}).items()))
        return []

    # ---- classification of failures (stable signatures for known-findings.json) ----
    def first_diff(self, impl, spec):
        return next((i for i, (a, b) in enumerate(zip(impl, spec)) if b != 'ANY' and not self.compare(a, b)), 0)

    def signature(self, case, impl, spec):
        k = self.first_diff(impl, spec)
        t = case.lines[k].split(' ')
        a, b = impl[k], spec[k]
        op = t[0]
        if op == 'slice':
            secs = ' '.join(t[1:]).split(';')
            ns, ne = len(secs[0].split()), len(secs[1].split())
            rank = len(case.lines[0].split(';')[0].split()) - 1
            mode = secs[3].strip()
            if a.startswith('CRASH') and (ns < rank or ne < rank):
                return {'defect': 'slice-reads-argument-vectors', 'kind': 'slice'}
            if a.startswith('OK') and b.startswith('OK') and ns == ne and ns < rank and mode != 'incl':
                ia = a[3:].split('|')[0].split()
                ib = b[3:].split('|')[0].split()
                # every unspecified dimension has lost its last element (one of extent 1 keeps it: a point request)
                if len(ia) == len(ib) == rank and ia[:ns] == ib[:ns] and ia != ib and \
                        all(int(x) == int(y) - 1 or (x == y == '1') for x, y in zip(ia[ns:], ib[ns:])):
                    return {'defect': 'unspecified-dim-exclusive-loses-last', 'kind': 'slice'}
            if a.startswith('OK') and b.startswith('ERR') and ns == ne == rank:
                st, en = secs[0].split(), secs[1].split()
                ia = a[3:].split('|')[0].split()
                if any(abs(frombits(int(y[2:], 16)) - frombits(int(x[2:], 16))) <= 2.3e-16 and n == '1'
                       for x, y, n in zip(st, en, ia)):
                    return {'defect': 'point-request-snaps-to-next-coordinate', 'kind': 'slice'}
            if a == 'ERR nix::IncompatibleDimensions' and b.startswith('OK') and ns == ne == rank:
                st, en = secs[0].split(), secs[1].split()
                if any(abs(frombits(int(y[2:], 16)) - frombits(int(x[2:], 16))) <= 2.3e-16 for x, y in zip(st, en)):
                    # the same fallback path: the scalar overload refuses a unit the pair overload ignores
                    return {'defect': 'point-request-snaps-to-next-coordinate', 'kind': 'slice'}
            return {'kind': 'slice', 'impl': a.split(' ')[0], 'spec': b.split(' ')[0], 'case': case.lines[k]}
        if op == 'indata':
            return {'defect': 'extent-check-wraps', 'kind': 'indata'}
        if op in ('tgetall', 'tget3', 'tgetat', 'tsetall', 'tset'):
            secs = ' '.join(t[1:]).split(';')
            if op == 'tget3' and len(secs) >= 2 and secs[1].strip() == '':
                # three-argument read template with an empty count through a view
                return {'defect': 'tget3-empty-count', 'kind': 'view'}
            return {'kind': 'typed', 'op': op, 'route': t[1], 'impl': a.split(' ')[0], 'spec': b.split(' ')[0], 'case': case.lines[k]}
        if op in ('vget', 'vset', 'aget', 'aset'):
            if t[1] == 's' and op[0] == 'v':
                # scalar value through a view: the templates of DataSet.hpp hand an empty count on
                return {'defect': 'scalar-template-empty-count', 'kind': 'view'}
            return {'kind': 'value', 'op': op, 'impl': a.split(' ')[0], 'spec': b.split(' ')[0], 'case': case.lines[k]}
        if op in ('view', 'vread', 'vwrite', 'vextent', 'aread'):
            if any(l.startswith('vset s') or l.startswith('vget s') for l in case.lines[:k]) and not \
                    any(tok.startswith('0x') for l in case.lines[:k + 1] for tok in l.split(' ')):
                return {'defect': 'scalar-template-empty-count', 'kind': 'view'}
            big = any(tok.startswith('0x') for l in case.lines[:k + 1] for tok in l.split(' '))
            if big:
                return {'defect': 'window-check-wraps', 'kind': 'view'}
            return {'kind': 'view', 'op': op, 'impl': a.split(' ')[0], 'spec': b.split(' ')[0], 'case': case.lines[k]}
        return {'kind': op, 'case': case.lines[k]}

    def describe(self, case, impl, spec):
        k = self.first_diff(impl, spec)
        return 'line %d `%s`: implementation answers %r where the specification requires %r' % (k + 1, case.lines[k], impl[k], spec[k])


PROP = C17()
