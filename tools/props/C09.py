"""C09 — file open modes: ReadOnly never writes, ReadWrite preserves, Overwrite empties; bad headers refused.
Model coq/FileIO/Modes.v (+ Script.v, Tree.v), proofs ModesProofs.v; implementation driver harness/drv_C09.cpp
(shared interpreter harness/fileio_*.hpp)."""
import random, itertools
from engine import Prop, Case
import engine
import fileio_gen as G

COMPS = ['none', 'deflate']
DEFECTS = ['noformat', 'badformat', 'noversion', 'noid']
BUILD = ['open rw none 0', 'rich r', 'blk b1', 'arr b1 a1 1 2 3', 'sec s1', 'prop s1 p1 7']


class C09(Prop):
    id = 'C09'
    driver = 'drv_C09'
    model = 'C09'
    level = 'proof'
    search_scale = 3            # widened search after a broken proof / correspondence: bounded volume per seed
    level_text = ('Machine-checked Coq theorems, for every file-system state, every content type and every operation list, about a '
                  'model that follows File::open and the FileHDF5 constructor statement by statement (missing file => Overwrite except '
                  'ReadOnly which is refused first, mode mapping, create => header, else checkHeader of C10, open-or-create of '
                  '/metadata and /data, time stamps only if missing): a ReadOnly session leaves the file system unchanged whatever is '
                  'attempted and every mutating call fails (given that the library checks the failing HDF5 write: shown necessary by a '
                  'refutation for the unchecked H5Gunlink of H5Group::removeGroup), ReadOnly open performs no write, ReadWrite opens a '
                  'library-produced file with its content and changes nothing, creates a missing one; Overwrite yields, for EVERY prior '
                  'content, the empty tree and a header that passes checkHeader in every mode and reopens in every mode; ReadOnly on a '
                  'missing path and every header defect (format missing/wrong, version missing, id missing, plain HDF5, not HDF5) are '
                  'refused; what Force bypasses is stated exactly.  The extracted pointwise specification is proved to be met by the model. '
                  'PARTIAL: that not a single BYTE changes is an OS/HDF5 behaviour - it is exercised (SHA-256 of the file before and after '
                  'every read-only session, for every enumerated mutator of the public API), not proved.')
    level_note = ('Assumed: on a file opened H5F_ACC_RDONLY every mutating HDF5 call fails and writes nothing; H5Fcreate(TRUNC) succeeds on any '
                  'path; paths are regular files readable by the process.  The class of each mutator (checked write / only H5Gunlink / '
                  'unlink loop) is read off the backend by hand (coq/FileIO/Script.v); whether H5Group::removeGroup checks H5Gunlink is '
                  'read from the source on every run.  The in-session view of a read-only file after a failed attribute overwrite '
                  '(HDF5 keeps the new value in its cache) is not part of this property (C08).  Version mismatches belong to C10.  OPEN FINDING: a second '
                  'File object opened ReadOnly while the same process has the path open ReadWrite accepts mutating calls (HDF5 shares the '
                  'intent of the first open); the model expresses it (Modes.second_open / mutate_second, C09_second_ro_file_refuted), '
                  'C09_ro_no_write is the statement for a File that is alone on its path; after the second File is closed the first one '
                  'is unusable (its close() sweeps every id of the shared file) - the scripts only close it then.')
    technique = ('Coq proof over a statement-by-statement model of File::open/FileHDF5 + correspondence on real files with SHA-256 byte '
                 'identity and a systematic enumeration of the mutators of the public API (each also run read-write to show it is a '
                 'well-formed mutating call)')
    nontrivial_rule = ('every mutator of harness/fileio_tables.hpp (File, Block, DataArray incl. dimensions and data, DataView, DataFrame, Tag, '
                       'MultiTag, Feature, Group, Source, Section, Property) x compression default x Force, each in its own read-only '
                       'session in a child process + once read-write; read-only battery sessions on random content; ReadWrite '
                       'preserve/create; Overwrite over 7 kinds of prior content; every header defect x 3 modes x Force; random command '
                       'walks.  A case is non-trivial when the model reaches an OK outcome; distinct = distinct case text')
    assumptions = ['HDF5: every mutating call on a file opened H5F_ACC_RDONLY fails and writes nothing',
                   'byte identity of the file (SHA-256) is measured by the driver, the model compares file contents at the level of header, groups, time stamps and tree',
                   'compression defaults affect only how later arrays are stored (session attribute in the model)']
    trusted_base = ['hand-written model coq/FileIO/Modes.v (File::open + FileHDF5 constructor) over checkHeader of coq/FileIO/Version.v, tied by the correspondence run',
                    'mutator enumeration harness/fileio_tables.hpp (hand-enumerated from include/nix/*.hpp; each entry shown to be a mutating call by its read-write run)',
                    'source scan of H5Group::removeGroup (tools/props/fileio_gen.py)']
    repo = '/repo'

    def run_check(self, tier, seed, repo='/repo'):
        self.repo = repo
        return engine.run_check(self, tier, seed, repo)

    # ------------------------------------------------------------------------------------------
    def generate(self, seed, tier, scale=1):
        rnd = random.Random(seed)
        uc, _ = G.unlink_checked(self.repo)
        uc = 1 if uc else 0
        muts, nomuts = G.mutators()
        thorough = tier != 'quick' or scale > 1
        cases = []

        # A. every mutator: read-write (well-formed mutating call) and read-only (must throw, bytes identical)
        plans = []
        if thorough:
            for c in ['none', 'deflate', 'auto']:
                for f in (0, 1):
                    plans.append((c, f))
        else:
            plans = [('none', 0), ('deflate', rnd.choice([0, 1]))]
        for (c, f) in plans:
            order = list(muts)
            rnd.shuffle(order)
            for i in range(0, len(order), 6):
                lines = ['fs missing'] + ['open rw %s 0' % (c if c != 'auto' else 'none')] + BUILD[1:] + ['close']
                for m in order[i:i + 6]:
                    if (c, f) == plans[0]:
                        lines.append('rwmut %s' % m)
                    lines.append('romut %s %s %d %d' % (m, c, f, uc))
                cases.append(Case(lines, 'ro-mutators'))
        lines = ['fs missing'] + BUILD + ['close']
        for m in nomuts:
            lines += ['nomut %s ro' % m, 'nomut %s rw' % m]
        cases.append(Case(lines, 'no-op-calls'))

        # B. read-only sessions with the read battery on random content
        nb = 12 * scale if not thorough else 200 * scale
        for _ in range(nb):
            c = rnd.choice(COMPS)
            lines = ['fs missing', 'open rw %s 0' % c]
            if rnd.random() < 0.7:
                lines.append('rich r')
            lines += G.random_content(rnd, rnd.randint(0, 12))
            lines += ['snap', 'dump', 'close', 'sha0']
            for _ in range(rnd.randint(1, 2)):
                lines += ['open ro %s %d' % (rnd.choice(COMPS + ['auto']), rnd.choice([0, 1])), 'battery', 'cmp', 'dump']
                # mutating calls of the small alphabet inside the read-only session: all must fail
                lines += [l for l in G.random_content(rnd, rnd.randint(0, 4), None) if not l.startswith('dump')]
                lines += rnd.choice([[], ['flush']]) + ['cmp', 'close', 'sha?']
            cases.append(Case(lines, 'ro-battery'))

        # C. ReadWrite preserves / creates
        for _ in range(10 * scale if not thorough else 150 * scale):
            c = rnd.choice(COMPS)
            lines = ['fs missing', 'open rw %s 0' % c]
            if rnd.random() < 0.5:
                lines.append('rich r')
            lines += G.random_content(rnd, rnd.randint(0, 10)) + ['snap', 'dump', 'close']
            for _ in range(rnd.randint(1, 3)):
                lines += ['open rw %s %d' % (rnd.choice(COMPS + ['auto']), rnd.choice([0, 1])), 'cmp', 'dump'] + rnd.choice([[], ['flush'], ['battery']]) + ['close']
            lines += ['open ro none 0', 'cmp', 'dump', 'close']
            cases.append(Case(lines, 'rw-preserves'))
        for c in COMPS + ['auto']:
            for f in (0, 1):
                cases.append(Case(['fs missing', 'open rw %s %d' % (c, f), 'dump', 'blk n1', 'close', 'open ro none 0', 'dump', 'close',
                                   'open rw none 0', 'dump', 'close'], 'rw-creates'))
                cases.append(Case(['fs missing', 'open ro %s %d' % (c, f), 'open rw none 0', 'close', 'open ro %s %d' % (c, f), 'dump', 'close'],
                                  'ro-missing'))

        # D. Overwrite over every kind of prior content
        priors = [['fs missing'], ['fs nonh5'], ['fs empty'], ['fs plainh5'], ['fs lib'],
                  ['fs missing'] + BUILD + ['close']]
        for d in DEFECTS:
            priors.append(['fs missing'] + BUILD + ['close', 'hdr ' + d])
            priors.append(['fs lib', 'hdr ' + d])
        for p in priors:
            for c in (COMPS + ['auto'] if thorough else [rnd.choice(COMPS)]):
                for f in (0, 1):
                    lines = list(p) + ['open ow %s %d' % (c, f), 'dump', 'close', 'open ro none 0', 'dump', 'close',
                                       'open rw none 0', 'dump', 'close', 'open ow none 0', 'dump', 'close', 'open ro none 1', 'dump', 'close']
                    cases.append(Case(lines, 'overwrite'))

        # E. header defects x modes x Force (refused without Force; with Force exactly what the constructor does)
        for p in priors[1:4] + priors[6:]:
            for mode in ('ro', 'rw', 'ow'):
                for f in (0, 1):
                    c = rnd.choice(COMPS)
                    lines = list(p) + ['sha0', 'open %s %s %d' % (mode, c, f), 'dump', 'close', 'sha?',
                                       'open ro none 0', 'dump', 'close']
                    cases.append(Case(lines, 'header-defect'))

        # E2. format values that are almost right, and missing format / version / id across the format versions around
        #     the library's, x 3 modes x Force.  The specification judges them from the property text: a header that
        #     lacks format = "nix", a version, or (for format versions >= 1.2.0) the id is refused unless Overwrite;
        #     a complete header is let through exactly by the version gate; with Force nothing is demanded (ANY).
        def hx(s):
            return 's:' + (s if isinstance(s, bytes) else s.encode()).hex()
        formats = ['nix', 'nixx', 'nix2', 'nixio', 'nix ', ' nix', 'nix\n', 'ni', 'n', '', 'NIX', 'Nix', 'niX', 'xin', 'hdf5',
                   'nix\u00e9', '\u00f1ix', 'nix.', 'nixnix']
        versions = [(1, 2, 0), (1, 2, 1), (1, 2, 5), (1, 1, 0), (1, 1, 9), (1, 0, 0), (1, 3, 0), (2, 0, 0), (0, 9, 9)]
        base = ['fs lib', 'open rw none 0', 'blk b1', 'arr b1 a1 4 5', 'close']
        for fmt in formats:
            for mode in ('ro', 'rw', 'ow'):
                for f in (0, 1):
                    v = rnd.choice(versions) if thorough or rnd.random() < 0.3 else (1, 2, 0)
                    lines = base + ['hdr fmt=' + hx(fmt)] + (['hdr ver=%d.%d.%d' % v] if v != (1, 2, 0) else []) + \
                            ['sha0', 'open %s %s %d' % (mode, rnd.choice(COMPS), f), 'dump', 'close', 'sha?']
                    cases.append(Case(lines, 'format-values'))
        for v in versions:
            for d in (None, 'noid', 'noformat', 'noversion'):
                for mode in ('ro', 'rw', 'ow'):
                    for f in (0, 1):
                        lines = base + ['hdr ver=%d.%d.%d' % v] + (['hdr ' + d] if d else []) + \
                                ['sha0', 'open %s %s %d' % (mode, rnd.choice(COMPS), f), 'dump', 'close', 'sha?']
                        if mode == 'ow':
                            lines += ['open ro none 0', 'dump', 'close']
                        cases.append(Case(lines, 'header-by-version'))
        for vtxt in ('1.2', '1.2.0.0', '1'):
            for mode in ('ro', 'rw'):
                cases.append(Case(base + ['hdr ver=' + vtxt, 'open %s none 0' % mode, 'dump', 'close'], 'header-by-version'))

        # E3. a SECOND File object on the same path in the same process.  The specification is the property's: a File
        #     that reports ReadOnly refuses every mutating call and the bytes do not change because of them - whatever
        #     else the process has open.  (HDF5 shares the access intent of the first open between all ids of a file.)
        known_muts = [m for m in G.SAFE_MUTS if m in muts]
        nsec = (3 if not thorough else 25) * scale
        for (first, second) in [('rw', 'ro'), ('ow', 'ro'), ('ro', 'rw'), ('ro', 'ro'), ('ro', 'ow'), ('rw', 'rw'), ('rw', 'ow')]:
            for _ in range(nsec if second == 'ro' else max(1, nsec // 3)):
                c = rnd.choice(COMPS)
                lines = ['fs missing', 'open rw %s 0' % c, 'rich r'] + [l for l in G.random_content(rnd, rnd.randint(0, 4)) if l != 'dump']
                if first == 'ro':
                    lines += ['close', 'open ro %s 0' % c]
                elif first == 'rw' and rnd.random() < 0.5:
                    lines += ['close', 'open rw %s 0' % c]
                else:
                    lines += ['flush']                     # first == 'ow' (or rw on the file it created): the creating session itself
                lines += ['open2 %s %s %d' % (second, rnd.choice(COMPS + ['auto']), rnd.choice([0, 0, 1])), 'sha0']
                picks = rnd.sample(known_muts, rnd.randint(2, 5))
                for i, m in enumerate(picks):
                    lines.append('mutin2 %s %d' % (m, uc))
                    if rnd.random() < 0.4:
                        lines.append('blk2 second%d' % i)
                lines += ['dump2', 'flush2', 'sha?', 'close2', 'close', 'open ro none 0', 'dump', 'close']
                cases.append(Case(lines, 'second-file'))

        # F. random walks over the whole command set
        for _ in range(15 * scale if not thorough else 300 * scale):
            lines = ['fs ' + rnd.choice(['missing', 'lib', 'lib', 'plainh5', 'nonh5'])]
            st = {'blocks': {}, 'secs': {}, 'rich': False}
            is_open = False
            for _ in range(rnd.randint(4, 14)):
                k = rnd.random()
                if not is_open:
                    if k < 0.1:
                        lines.append('hdr ' + rnd.choice(DEFECTS))
                    elif k < 0.2:
                        lines += ['sha0']
                    else:
                        lines.append('open %s %s %d' % (rnd.choice(['ro', 'rw', 'rw', 'ow']), rnd.choice(COMPS + ['auto']), rnd.choice([0, 0, 1])))
                        is_open = True          # possibly refused: the following lines then answer ERR on both sides
                else:
                    if k < 0.5:
                        lines += G.random_content(rnd, rnd.randint(1, 3), st)
                    elif k < 0.6:
                        lines.append('dump')
                    elif k < 0.7:
                        lines.append('flush')
                    elif k < 0.75:
                        lines.append('snap')
                    else:
                        lines.append('close')
                        is_open = False
            lines += ['close', 'open ro none 0', 'dump', 'close']
            cases.append(Case(lines, 'random-walk'))
        return cases

    def signature(self, case, impl, spec):
        first_mode = second_mode = None          # modes of the two File objects open at the failing line (as the implementation reports them)
        accepted_through_ro = False
        for line, a, b in zip(case.lines, impl, spec):
            t = line.split(' ')
            ok = (a or '').startswith('OK')
            if t[0] == 'fs':
                first_mode = second_mode = None
            if t[0] == 'open' and ok:
                first_mode = (a.split('mode=')[1].split(' ')[0]) if 'mode=' in a else t[1]
            if t[0] == 'open2' and ok:
                second_mode = (a.split('mode=')[1].split(' ')[0]) if 'mode=' in a else t[1]
            if t[0] == 'close2':
                second_mode = None
            if t[0] in ('mutin2', 'blk2') and second_mode == 'ro' and first_mode in ('rw', 'ow') and \
                    (a == 'OK %s OK' % (t[1] if len(t) > 1 else '') or a == 'OK blk2'):
                accepted_through_ro = True
                if b != 'ANY' and not self.compare(a, b):
                    return {'kind': 'second-file', 'defect': 'ro-while-rw-open'}
            if b != 'ANY' and not self.compare(a, b):
                if t[0] in ('mutin2', 'blk2', 'sha?') and case.tag.startswith('second-file'):
                    writable_first = first_mode in ('rw', 'ow')
                    through_ro = second_mode == 'ro' or (t[0] == 'sha?' and accepted_through_ro)
                    accepted = (t[0] == 'mutin2' and a == 'OK %s OK' % t[1]) or (t[0] == 'blk2' and a == 'OK blk2') or \
                               (t[0] == 'sha?' and a == 'OK sha-DIFF' and accepted_through_ro)
                    if writable_first and through_ro and accepted:
                        # a mutating call through a File that reports ReadOnly is accepted (and reaches the disk) while the
                        # same process has the path open ReadWrite
                        return {'kind': 'second-file', 'defect': 'ro-while-rw-open'}
                    return {'kind': 'second-file', 'defect': 'other', 'cmd': t[0], 'first': first_mode, 'second': second_mode, 'impl': a}
                if t[0] == 'romut':
                    out = (a or '').split(' ')
                    verdict = out[2] if len(out) > 2 else a
                    sha = out[3] if len(out) > 3 else ''
                    return {'cmd': 'romut', 'outcome': verdict, 'sha': sha}
                return {'cmd': t[0], 'line': line, 'impl': a}
        return {'cmd': case.lines[0].split(' ')[0]}

    def describe(self, case, impl, spec):
        bad = [(l, a, b) for l, a, b in zip(case.lines, impl, spec) if b != 'ANY' and not self.compare(a, b)]
        return '; '.join('`%s`: implementation %r, specification %r' % x for x in bad[:8])

    def extra_checks(self, ctx):
        muts, nomuts = G.mutators()
        uc, ev = G.unlink_checked(ctx['repo'])
        ctx['ev']['mutators_enumerated'] = len(muts)
        ctx['ev']['no_op_calls_enumerated'] = len(nomuts)
        ctx['ev']['removeGroup_scan'] = ev
        return []


PROP = C09()
