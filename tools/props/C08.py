"""C08 — a rejected operation leaves no trace.
Model: coq/Store/Db.v, DbOps.v (state + step function with one behaviour switch per known defect),
DbObserve.v (canonical observation).  Theorems: coq/Properties/Properties_C08.v.
Tie: the malformed stream replayed on the implementation (harness/hist_common.hpp) and on the extracted model
(ocaml/hist_common.ml); after EVERY line both sides print a digest of the whole canonical dump, so the complete
observable state is compared at every step.
Oracle: the implementation driver compares its own dump before / after every call; a call that answers ERR must
have t=0 (and a call the repaired model rejects must be rejected)."""
import random
from engine import Prop, Case
import histlib


class C08(Prop):
    id = 'C08'
    driver = 'drv_C08'
    model = 'C08'
    level = 'proof'
    technique = 'history correspondence + step-function proof'
    search_scale = 2          # the widened search after a break: 2 x the thorough stream per seed
    level_text = ('rejected_no_trace proved for every op constructor of the repaired step function and lifted to every reachable '
                  'state; tied by replaying malformed-call histories on implementation and extracted model with a digest of the '
                  'full canonical dump after every line')
    level_note = ('HDF5 is modelled (groups = ordered maps, hard links), dimensions / data values are outside this model '
                  '(C13, C01, C14, C15); timestamps are not observed')
    nontrivial_rule = ('a case is a history of 25-80 calls on a populated file; it is non-trivial when the model rejects at least '
                       'one library call (an ERR that is not a driver refusal); cases are distinct by text')
    assumptions = ['ids are produced by an injective, uuid-shaped supply and never equal a name in use',
                   'lookup keys contain no slash (a key with a slash is an HDF5 path)',
                   'receivers are live entities (the drivers refuse dead receivers before calling the library)']
    trusted_base = ['harness/hist_common.hpp canonical dump (reads every public getter, ids replaced by creation ordinals)']

    def generate(self, seed, tier, scale=1):
        cases = self._generate(seed, tier, scale)
        if scale == 1:
            self._routes = histlib.count_routes(self.corpus() + cases)
        return cases

    def _generate(self, seed, tier, scale=1):
        rnd = random.Random(seed * 7919 + 8)
        n = (110 if tier == 'quick' else 2500) * scale
        cases = []
        for i in range(n):
            cases.append(histlib.gen_c08_case(rnd, rnd.randint(8, 22)))
        return cases

    def corpus(self):
        return histlib.load_corpus(self.id)

    def extra_checks(self, ctx):
        # which further public entry points (notes/route-audit.md) this run went through, and how many script lines each got
        routes = getattr(self, '_routes', {})
        ctx['ev']['entry_points'] = {k: v for k, v in histlib.ROUTES.items() if any(r == k or r.startswith(k + ' ') for r in routes)}
        ctx['ev']['lines_per_route'] = routes
        return []

    def compare(self, a, b):
        return histlib.compare(a, b)

    def nontrivial(self, case, model_lines):
        return any(l.startswith('ERR') and not l.startswith('ERR driver::') for l in model_lines)

    def signature(self, case, impl_lines, spec_lines):
        i = histlib.first_failure(case, impl_lines, spec_lines)
        if i is None:
            return {'op': 'none'}
        line = case.lines[i]
        a = impl_lines[i] or ''
        cls = (case.meta.get('cls') or {}).get(i)
        head = histlib.split_tail(a)[0]
        if a.startswith('CRASH'):
            what = 'crash'
        elif a.startswith('ERR'):
            what = 'trace-after-' + head.split(' ')[1]
        else:
            what = 'accepted'
        return {'op': histlib.op_of(line), 'class': cls or 'unlabelled', 'what': what}

    def describe(self, case, impl_lines, spec_lines):
        i = histlib.first_failure(case, impl_lines, spec_lines)
        if i is None:
            return 'no failing line'
        return ('line %d `%s` (class %s): implementation answers %r, the specification requires %r '
                '(ERR t=0: the call must be rejected and leave no trace; NOTRACE: if it is rejected the dump must not change)'
                % (i + 1, case.lines[i], (case.meta.get('cls') or {}).get(i, '-'), impl_lines[i], spec_lines[i]))


PROP = C08()
