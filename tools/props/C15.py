"""C15 — DataFrame cells round trip through row, cell and column access.
History-based correspondence of the row-list model coq/Data/Frame.v against the library, judged by the extracted
pointwise specification (log of accepted changes, cell-by-cell lookup)."""
import random, struct
from engine import Prop, Case

TYPES = ['Bool', 'Int32', 'UInt32', 'Int64', 'UInt64', 'Double', 'String']
INTS = ['Int32', 'UInt32', 'Int64', 'UInt64']
ELT = ['Int32', 'UInt32', 'Int64', 'UInt64', 'Double', 'String']      # element types the column templates compile for
RANGE = {'Int32': (-2**31, 2**31 - 1), 'UInt32': (0, 2**32 - 1), 'Int64': (-2**63, 2**63 - 1), 'UInt64': (0, 2**64 - 1)}
PFX = {'Int32': 'i32', 'UInt32': 'u32', 'Int64': 'i64', 'UInt64': 'u64'}
INT_SPECIAL = {
    'Int32': [-2**31, 2**31 - 1, 0, -1, 1],
    'UInt32': [0, 2**32 - 1, 2**31, 1],
    'Int64': [-2**63, 2**63 - 1, 0, -1, 2**53 + 1, -2**31 - 1, 2**32],
    'UInt64': [0, 2**64 - 1, 2**63, 2**53 + 1, 2**32, 1],
}


def dbits(x):
    return struct.unpack('<Q', struct.pack('<d', x))[0]


def dfbits(x):
    return struct.unpack('<I', struct.pack('<f', x))[0]


def fval(b):
    return struct.unpack('<f', struct.pack('<I', b))[0]


def dval(b):
    return struct.unpack('<d', struct.pack('<Q', b))[0]


NAN = 0x7ff8000000000000
# doubles aimed at the integer boundaries of the conversion (all finite or infinite; NaN is kept apart)
DBL_EDGE = [dbits(x) for x in [0.0, -0.0, 0.5, -0.5, 0.999, -0.999, 1.0, -1.0, 2.5, -2.5, 3.9, -3.9, 1e10, -1e10, 1e30, -1e30,
                               2147483647.0, 2147483647.5, 2147483648.0, -2147483648.0, -2147483648.5, -2147483649.0,
                               4294967295.0, 4294967295.5, 4294967296.0, 9007199254740993.0,
                               9223372036854774784.0, 9223372036854777856.0, -9223372036854775808.0, -9223372036854777856.0,
                               18446744073709549568.0, 18446744073709555712.0, 4.9e-324, 1.7976931348623157e308]] + \
           [0x7ff0000000000000, 0xfff0000000000000]
TWO63 = dbits(9223372036854775808.0)
TWO64 = dbits(18446744073709551616.0)
UTF8 = ['ä', 'ö€', '\U0001F600', '日本', 'µ']
# construction routes of a writeCells request in harness/drv_C15.cpp (build_cells)
NARROW = ['Int8', 'Int16', 'UInt8', 'UInt16', 'Float']     # further element types of the column templates (Hydra accepts them)
NRANGE = {'Int8': (-128, 127), 'Int16': (-32768, 32767), 'UInt8': (0, 255), 'UInt16': (0, 65535)}
NPFX = {'Int8': 'i8', 'Int16': 'i16', 'UInt8': 'u8', 'UInt16': 'u16'}
FLT_EDGE = [0x00000000, 0x80000000, 0x3f800000, 0xbf800000, 0x40200000, 0xc0200000, 0x3dcccccd, 0x7f7fffff, 0xff7fffff, 0x00000001,
            0x7f800000, 0xff800000, 0x4effffff, 0xcf000000, 0x4f7fffff, 0x5effffff, 0xdf000000, 0x5f7fffff, 0x4b800000, 0x42fe0000,
            0x43000000, 0xc3000000, 0xc3008000, 0x477fff00, 0x47800000]
FLT_QUIRK = [0x4f000000, 0x4f800000, 0x5f000000, 0x5f800000]        # 2^31 2^32 2^63 2^64 as floats: the rounded integer maxima (UB in HDF5)
# live handles to the one frame a line may go through (harness/drv_C15.cpp select_handle)
HANDLES = ['c', 'k', 'i', 'g', 'f', 'x', 'y']


def with_handles(lines, rnd, p=0.6):
    """prefix the lines of a history with randomly chosen handles (writes / resizes through one, reads through another)"""
    out = []
    for l in lines:
        if l.startswith(('new ', 'reopen ')) or l == 'new 0' or rnd.random() > p:
            out.append(l)
        else:
            out.append('@%s %s' % (rnd.choice(HANDLES), l))
    return out


ROUTES = ['brace', 'assign', 'presized', 'reverse', 'rotate', 'swap', 'erase', 'insert', 'copy', 'move']


def hexs(b):
    return 's:' + (b if isinstance(b, bytes) else b.encode('utf-8')).hex()


def in_domain(bits, t):
    """is the double -> integer member conversion defined (no C undefined behaviour inside HDF5)?"""
    e = (bits >> 52) & 0x7ff
    if e == 0x7ff and (bits & 0xfffffffffffff):
        return False
    if t == 'Int64' and bits == TWO63:
        return False
    if t == 'UInt64' and bits == TWO64:
        return False
    return True


def widely_safe(bits):
    """a double every integer type converts in its domain"""
    e = (bits >> 52) & 0x7ff
    if e == 0x7ff:
        return (bits & 0xfffffffffffff) == 0
    return abs(dval(bits)) < 2.0 ** 62


class Shadow:
    """what the generator remembers of the frame it is driving"""

    def __init__(self, rnd, ncols, with_string):
        self.r = rnd
        pool = TYPES if with_string else [t for t in TYPES if t != 'String']
        names = set()
        self.cols = []
        for i in range(ncols):
            while True:
                n = rnd.choice(['a', 'b', 'col', 'x y', 'v/1', 'Temp', 'µV', 'n%d' % i, 'c%d' % rnd.randint(0, 99),
                                ''.join(rnd.choice('abcXYZ_') for _ in range(rnd.randint(1, 9))), rnd.choice(UTF8) + str(i)])
                if n not in names:
                    names.add(n)
                    break
            self.cols.append((n, rnd.choice(['', 'mV', 's', 'µm', 'k Hz', 'a.u.']), rnd.choice(pool)))
        self.nrows = 0
        self.dsafe = [True] * ncols          # Double columns: only widely safe doubles were ever written

    def new_line(self):
        return 'new %d %s' % (len(self.cols), ' '.join('%s %s %s' % (hexs(n), hexs(u), t) for n, u, t in self.cols))

    # ---- values -------------------------------------------------------------------------------
    def val_of(self, t):
        r = self.r
        if t == 'Bool':
            return 'b:%d' % r.randint(0, 1)
        if t in INTS:
            if r.random() < 0.4:
                return '%s:%d' % (PFX[t], r.choice(INT_SPECIAL[t]))
            if r.random() < 0.5:
                return '%s:%d' % (PFX[t], max(RANGE[t][0], min(RANGE[t][1], r.randint(-1000, 1000))))
            return '%s:%d' % (PFX[t], r.randint(*RANGE[t]))
        if t == 'Double':
            k = r.random()
            if k < 0.35:
                return 'd:%016x' % r.choice(DBL_EDGE)
            if k < 0.45:
                return 'd:%016x' % r.choice([NAN, 0x7ff0000000000001, 0xfff8000000000000, TWO63, TWO64])
            if k < 0.7:
                return 'd:%016x' % dbits(r.uniform(-1e6, 1e6))
            return 'd:%016x' % dbits(r.choice([-1, 1]) * 10 ** r.uniform(-30, 30))
        if t == 'String':
            k = r.choice(['empty', 'short', 'short', 'utf8', 'bytes', 'long'])
            if k == 'empty':
                return 's:'
            if k == 'short':
                return hexs(bytes(r.choice(b'abcXYZ019 _') for _ in range(r.randint(1, 10))))
            if k == 'utf8':
                return hexs(''.join(r.choice(UTF8 + ['a', ' ']) for _ in range(r.randint(1, 5))))
            if k == 'bytes':
                return hexs(bytes(r.randint(1, 255) for _ in range(r.randint(1, 30))))
            return hexs(bytes(r.choice(b'abcdefghij ') for _ in range(r.choice([255, 256, 1000, 4096]))))
        raise ValueError(t)

    def elt_val(self, T, target=None):
        """one element of a vector<T>; `target`: the column type it is converted into (to stay inside the domain)"""
        r = self.r
        if T in NRANGE:
            lo, hi = NRANGE[T]
            return '%s:%d' % (NPFX[T], r.choice([lo, hi, 0, 1, r.randint(lo, hi), r.randint(lo, hi)]))
        if T == 'Float':
            while True:
                b = r.choice(FLT_EDGE) if r.random() < 0.5 else dfbits(r.choice([r.uniform(-1e6, 1e6), r.choice([-1, 1]) * 10 ** r.uniform(-20, 20)]))
                if target in INTS and (b in FLT_QUIRK or ((b >> 23) & 0xff) == 0xff and (b & 0x7fffff)):
                    continue
                return 'f:%08x' % b
        if T == 'Char':
            return 'c:%d' % r.randint(-128, 127)
        return self.val_of(T)

    def value_for(self, c, foreign):
        """a value to write into column c; `foreign` = of another (convertible, in-domain) type"""
        r = self.r
        t = self.cols[c][2]
        if not foreign or t in ('Bool', 'String'):
            v = self.val_of(t)
        elif t == 'Double':
            v = self.val_of(r.choice(INTS + ['Bool']))
        else:
            s = r.choice(INTS + ['Bool', 'Double', 'Double'])
            if s == 'Double':
                while True:
                    v = 'd:%016x' % (r.choice(DBL_EDGE) if r.random() < 0.6 else dbits(r.uniform(-5e9, 5e9)))
                    if in_domain(int(v[2:], 16), t):
                        break
            else:
                v = self.val_of(s)
        self.note_write(c, v)
        return v

    def note_write(self, c, v):
        if self.cols[c][2] != 'Double':
            return
        if v.startswith('d:'):
            if not widely_safe(int(v[2:], 16)):
                self.dsafe[c] = False
        elif v.startswith('f:'):
            if not widely_safe(dbits(fval(int(v[2:], 16)))):
                self.dsafe[c] = False
        elif v.startswith(('i32:', 'u32:', 'i64:', 'u64:')):
            if abs(int(v.split(':')[1])) >= 2 ** 62:
                self.dsafe[c] = False

    # ---- operations ---------------------------------------------------------------------------
    def row(self, oob=0.0):
        r = self.r
        if self.nrows == 0 or r.random() < oob:
            return self.nrows + r.choice([0, 0, 1, 5])
        return r.choice([0, self.nrows - 1, r.randrange(self.nrows), r.randrange(self.nrows)])

    def w_row(self, foreign=0.15):
        r = self.r
        k = len(self.cols)
        n = k if r.random() < 0.8 else r.randint(1, k)
        return 'wrow %d %d %s' % (self.row(), n, ' '.join(self.value_for(c, r.random() < foreign) for c in range(n)))

    def w_cells(self, foreign=0.15):
        r = self.r
        cs = r.sample(range(len(self.cols)), r.randint(1, min(4, len(self.cols))))
        row = self.row()
        # how the harness puts the std::vector<Cell> together (the request itself is the same list of cells)
        route = r.choice(ROUTES)
        sfx = '' if route == 'brace' and r.random() < 0.5 else ':' + route
        if sfx and r.random() < 0.4:
            sfx += '/typed'          # Cell(name, const char*) / Cell(name, T) / Cell(int col, T) instead of Cell(.., Variant)
        if r.random() < 0.4:
            return 'wcells_n%s %d %d %s' % (sfx, row, len(cs), ' '.join('%s %s' % (hexs(self.cols[c][0]), self.value_for(c, r.random() < foreign)) for c in cs))
        if len(cs) == 1 and r.random() < 0.3:
            return 'wcell %d %d %s' % (row, cs[0], self.value_for(cs[0], r.random() < foreign))
        return 'wcells_i%s %d %d %s' % (sfx, row, len(cs), ' '.join('%d %s' % (c, self.value_for(c, r.random() < foreign)) for c in cs))

    def elt_for_write(self, c, foreign):
        t = self.cols[c][2]
        if t == 'String':
            return 'String'
        if t == 'Bool':
            return self.r.choice(INTS + ['Double'] + NARROW)          # there is no element type that converts into Bool
        if not foreign:
            return t
        return self.r.choice([x for x in INTS + ['Double'] + NARROW if x != t])

    def w_col(self, foreign=0.15, bad=0.0):
        r = self.r
        c = r.randrange(len(self.cols))
        T = self.elt_for_write(c, r.random() < foreign)
        mode = r.choice(['all', 'all', 'off', 'off', 'count', 'count0', 'empty'])
        n = self.nrows
        if mode == 'all':
            off, size, cnt = 0, n, 0
        elif mode == 'off':
            off = r.randint(0, n)
            size = r.randint(0, n - off)
            cnt = 0
        elif mode == 'count':
            off = r.randint(0, n)
            cnt = r.randint(0, n - off)
            size = cnt + r.randint(0, 3)
        elif mode == 'count0':
            off, size, cnt = r.randint(0, n), r.randint(0, 2), 0
            if off + size > n:
                size = 0
        else:
            off, size, cnt = r.choice([0, n, n + 3]), 0, 0
        if r.random() < bad:
            k = r.choice(['count>size', 'beyond', 'beyond1'])
            if k == 'count>size':
                cnt = size + r.randint(1, 3)
            elif k == 'beyond':
                off, size, cnt = n, r.randint(1, 3), 0
            else:
                off, size, cnt = max(0, n - 1), 2, r.choice([0, 2])
        t = self.cols[c][2]
        vals = []
        for _ in range(size):
            if T == 'Double' and t in INTS:
                while True:
                    v = 'd:%016x' % (r.choice(DBL_EDGE) if r.random() < 0.6 else dbits(r.uniform(-5e9, 5e9)))
                    if in_domain(int(v[2:], 16), t):
                        break
            else:
                v = self.elt_val(T, t)
            vals.append(v)
            self.note_write(c, v)
        ref = ('wcol_n %s' % hexs(self.cols[c][0])) if r.random() < 0.5 else 'wcol_i %d' % c
        return '%s %s %d %d %d %s' % (ref, T, off, cnt, size, ' '.join(vals))

    def elt_for_read(self, c, foreign):
        t = self.cols[c][2]
        if t == 'String':
            return 'String'
        if t == 'Double':
            if foreign and self.r.random() < 0.3:
                return 'Float'
            if foreign and self.dsafe[c]:
                return self.r.choice(INTS + NARROW[:4])
            return 'Double'
        if t == 'Bool':
            return self.r.choice(INTS + ['Double'] + NARROW)
        if not foreign:
            return t
        return self.r.choice([x for x in INTS + ['Double'] + NARROW if x != t])

    def r_col(self, foreign=0.2, bad=0.0):
        r = self.r
        c = r.randrange(len(self.cols))
        T = self.elt_for_read(c, r.random() < foreign)
        n = self.nrows
        ref_n = r.random() < 0.5
        ref = hexs(self.cols[c][0]) if ref_n else '%d' % c
        k = r.choice(['resize', 'resize', 'fit', 'fit', 'count', 'count'])
        if r.random() < bad:
            k = r.choice(['off>rows', 'toobig', 'small'])
        if k == 'resize':
            return 'rcol_%s %s %s 1 %d %d' % ('n' if ref_n else 'i', ref, T, r.randint(0, n), r.choice([0, 0, 3, n + 2]))
        if k == 'fit':
            off = r.randint(0, n)
            return 'rcol_%s %s %s 0 %d %d' % ('n' if ref_n else 'i', ref, T, off, r.randint(0, n - off))
        if k == 'count':
            off = r.randint(0, n)
            cnt = r.randint(0, n - off)
            rs = r.randint(0, 1)
            pre = r.choice([0, cnt, cnt + 2]) if rs else cnt + r.randint(0, 2)
            return 'rcolc_%s %s %s %d %d %d %d' % ('n' if ref_n else 'i', ref, T, cnt, rs, off, pre)
        if k == 'off>rows':
            return 'rcol_%s %s %s 1 %d 0' % ('n' if ref_n else 'i', ref, T, n + r.randint(1, 3))
        if k == 'toobig':
            return 'rcol_%s %s %s 0 %d %d' % ('n' if ref_n else 'i', ref, T, r.randint(0, n), n + 1)
        return 'rcolc_%s %s %s %d 0 0 %d' % ('n' if ref_n else 'i', ref, T, 3, 2)

    def r_any(self, oob=0.05):
        r = self.r
        k = r.choice(['row', 'row', 'cells', 'cell_n', 'cell_i', 'col', 'col', 'nrows', 'colidxs', 'colnames'])
        if k == 'colidxs':          # colIndex(vector<string>): any selection, repeats allowed, now and then an unknown name
            ns = [self.cols[r.randrange(len(self.cols))][0] for _ in range(r.randint(0, 5))]
            if r.random() < 0.1:
                ns.insert(r.randint(0, len(ns)), 'nosuch')
            return 'colidxs %d %s' % (len(ns), ' '.join(hexs(n) for n in ns))
        if k == 'colnames':         # colName(vector<unsigned>)
            ix = [r.randrange(len(self.cols)) for _ in range(r.randint(0, 5))]
            if r.random() < 0.1:
                ix.insert(r.randint(0, len(ix)), len(self.cols) + r.randint(0, 2))
            return 'colnames %d %s' % (len(ix), ' '.join('%d' % i for i in ix))
        if k == 'row':
            return 'rrow %d' % self.row(oob)
        if k == 'cells':
            cs = r.sample(range(len(self.cols)), r.randint(1, min(4, len(self.cols))))
            return 'rcells %d %d %s' % (self.row(oob), len(cs), ' '.join(hexs(self.cols[c][0]) for c in cs))
        if k == 'cell_n':
            return 'rcell_n %d %s' % (self.row(oob), hexs(self.cols[r.randrange(len(self.cols))][0]))
        if k == 'cell_i':
            return 'rcell_i %d %d' % (self.row(oob), r.randrange(len(self.cols)))
        if k == 'col':
            return self.r_col()
        return 'nrows'

    def dump(self, lines):
        """read everything back through all three paths"""
        lines.append('nrows')
        for row in range(self.nrows):
            lines.append('rrow %d' % row)
        for c, (n, u, t) in enumerate(self.cols):
            T = self.elt_for_read(c, False)
            lines.append('rcol_i %d %s 1 0 0' % (c, T))
        if self.nrows:
            row = self.r.randrange(self.nrows)
            lines.append('rcells %d %d %s' % (row, len(self.cols), ' '.join(hexs(n) for n, _, _ in reversed(self.cols))))
            for c in range(len(self.cols)):
                lines.append('rcell_i %d %d' % (row, c))


class C15(Prop):
    id = 'C15'
    driver = 'drv_C15'
    model = 'C15'
    level_text = ('Machine-checked Coq theorems about a DataFrame model that keeps the frame as its list of rows and replays the '
                  "library's calls (rows(n), writeRow, writeCells by name/index, writeColumn with offset/count, readRow, readCells, "
                  'readCell, both readColumn overloads, colIndex/colName, reopen) with the code\'s order of checks and exception classes, '
                  'and about a specification that keeps only the log of accepted changes and answers every read pointwise (last '
                  'assignment to (row, column) since the row last (re)appeared, else zero / ""): history_refines (every list of '
                  'operations: the model answers each line as the specification demands), the per-path forms of cell_last_write_wins '
                  '(write_cell_effect, write_column_effect, write_effect; read_row_cells, read_cell_value, read_column_cells), '
                  'unwritten_zero, resize_keeps_surviving_rows, schema_constant, row_oob_rejected / column_oob_rejected, history_wf '
                  '(rows as wide as the schema, every cell of its column\'s type). Tied to the library by a history-based correspondence '
                  'run on real files (sanitizer build); every answer of the library is judged by the extracted pointwise specification.')
    level_note = ('Trusted: Coq kernel; extraction and the driver glue; HDF5 (compound dataset, set_extent, partial compound I/O, member '
                  'conversion) is modelled, not verified, and exercised by the run. Model and specification share the validation of a '
                  "call's arguments (plan_*) and HDF5's member conversion (conv); they differ in the data path (list surgery vs. log "
                  'lookup), which is what the refinement proves. Axioms: only those Flocq\'s binary64 definitions bring (stdlib '
                  'Reals/classic), through the int -> double member conversion.')
    technique = 'Coq refinement proof (row-list model vs. pointwise log specification) + history correspondence on real files'
    nontrivial_rule = ('a case is one history on a fresh file: createDataFrame with 1..8 columns over Bool/Int32/UInt32/Int64/UInt64/'
                       'Double/String (distinct names incl. UTF-8, blanks, "/"), then 8..30 steps of rows(n) (grow, shrink, 0, same), '
                       'writeRow (full / partial), writeCells by name / by index (the std::vector<Cell> built through ten C++ construction routes: fresh, assigned, pre-sized, reversed, rotated, swapped, erased, inserted, copied, moved; returned Cells are copied, moved and assigned before they are printed), writeCell, writeColumn by name / index (offset, count, '
                       'count 0, empty vector), each followed by reads through a random one of the three paths (readColumn with resize '
                       'on/off, offset, explicit count, smaller and larger caller vectors), reopen ro|rw, and a final dump of every row, '
                       'every column and every cell of one row; ~15 % of the written values are of another convertible type (integer '
                       'clamping, double truncation at every integer boundary, Bool into numeric columns); a malformed stream: rows and '
                       'columns out of range, count > size, slabs beyond the last row, unknown names, duplicate cells, empty cell lists, '
                       'empty Variants, String into numeric and numeric into Bool/String members, writes on a read-only file, rejected '
                       'creates. Excluded (undefined behaviour inside HDF5\'s conversion): NaN -> integer member, 2^63 -> Int64, 2^64 -> '
                       'UInt64, and reading a Double column that may hold such values as integers. Non-trivial = the model reaches an OK '
                       'outcome; distinct = distinct case text')
    assumptions = ['HDF5: a 1-D compound dataset keeps surviving rows on H5Dset_extent and zero-fills new ones; a write of a subset of '
                   'members leaves the others untouched; members unknown to the file type are skipped; member conversion clamps integers, '
                   'truncates doubles toward zero, rounds integers to the nearest double',
                   'strings contain no NUL byte; column names are non-empty and distinct; row counts stay far below 2^63 '
                   '(rows(2^64-1) is accepted by the library and rows() then throws -- noted, outside the generator)',
                   'readColumn by a name the frame does not have transfers nothing and leaves the buffer unspecified (zeroed for 4-byte, '
                   'untouched for 8-byte elements): outside the domain (model: UB, specification: ANY); writeCells / writeColumn by such a '
                   'name are silently ignored by the code and by model and specification alike',
                   'double -> integer member conversion of NaN, of 2^63 into Int64 and of 2^64 into UInt64 is undefined behaviour inside '
                   'HDF5 (observed on this platform: INT_MIN / INT64_MIN / 0 / 2^63, INT64_MIN, 0); excluded from the domain (model: UB, '
                   'specification: ANY)',
                   'the column templates are exercised for T in Int32 UInt32 Int64 UInt64 Double String Int8 Int16 UInt8 UInt16 Float (HDF5 converts; a float equal to 2^31 / 2^32 / 2^63 / 2^64 into an integer member is the same undefined cast as for doubles and excluded) and Char (refused: no memory type); ',
                   'std::vector<bool> cannot be passed to readColumn/writeColumn (does not compile): Bool columns are read through the '
                   'column path as integers / doubles and cannot be written through it']
    trusted_base = ['hand-written model and specification coq/Data/Frame.v (fstep, sstep), tied by the correspondence run',
                    'exception classes nix::hdf5::H5Exception and nix::hdf5::H5Error are identified (both are failures of the HDF5 layer)']

    def canon(self, line):
        return line.replace('nix::hdf5::H5Exception', 'nix::hdf5::H5Error')

    # ---- generator -------------------------------------------------------------------------------
    def history(self, rnd, ncols, with_string, nsteps, tag, foreign=0.15, bad=0.04):
        sh = Shadow(rnd, ncols, with_string)
        lines = [sh.new_line(), 'schema', 'nrows']
        n0 = rnd.choice([1, 2, 3, 5, 8, rnd.randint(1, 20)])
        lines.append('rows %d' % n0)
        sh.nrows = n0
        ro = False
        for _ in range(nsteps):
            k = rnd.choice(['rows', 'wrow', 'wrow', 'wcells', 'wcells', 'wcol', 'wcol', 'read', 'read', 'reopen'])
            if ro and k not in ('read', 'reopen'):
                k = 'read' if rnd.random() < 0.8 else k
            if k == 'rows':
                n = rnd.choice([0, sh.nrows, sh.nrows + 1, max(0, sh.nrows - 1), sh.nrows + rnd.randint(1, 6), rnd.randint(0, sh.nrows),
                                rnd.randint(0, 25)])
                lines.append('rows %d' % n)
                if not ro:
                    sh.nrows = n
                lines.append('nrows')
            elif k == 'wrow':
                lines.append(sh.w_row(foreign) if sh.nrows or rnd.random() < 0.3 else 'nrows')
            elif k == 'wcells':
                lines.append(sh.w_cells(foreign) if sh.nrows or rnd.random() < 0.3 else 'nrows')
            elif k == 'wcol':
                lines.append(sh.w_col(foreign, bad))
            elif k == 'read':
                lines.append(sh.r_any())
            else:
                ro = rnd.random() < 0.35
                lines.append('reopen ' + ('ro' if ro else 'rw'))
                lines.append('schema')
            if k in ('wrow', 'wcells', 'wcol') and rnd.random() < 0.8:
                lines.append(sh.r_any())
            if rnd.random() < bad:
                lines.append(rnd.choice(['rrow %d' % (sh.nrows + rnd.randint(0, 2)), 'rcell_i 0 %d' % (len(sh.cols) + rnd.randint(0, 2)),
                                         'wcell %d 0 %s' % (sh.nrows + rnd.randint(0, 2), sh.val_of(sh.cols[0][2])),
                                         sh.r_col(0.2, 1.0), 'colname %d' % len(sh.cols), 'colidx ' + hexs('nosuch')]))
        lines.append('reopen ' + rnd.choice(['ro', 'rw']))
        lines.append('schema')
        sh.dump(lines)
        return Case(with_handles(lines, rnd), tag)

    def generate(self, seed, tier, scale=1):
        rnd = random.Random(seed)
        cases = []
        mult = scale if scale > 1 else (12 if tier != 'quick' else 1)     # widened search (DESIGN section 4): 20x the quick volume
        # 1. every column type on its own, all three write and read paths, shrink / grow / zero
        for t in TYPES:
            sh = Shadow(rnd, 1, True)
            sh.cols = [('v', 'mV', t)]
            L = [sh.new_line(), 'schema', 'nrows', 'rows 4', 'nrows']
            sh.nrows = 4
            if t != 'String':
                L += ['rrow 0', 'rcell_i 3 0', 'rcol_i 0 %s 1 0 0' % sh.elt_for_read(0, False)]      # never written: zero
            L += ['wrow 0 1 ' + sh.value_for(0, False), 'wcell 1 0 ' + sh.value_for(0, False),
                  'wcells_n 2 1 %s %s' % (hexs('v'), sh.value_for(0, False)), 'wcells_i 3 1 0 ' + sh.value_for(0, False)]
            if t != 'Bool':
                L += ['wcol_i 0 %s 1 2 3 %s' % (t, ' '.join(sh.val_of(t) for _ in range(3))), 'rcol_i 0 %s 1 0 0' % t,
                      'wcol_n %s %s 0 0 4 %s' % (hexs('v'), t, ' '.join(sh.val_of(t) for _ in range(4))), 'rcol_n %s %s 0 1 3' % (hexs('v'), t)]
                if t == 'Double':
                    sh.dsafe[0] = False
            L += ['rrow 0', 'rrow 3', 'rcell_n 2 ' + hexs('v'), 'rcells 1 1 ' + hexs('v'),
                  'rows 2', 'nrows', 'rrow 1', 'rrow 2', 'rows 0', 'nrows', 'rrow 0', 'rcol_i 0 %s 1 0 3' % sh.elt_for_read(0, False)]
            if t != 'String':
                L += ['rows 3', 'rrow 0', 'rrow 2', 'rcol_i 0 %s 1 0 0' % sh.elt_for_read(0, False)]          # regrown rows are zero again
            L += ['reopen ro', 'schema', 'nrows']
            cases.append(Case(L, 'single-type'))
        # the String defect in its smallest form (unwritten string cell through each read path)
        for rd in ['rrow 0', 'rcell_i 0 0', 'rcells 0 1 ' + hexs('s'), 'rcol_i 0 String 1 0 0', 'rcol_n %s String 0 0 1' % hexs('s')]:
            cases.append(Case(['new 1 %s s: String' % hexs('s'), 'rows 2', rd, 'nrows'], 'string-unwritten'))
        cases.append(Case(['new 2 %s s: Int32 %s s: String' % (hexs('a'), hexs('s')), 'rows 2', 'wcell 0 0 i32:5', 'rcell_i 0 0',
                           'rcol_i 0 Int32 1 0 0', 'rrow 0'], 'string-unwritten'))
        # every construction route of a writeCells request (fresh, assigned, pre-sized, reversed, rotated, swapped, erased,
        # inserted, copied, moved Cells), index- and name-addressed, with column indices other than 0 and in non-ascending order
        a, b, c, d = hexs('a'), hexs('b'), hexs('c'), hexs('d')
        for route in ROUTES:
            L = ['new 4 %s s: Int64 %s %s Int32 %s %s Double %s s: UInt32' % (a, b, hexs('mV'), c, hexs('s'), d), 'rows 4',
                 'wrow 0 4 i64:100 i32:10 d:3ff8000000000000 u32:7',
                 'wcells_i:%s 1 1 2 d:4004000000000000' % route, 'rrow 1',
                 'wcells_i:%s 1 1 1 i32:20' % route, 'rrow 1',
                 'wcells_i:%s 2 3 3 u32:9 0 i64:-7 2 d:bfe0000000000000' % route, 'rrow 2',
                 'wcells_i:%s 3 2 2 d:400e000000000000 0 i64:3000' % route, 'rrow 3',
                 'wcells_n:%s 3 3 %s u32:5 %s i32:-4 %s i64:1' % (route, d, b, a), 'rrow 3',
                 'wcells_i:%s 0 4 3 u32:1 2 d:3ff0000000000000 1 i32:2 0 i64:3' % route, 'rrow 0',
                 'rcells 2 4 %s %s %s %s' % (d, c, b, a), 'rcells 3 3 %s %s %s' % (b, d, a),
                 'rcol_i 0 Int64 1 0 0', 'rcol_i 1 Int32 1 0 0', 'rcol_i 2 Double 1 0 0', 'rcol_i 3 UInt32 1 0 0',
                 'reopen ro', 'rrow 1', 'rrow 2', 'rrow 3']
            cases.append(Case(L, 'cell-routes'))
        # the column templates with the element types Hydra accepts beyond the six a Variant holds: int8/int16/uint8/uint16/float
        # written into and read from columns of every type (HDF5 converts), char refused
        for T in NARROW:
            sh = Shadow(rnd, 1, True)
            sh.cols = [('i', '', 'Int32'), ('u', '', 'UInt32'), ('l', '', 'Int64'), ('q', '', 'UInt64'), ('d', 's', 'Double'),
                       ('b', '', 'Bool'), ('s', '', 'String')]
            sh.dsafe = [True] * 7
            L = [sh.new_line(), 'rows 6', 'wrow 0 7 i32:-5 u32:4000000000 i64:-9000000000 u64:18446744073709551615 d:400c000000000000 b:1 ' + hexs('x')]
            for c in range(5):
                L.append('wcol_i %d %s 1 0 5 %s' % (c, T, ' '.join(sh.elt_val(T, sh.cols[c][2]) for _ in range(5))))
                L.append('rcol_i %d %s 1 0 0' % (c, sh.cols[c][2]))
                L.append('rcol_n %s %s 1 0 0' % (hexs(sh.cols[c][0]), T))
            L += ['wcol_i 5 %s 0 0 1 %s' % (T, sh.elt_val(T)), 'wcol_i 6 %s 0 0 1 %s' % (T, sh.elt_val(T)), 'rcol_i 5 %s 1 0 0' % T,
                  'rcol_i 6 %s 1 0 0' % T, 'rcol_i 5 %s 0 2 3' % T, 'rcolc_i 0 %s 2 0 1 4' % T, 'rcol_i 0 %s 1 7 0' % T,
                  'wcol_i 0 %s 0 4 2 %s' % (T, ' '.join(sh.elt_val(T, 'Int32') for _ in range(2))), 'rrow 0', 'rrow 5',
                  'reopen ro', 'rcol_i 3 %s 1 0 0' % T, 'wcol_i 0 %s 0 0 1 %s' % (T, sh.elt_val(T, 'Int32'))]
            cases.append(Case(L, 'narrow-elements'))
        L = ['new 2 %s s: Int32 %s s: String' % (hexs('a'), hexs('s')), 'rows 2', 'wcol_i 0 Char 0 0 2 c:65 c:-1', 'wcol_i 0 Char 0 0 0',
             'wcol_i 0 Char 0 3 2 c:65 c:66', 'wcol_n %s Char 0 0 1 c:1' % hexs('nosuch'), 'wcol_i 1 Char 0 0 1 c:1', 'wcol_i 2 Char 0 0 1 c:1',
             'rcol_i 0 Char 1 0 0', 'rcol_i 0 Char 1 3 0', 'rcol_i 0 Char 0 0 0', 'rcolc_i 0 Char 3 0 0 2', 'rcol_i 1 Char 1 0 0', 'rcol_i 5 Char 1 0 0',
             'rrow 0', 'reopen ro', 'wcol_i 0 Char 0 0 1 c:1', 'rcol_i 0 Char 1 0 0']
        cases.append(Case(L, 'narrow-elements'))
        # vector overloads of colIndex / colName
        for k in range(1, 5):
            sh = Shadow(rnd, 2 * k, False)
            ns = [c[0] for c in sh.cols]
            L = [sh.new_line(), 'colidxs %d %s' % (len(ns), ' '.join(hexs(n) for n in ns)),
                 'colidxs %d %s' % (len(ns), ' '.join(hexs(n) for n in reversed(ns))), 'colidxs 0', 'colidxs 2 %s %s' % (hexs(ns[-1]), hexs(ns[-1])),
                 'colidxs 3 %s %s %s' % (hexs(ns[0]), hexs('nosuch'), hexs(ns[1])), 'colidxs 1 ' + hexs('nosuch'),
                 'colnames %d %s' % (len(ns), ' '.join('%d' % i for i in range(len(ns)))),
                 'colnames %d %s' % (len(ns), ' '.join('%d' % i for i in reversed(range(len(ns))))), 'colnames 0',
                 'colnames 3 0 %d 1' % len(ns), 'colnames 1 %d' % (len(ns) + 5), 'colnames 2 1 1', 'reopen ro',
                 'colidxs 2 %s %s' % (hexs(ns[1]), hexs(ns[0])), 'colnames 2 1 0']
            cases.append(Case(L, 'vector-overloads'))
        # several live handles to the one frame: a resize / write through one handle, every read through every other one
        a, s = hexs('a'), hexs('s')
        for act in HANDLES:
            L = ['new 2 %s s: Int32 %s s: Double' % (a, s), 'rows 3']
            L += ['@%s nrows' % h for h in HANDLES] + ['@%s rcol_i 0 Int32 1 0 0' % h for h in HANDLES]          # every handle has looked
            L += ['@%s rows 6' % act, '@%s wcol_i 0 Int32 0 0 6 i32:1 i32:2 i32:3 i32:4 i32:5 i32:6' % act]
            L += ['@%s nrows' % h for h in HANDLES] + ['@%s rcol_i 0 Int32 1 0 0' % h for h in HANDLES] + \
                 ['@%s rcol_n %s Int32 1 2 0' % (h, a) for h in HANDLES] + ['@%s rrow 5' % h for h in HANDLES]
            L += ['@%s rows 2' % act]
            L += ['@%s nrows' % h for h in HANDLES] + ['@%s rcol_i 0 Int32 1 0 9' % h for h in HANDLES] + \
                 ['@%s rcol_i 0 Int32 1 3 0' % h for h in HANDLES] + ['@%s rrow 2' % h for h in HANDLES] + ['@%s rcell_i 1 0' % h for h in HANDLES]
            L += ['@%s wcell 1 1 d:4004000000000000' % act] + ['@%s rrow 1' % h for h in HANDLES] + ['@%s schema' % h for h in HANDLES]
            L += ['reopen ro'] + ['@%s nrows' % h for h in HANDLES] + ['@%s rows 4' % act] + ['@%s nrows' % h for h in HANDLES]
            L += ['reopen rw', '@%s rows 0' % act] + ['@%s nrows' % h for h in HANDLES] + ['@%s rcol_i 1 Double 1 0 0' % h for h in HANDLES]
            cases.append(Case(L, 'handles'))
        # 2. schemas 1..8: random histories
        for i in range(1200 * mult):
            ncols = 1 + i % 8
            cases.append(self.history(rnd, ncols, with_string=(i % 5 >= 3), nsteps=rnd.randint(8, 30), tag='history'))
        # 3. conversions at the boundaries: every special double into every integer type, every integer extreme into every type
        for t in INTS:
            vals = [('d:%016x' % b) for b in DBL_EDGE if in_domain(b, t)]
            for s in INTS + ['Bool']:
                vals += ['%s:%d' % (PFX[s], z) for z in INT_SPECIAL[s]] if s != 'Bool' else ['b:0', 'b:1']
            L = ['new 2 %s s: %s %s s: Double' % (hexs('x'), t, hexs('d')), 'rows %d' % len(vals)]
            for i, v in enumerate(vals):
                L.append('wcell %d 0 %s' % (i, v))
            L += ['rcol_i 0 %s 1 0 0' % t, 'rcol_i 0 Double 1 0 0'] + ['rcol_i 0 %s 1 0 0' % o for o in INTS if o != t]
            for i, v in enumerate(vals):
                if not v.startswith('d:'):
                    L.append('wcell %d 1 %s' % (i, v))
            L += ['rcol_i 1 Double 1 0 0', 'rrow 0', 'rrow %d' % (len(vals) - 1)]
            cases.append(Case(L, 'conversion'))
        # 4. malformed stream
        for i in range(300 * mult):
            ncols = rnd.randint(1, 5)
            sh = Shadow(rnd, ncols, with_string=False)
            L = [sh.new_line(), 'rows 3']
            sh.nrows = 3
            L.append(sh.w_row(0))
            bad = []
            c = rnd.randrange(ncols)
            n, _, t = sh.cols[c]
            bad += ['wrow 3 %d %s' % (ncols, ' '.join(sh.val_of(x[2]) for x in sh.cols)),
                    'wrow 0 %d %s' % (ncols + 1, ' '.join(sh.val_of(x[2]) for x in sh.cols + [sh.cols[0]])),
                    'wrow 0 0', 'wcells_i 0 0', 'wcells_n 0 0', 'rcells 0 0',
                    'wcells_i 0 2 %d %s %d %s' % (c, sh.val_of(t), c, sh.val_of(t)),
                    'wcells_n 0 2 %s %s %s %s' % (hexs(n), sh.val_of(t), hexs(n), sh.val_of(t)),
                    'rcells 0 2 %s %s' % (hexs(n), hexs(n)),
                    'wcell 0 %d %s' % (ncols, sh.val_of(t)), 'wcell 0 %d %s' % (ncols + 7, sh.val_of(t)),
                    'wcell 3 %d %s' % (c, sh.val_of(t)), 'wcell 18446744073709551615 %d %s' % (c, sh.val_of(t)),
                    'wcell 0 %d none' % c, 'wrow 0 1 none', 'wcells_n 0 1 %s none' % hexs(n),
                    'wcell 0 %d %s' % (c, hexs('text')),
                    'wcells_n 0 1 %s %s' % (hexs('nosuch'), sh.val_of('Int32')),
                    'wcells_n 0 2 %s %s %s %s' % (hexs('nosuch'), sh.val_of('Int32'), hexs(n), sh.val_of(t)),
                    'rcell_n 0 ' + hexs('nosuch'), 'rcells 0 2 %s %s' % (hexs(n), hexs('nosuch')), 'rcell_i 0 %d' % ncols,
                    'rrow 3', 'rrow 18446744073709551615', 'rcells 3 1 ' + hexs(n), 'rcell_i 3 %d' % c,
                    'colidx ' + hexs('nosuch'), 'colidx ' + hexs(n), 'colname %d' % ncols, 'colname %d' % c,
                    'wcol_i %d Int32 0 0 1 i32:1' % ncols, 'rcol_i %d Int32 1 0 0' % ncols,
                    'wcol_n %s Int32 0 0 2 i32:1 i32:2' % hexs('nosuch'), 'wcol_n %s Int32 2 0 2 i32:1 i32:2' % hexs('nosuch'),
                    'wcol_n %s Int32 7 0 0' % hexs('nosuch'),
                    # reading a column the frame does not have: only the zero-element read and the out-of-range slab are
                    # deterministic (otherwise the buffer comes back unspecified: zeroed or untouched, depending on the element size)
                    'rcol_n %s Int32 1 3 0' % hexs('nosuch'), 'rcol_n %s Int32 0 2 2' % hexs('nosuch'), 'rcol_n %s Int64 0 1 0' % hexs('nosuch'),
                    'wcol_i %d String 0 0 1 %s' % (c, hexs('x')), 'wcol_i %d String 0 0 0' % c, 'rcol_i %d String 1 0 0' % c,
                    sh.w_col(0, 1.0), sh.w_col(0, 1.0), sh.r_col(0, 1.0), sh.r_col(0, 1.0),
                    'rcolc_i %d %s 1 1 18446744073709551615 0' % (c, sh.elt_for_read(c, False))]
            T = sh.elt_for_write(c, False)
            bad.append("wcol_i %d %s 18446744073709551615 1 1 %s" % (c, T, sh.elt_val(T)))
            if t == 'Bool':
                bad += ['wcell 0 %d i32:1' % c, 'wcell 0 %d d:3ff0000000000000' % c]
            rnd.shuffle(bad)
            for b in bad[:rnd.randint(8, 20)]:
                L.append(b)
                if rnd.random() < 0.3:
                    L.append(sh.r_any(0))
            L += ['reopen ro', 'rows 5', 'nrows', sh.w_row(0), sh.w_cells(0), sh.w_col(0), 'wcol_i 0 %s 0 0 0' % sh.elt_for_write(0, False),
                  'rows 0', 'rows 3', 'reopen rw']
            sh.dump(L)
            cases.append(Case(with_handles(L, rnd, 0.4), 'malformed'))
        # rejected creates.  Since /repo a3cfdfc the front-end refuses an empty column list and a Nothing column before
        # anything is created; one create that fails AFTER the entity group exists is left (an empty column name,
        # DESIGN.md section 9 item 26 / C08), so a case ends at a rejected create.  The order of the checks is exercised:
        # per column first the type, then the duplicate name.
        a, b = hexs('a'), hexs('b')
        for L in ['new 0', 'new 2 %s s: Int32 %s s: Int32' % (a, a), 'new 2 %s s: Int32 %s s: Int8' % (a, b),
                  'new 1 %s s: Float' % a, 'new 1 %s s: Char' % a, 'new 2 %s s: Int32 %s s: Nothing' % (a, b),
                  'new 1 %s s: Nothing' % a, 'new 1 %s s: Opaque' % a,
                  'new 3 %s s: Int8 %s s: Int32 %s s: Int32' % (a, b, b),        # type of column 0 before the duplicate
                  'new 3 %s s: Int32 %s s: Int32 %s s: Nothing' % (a, a, b),     # duplicate at column 1 before Nothing at column 2
                  'new 3 %s s: Int32 %s s: Nothing %s s: Int32' % (a, b, a),     # Nothing at column 1 before the duplicate at column 2
                  'new 2 %s s: Int32 %s s: Nothing' % (a, a),                    # same column: the type is checked first
                  'new 2 %s s: Double s: s: Int32' % a, 'new 2 s: s: Nothing %s s: Int32' % a]:
            cases.append(Case([L], 'malformed-create'))
        return cases

    ENTRY_POINTS = {
        'rows(n)': ['rows'], 'rows()': ['nrows'], 'columns()': ['schema'],
        'colIndex(string)': ['colidx'], 'colName(unsigned)': ['colname'],
        'colIndex(vector<string>)': ['colidxs'], 'colName(vector<unsigned>)': ['colnames'],
        'writeRow': ['wrow'], 'writeCell': ['wcell'], 'writeCells (cells by name)': ['wcells_n'], 'writeCells (cells by index)': ['wcells_i'],
        'readRow': ['rrow'], 'readCells': ['rcells'], 'readCell(row, name)': ['rcell_n'], 'readCell(row, col)': ['rcell_i'],
        'writeColumn<T>(name, ..)': ['wcol_n'], 'writeColumn<T>(col, ..)': ['wcol_i'],
        'readColumn<T>(name, vals, resize, offset)': ['rcol_n'], 'readColumn<T>(col, vals, resize, offset)': ['rcol_i'],
        'readColumn<T>(name, vals, count, resize, offset)': ['rcolc_n'], 'readColumn<T>(col, vals, count, resize, offset)': ['rcolc_i'],
        'Block::createDataFrame': ['new'],
    }

    def extra_checks(self, ctx):
        """which public entry points the generated cases call, and how often (evidence only)"""
        cases = self.generate(ctx['seed'], ctx['tier'], 1)
        cmd, elt_w, elt_r, routes, ctors = {}, {}, {}, {}, {'Cell(name|unsigned, Variant)': 0, 'Cell(name, const char*) / Cell(name, T) / Cell(int, T)': 0}
        for c in cases:
            for l in c.lines:
                tk = l.split(' ')
                if tk[0].startswith('@'):
                    tk = tk[1:]
                base = tk[0].split(':')[0]
                cmd[base] = cmd.get(base, 0) + 1
                if base in ('wcol_n', 'wcol_i'):
                    elt_w[tk[2]] = elt_w.get(tk[2], 0) + 1
                if base in ('rcol_n', 'rcol_i', 'rcolc_n', 'rcolc_i'):
                    elt_r[tk[2]] = elt_r.get(tk[2], 0) + 1
                if base in ('wcells_n', 'wcells_i'):
                    rt = tk[0].split(':')[1] if ':' in tk[0] else 'brace'
                    typed = rt.endswith('/typed')
                    rt = rt.split('/')[0]
                    routes[rt] = routes.get(rt, 0) + 1
                    ctors['Cell(name, const char*) / Cell(name, T) / Cell(int, T)' if typed else 'Cell(name|unsigned, Variant)'] += 1
        ctx['ev']['entry_points'] = {k: sum(cmd.get(x, 0) for x in v) for k, v in self.ENTRY_POINTS.items()}
        ctx['ev']['column_template_element_types'] = {'writeColumn<T>': elt_w, 'readColumn<T>': elt_r}
        ctx['ev']['writeCells_construction_routes'] = routes
        ctx['ev']['cell_constructors'] = ctors
        ctx['ev']['cell_copy_move_assign_on_read'] = cmd.get('rcells', 0)
        hs = {}
        for c in cases:
            for l in c.lines:
                h = l.split(' ')[0][1:] if l.startswith('@') else 'c (default)'
                hs[h] = hs.get(h, 0) + 1
        ctx['ev']['handle_routes'] = {'legend': {'c': 'the handle createDataFrame returned / first fetched after reopen', 'k': 'kept second handle by name',
                                                 'i': 'kept handle by id', 'g': 'kept handle through a Group', 'f': 'fresh handle by name',
                                                 'x': 'fresh handle by index', 'y': 'fresh handle through the Group'}, 'lines': hs}
        ctx['ev']['entry_points_not_covered'] = ['readColumn/writeColumn<bool>: std::vector<bool> does not compile with Hydra',
                                                 'createDataFrame with an explicit Compression argument (pure forward; compression is not observable through the API)',
                                                 'DataFrameDimension::ticks<T> (covered by C13)']
        return []

    # ---- reporting -------------------------------------------------------------------------------
    def signature(self, case, impl, spec):
        k = next((i for i, (a, b) in enumerate(zip(impl, spec)) if b != 'ANY' and not self.compare(a, b)), 0)
        tk = case.lines[k].split(' ')
        cmd = tk[1] if tk[0].startswith('@') and len(tk) > 1 else tk[0]
        a = impl[k]
        if a.startswith('CRASH'):
            path = {'rrow': 'readRow', 'rcell_i': 'readCell', 'rcell_n': 'readCell', 'rcells': 'readCells'}.get(cmd, 'readColumn' if cmd.startswith('rcol') else cmd)
            has_string = ' String' in case.lines[0]
            return {'defect': 'crash', 'what': ('never-written-string' if has_string else a[6:46]),
                    'path': ('Variant' if path in ('readRow', 'readCell', 'readCells') else path)}
        return {'defect': 'wrong-answer', 'cmd': cmd}

    def describe(self, case, impl, spec):
        k = next((i for i, (a, b) in enumerate(zip(impl, spec)) if b != 'ANY' and not self.compare(a, b)), 0)
        return ('line %d `%s`: implementation answers %r where the specification requires %r'
                % (k + 1, case.lines[k][:200], impl[k][:300], spec[k][:300]))


PROP = C15()
