"""C06 — MultiTag retrieval returns exactly region i for position index i.
Model coq/Access/Retrieval.v (getOffsetAndCount(MultiTag ...) with its three phases, taggedData, featureData),
specification coq/Access/RetrievalSpec.v, theorems coq/Access/RetrievalProofs.v; correspondence through the
public API on arrays filled with their own flat index."""
import random
from engine import Prop, Case
import retr_gen as G


class C06(Prop):
    id = 'C06'
    driver = 'drv_C06'
    model = 'C06'
    search_scale = 3
    search_budget_s = 300
    technique = ('Coq proof about a hand-written model of src/util/dataAccess.cpp (multi-tag part) that calls the translator-generated '
                 'index conversions + correspondence through the public API on arrays filled with their own flat index, judged by an '
                 'extracted brute-force specification (linear scan over the axis coordinates, row i of positions / extents)')
    level_text = ('Machine-checked Coq theorems (coq/Properties/Properties_C06.v), unbounded in rank, shape, number of positions and '
                  'length of the index list, no hypothesis left about the index conversions: for the repaired behaviour retrieval for '
                  'position index i returns exactly the region whose start is row i of the positions array and whose size is row i of the '
                  'extents array (single element at or after the position without extents or with a zero extent), under the same '
                  'inclusive / exclusive and unspecified-dimension rules as for a Tag (mtag_exact); retrieval for an index list is the list '
                  'of the single retrievals, the empty list standing for all positions (mtag_list_is_map, mtag_all_positions); an index '
                  'beyond the number of positions raises nix::OutOfBounds (mtag_index_oob); an empty index list is defined behaviour '
                  '(mtag_empty_list_defined; undefined in the pinned code: mtag_empty_list_today); indexed features return slice i along '
                  'the first dimension, tagged features are cut like references, untagged ones are returned whole (mtag_feature_indexed, '
                  'mtag_feature_dispatch); the repaired model answers what the extracted oracle answers (mtag_meets_oracle). The '
                  'Exclusive / unspecified-dimension case is refuted by a witness (open finding pinned by testFlexibleTagging). The last '
                  'obligation current_is_repaired stays open until the fix: commits land.')
    level_note = ('Trusted: Coq kernel, Flocq, stdlib real-number axioms, translator, extraction and driver glue; the model of '
                  'dataAccess.cpp is hand-written and tied by the correspondence run (offset / count vectors, shapes and element ids of '
                  'every view returned, for single indices and index lists, exception classes, sanitizer aborts). HDF5 reads of the '
                  'positions / extents rows are modelled as row-major array reads.')
    nontrivial_rule = ('a case is one array set-up (rank 1..3, every combination of descriptor kinds) with a multi-tag whose positions '
                       '(1-D on 1-D data, N x D with D fewer / equal / more than the rank, N = 0..8) and extents (absent / present, with '
                       'zero, negative, sub-ulp, exact, beyond-the-data rows) are aimed at the coordinates, followed by single-index and '
                       'index-list queries (duplicates, out of range, empty list) of getOffsetAndCount, taggedData and featureData in all '
                       'three modes; non-trivial = the model returned data for at least one query')
    assumptions = ['coordinates of a sampled axis are the doubles positionAt() computes; the end of a region is position (+) extent in '
                   'binary64, scaled by the unit factor exactly as the code scales it',
                   'the specification judges arrays whose descriptors cover the data, positions arrays that are 1-D on one-dimensional '
                   'data or N x D, extents of the same shape, and units that scale; everything else is replayed model-vs-implementation only',
                   'units: atomic SI units of power 1 and "none"',
                   'set / data-frame positions below 2^52']
    trusted_base = ['hand model coq/Access/Retrieval.v of src/util/dataAccess.cpp, src/MultiTag.cpp, src/DataView.cpp (constructor), tied by correspondence',
                    'translator for getSampledIndex / getSetIndex / getDataFrameIndex; hand model of getIndex (C07)',
                    'HDF5 hyperslab reads (positions / extents rows, DataView contents) deliver the elements of the box offset/count']

    _ub_share = 1.0

    def canon(self, line):
        return line.replace('ERR std::out_of_range', 'ERR nix::OutOfBounds')

    # -------------------------------------------------------------- generator
    def one_case(self, rnd, kinds, flavour):
        rank = len(kinds)
        consistent = flavour != 'inconsistent'
        shape = G.random_shape(rnd, rank, rank == 1 and rnd.random() < 0.1)
        ref = G.make_array(rnd, '0', kinds, shape, consistent)
        N = rnd.choice([1, 1, 2, 3, 3, 4, 5, 8]) if flavour != 'empty' else 0
        # width of the positions array
        if rank == 1:
            D = rnd.choice([0, 0, 1, 1, 2])          # 0 = 1-D positions array
        else:
            D = rnd.choice([rank, rank, rank, rank - 1, rank + 1, 1])
            if flavour == 'pad':
                D = rnd.randrange(1, rank)
            if flavour == 'malformed' and rnd.random() < 0.5:
                D = 0                                  # 1-D positions on n-D data
        width = max(D, 1)
        with_ext = flavour in ('ext', 'units') or (flavour not in ('posonly', 'empty') and rnd.random() < 0.6)
        unit_style = rnd.choice(['none', 'none', 'same', 'scaled', 'bad']) if flavour != 'units' else rnd.choice(['same', 'scaled', 'bad'])
        if flavour == 'inconsistent':
            unit_style = 'none'
        styles = [unit_style if rnd.random() < 0.8 else 'none' for _ in range(width)]
        units = []
        for k in range(min(width, rank)):
            u, _ = G.tag_unit_for(rnd, ref.dims[k], styles[k])
            units.append(u)
        pos, ext = [], []
        for i in range(N):
            for k in range(width):
                if k < rank:
                    row_ext = rnd.choice(['present', 'present', 'zero']) if with_ext else 'absent'
                    p, pk, a = G.pick_position(rnd, ref.dims[k], shape[k])
                    if row_ext == 'absent':
                        e = 0.0
                    elif row_ext == 'zero':
                        e = 0.0
                    else:
                        e, _ = G.pick_extent(rnd, ref.dims[k], shape[k], p, a)
                    # convert to the tag's unit of this column
                    du = ref.dims[k].unit
                    if k < len(units) and units[k] != 'none' and du is not None and G.BASE.get(units[k]) == G.BASE.get(du):
                        fct = G.FACTOR[du] / G.FACTOR[units[k]]
                        p, e = p * fct, e * fct
                else:
                    p, e = rnd.uniform(-2, 5), rnd.uniform(0, 2)
                pos.append(p)
                ext.append(e)
        if all(u == 'none' for u in units) and rnd.random() < 0.7:
            units = []
        elif units and rnd.random() < 0.2:
            units = units[:rnd.randrange(1, len(units) + 1)]
        pshape = [N] if D == 0 else [N, D]
        lines = ['reset', ref.line()]
        feats = []
        nfeat = rnd.choice([0, 1, 1, 2, 3]) if flavour != 'plain' else 0
        for j in range(nfeat):
            link = rnd.choice(G.LINKS)
            fa = G.feature_array(rnd, str(1 + j), ref, link, N)
            if link == 'tagged' and rnd.random() < 0.6:
                fa = G.Arr(str(1 + j), list(ref.shape), ref.dims)
            lines.append(fa.line())
            feats.append((fa, link))
        ext_l = ext if with_ext else []
        units = G.blanked(rnd, units, self._routes)
        l = 'mtag %d %s %d %s %d %s %d %s' % (len(pshape), ' '.join(str(s) for s in pshape), len(pos), ' '.join(G.enc(p) for p in pos),
                                             len(ext_l), ' '.join(G.enc(e) for e in ext_l), len(units), ' '.join(G.encs(u) for u in units))
        lines.append(' '.join(l.split()))
        lines.append('ref 0')
        for fa, link in feats:
            lines.append('feat %s %s' % (fa.aid, link))

        def idx_list(direct=False):
            # an empty list handed to getOffsetAndCount directly, or to the retrieval functions of a multi-tag without
            # positions, is undefined behaviour in the pinned code (item 19): such a query is only ever the LAST line
            kind = rnd.choice(['all', 'some', 'dup', 'oob', 'empty', 'one', 'rev'])
            if kind == 'empty' and (direct or N == 0):
                kind = 'oob'
            if N == 0 and kind in ('all', 'some', 'rev'):
                kind = 'oob'
            if kind == 'all':
                l = list(range(N))
            elif kind == 'some':
                l = sorted(rnd.sample(range(N), rnd.randrange(1, N + 1))) if N else []
            elif kind == 'dup':
                l = [rnd.randrange(0, max(N, 1)) for _ in range(rnd.randrange(2, 5))]
            elif kind == 'oob':
                l = [rnd.randrange(0, max(N, 1)) for _ in range(rnd.randrange(0, 3))] + [N + rnd.choice([0, 1, 5])]
                rnd.shuffle(l)
            elif kind == 'empty':
                l = []
            elif kind == 'rev':
                l = list(reversed(range(N)))
            else:
                l = [rnd.randrange(0, max(N, 1))]
            return '%d %s' % (len(l), ' '.join(str(x) for x in l)) if l else '0'

        def one_idx():
            return rnd.choice(list(range(N)) + [N, N + 3]) if rnd.random() < 0.2 or N == 0 else rnd.randrange(0, N)

        modes = G.MODES if rnd.random() < 0.5 else [rnd.choice(G.MODES)]
        rc = self._routes
        for m in modes:
            lines.append('moffcnt 0 %s %s' % (m, idx_list(True)))
            lines.append('moffcnt1 0 %s %d' % (m, one_idx()))
        for m in modes:
            if rnd.random() < 0.5:
                lines.append(G.routed(rnd, 'mtagged', [0] + idx_list().split(' '), m, None, rc))
            else:
                lines.append('mtagged 0 %s %s' % (m, idx_list()))
            if rnd.random() < 0.5:
                lines.append(G.routed(rnd, 'mtagged1', [0, one_idx()], m, None, rc))
            else:
                lines.append('mtagged1 0 %s %d' % (m, one_idx()))
        if N and rnd.random() < 0.5:
            # every single index next to the list of all of them (retrieval for a list = list of single retrievals)
            m = rnd.choice(G.MODES)
            lines.append('mtagged 0 %s %d %s' % (m, N, ' '.join(str(i) for i in range(N))))
            for i in range(N):
                lines.append('mtagged1 0 %s %d' % (m, i))
        if N and rnd.random() < 0.08:
            # every public entry point on the same requests: position indices >= 2, the last one, beyond the last one
            for i in sorted(set([min(2, N - 1), N - 1, N, N + 3] + ([rnd.randrange(2, N)] if N > 2 else []))):
                lines += G.all_routes(rnd, 'mtagged1', [0, i], rc)
            l = [N - 1] + [rnd.randrange(0, N) for _ in range(2)] + ([N + 1] if rnd.random() < 0.3 else [])
            lines += G.all_routes(rnd, 'mtagged', [0, len(l)] + l, rc)
            if feats:
                j = rnd.randrange(0, len(feats))
                for i in (N - 1, N):
                    lines += G.all_routes(rnd, 'mfeature1', [j, i], rc)
                lines += G.all_routes(rnd, 'mfeature', [j, len(l)] + l, rc)
        if rnd.random() < 0.1:
            lines.append('mtagged %d %s %s' % (rnd.choice([1, 4]), rnd.choice(G.MODES), idx_list()))
        for j in range(len(feats)):
            for m in (modes if rnd.random() < 0.4 else [rnd.choice(G.MODES)]):
                if rnd.random() < 0.5:
                    lines.append(G.routed(rnd, 'mfeature', [j] + idx_list().split(' '), m, None, rc))
                    lines.append(G.routed(rnd, 'mfeature1', [j, one_idx()], m, None, rc))
                else:
                    lines.append('mfeature %d %s %s' % (j, m, idx_list()))
                    lines.append('mfeature1 %d %s %d' % (j, m, one_idx()))
        if rnd.random() < 0.3:
            lines += G.direct_queries(rnd, ref, rc)
        if N and kinds != ['A'] and rnd.random() < 0.35:
            lines.append('mwtagged1 0 %s %d' % (rnd.choice(G.MODES), one_idx()))   # region i written through the view, read back
            rc['mwtagged1'] = rc.get('mwtagged1', 0) + 1
        if rnd.random() < 0.15:
            lines.append('mfeature1 %d %s %d' % (len(feats) + rnd.choice([0, 2]), rnd.choice(G.MODES), one_idx()))
        # every such query aborts the pinned library (sanitizer) and costs a driver restart; the engine gives up after 400
        # restarts per shard, so their number per run is capped
        if (flavour == 'empty' or rnd.random() < 0.04) and rnd.random() < self._ub_share:
            j = rnd.randrange(0, len(feats)) if feats else 0
            lines.append(rnd.choice(['moffcnt 0 %s 0' % rnd.choice(G.MODES), 'mtagged 0 %s 0' % rnd.choice(G.MODES),
                                     'mfeature %d %s 0' % (j, rnd.choice(G.MODES))]))
        lines = [' '.join(x.split()) for x in lines]
        return Case(lines, '%s:%d%s' % (flavour, rank, ''.join(kinds)))

    _routes = {}

    def extra_checks(self, ctx):
        # which public entry points exist and how many query lines of this run went through each
        ctx['ev']['entry_points'] = {k: G.ROUTES[k] for k in ('mtagged1', 'mtagged', 'mfeature1', 'mfeature')}
        ctx['ev']['entry_points_plain'] = {k: G.PLAIN_ROUTES[k] for k in ('moffcnt', 'moffcnt1')}
        ctx['ev']['entry_points_direct'] = {k: G.DIRECT[k] for k in ('dimunit', 'indata', 'pti1', 'ptiv', 'mwtagged1', 'units-with-blanks', 'FC-dimension')}
        ctx['ev']['query_lines_per_route'] = dict(sorted(self._routes.items()))
        return []

    def generate(self, seed, tier, scale=1):
        rnd = random.Random(seed)
        self._routes = {}
        combos = G.all_kind_combos()
        quick = tier == 'quick'
        per = (16 if quick else 750) * scale
        self._ub_share = 1.0 if quick else 0.3
        flavours = ['std', 'std', 'posonly', 'posonly', 'ext', 'ext', 'pad', 'pad', 'units', 'plain', 'empty', 'inconsistent', 'malformed', 'std', 'ext', 'posonly', 'pad']
        cases = []
        for kinds in combos:
            reps = per * (6 if len(kinds) == 1 else 3 if len(kinds) == 2 else 1)
            for r in range(reps):
                cases.append(self.one_case(rnd, list(kinds), flavours[r % len(flavours)] if r < len(flavours) else rnd.choice(flavours)))
        return cases

    def nontrivial(self, case, model_lines):
        """the model returned data (not an error) for at least one QUERY line; set-up lines do not count"""
        return any(m.startswith('OK') and l.split(' ')[0] not in G.SETUP for l, m in zip(case.lines, model_lines))

    def signature(self, case, impl, spec):
        return G.signature('mtag', case, impl, spec, self.compare)


PROP = C06()
