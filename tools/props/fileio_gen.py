"""Helpers shared by tools/props/C09.py and C11.py: the tables of harness/fileio_tables.hpp and
fileio_stale.hpp (single source of the enumerated API calls), the scan of H5Group::removeGroup, and small
script builders for the language of harness/fileio_common.hpp."""
import os, re, hashlib

VERIF = os.path.dirname(os.path.dirname(os.path.dirname(os.path.abspath(__file__))))
HARNESS = os.path.join(VERIF, 'harness')

KINDS = ['file', 'block', 'array', 'dset', 'dsam', 'drng', 'dali', 'dfrm', 'dim', 'tag', 'mtag', 'feature', 'group',
         'source', 'section', 'subsection', 'property', 'view', 'frame']


def mutators():
    t = open(os.path.join(HARNESS, 'fileio_tables.hpp')).read()
    muts = re.findall(r'^\s*MUT\("([^"]+)",', t, re.M)
    nomuts = re.findall(r'^\s*NOMUT\("([^"]+)",', t, re.M)
    return muts, nomuts


def stale_calls():
    """[(kind, name, class)]"""
    t = open(os.path.join(HARNESS, 'fileio_stale.hpp')).read()
    return re.findall(r'^\s*STALE\((\w+), "([^"]+)", (touch|cached),', t, re.M)


def unlink_checked(repo):
    """Does H5Group::removeGroup look at the result of H5Gunlink?  Returns (bool, evidence dict).
    The model (coq/FileIO/Modes.v, [unlink_checked]) takes this as an input read from the source, so that
    the model mirrors the tree that is being checked."""
    p = os.path.join(repo, 'backend', 'hdf5', 'h5x', 'H5Group.cpp')
    try:
        t = open(p).read()
    except OSError:
        return False, {'file': p, 'found': False}
    m = re.search(r'void\s+H5Group::removeGroup\s*\([^)]*\)\s*\{(.*?)\n\}', t, re.S)
    if not m:
        return False, {'file': p, 'found': False}
    body = re.sub(r'//[^\n]*', '', m.group(1))
    checked = bool(re.search(r'\.check\s*\(|\bthrow\b|isError\s*\(', body))
    return checked, {'file': 'backend/hdf5/h5x/H5Group.cpp', 'function': 'H5Group::removeGroup', 'found': True,
                     'span_sha256': hashlib.sha256(m.group(0).encode()).hexdigest()[:16],
                     'result_of_H5Gunlink_checked': checked}


NAMES = ['b1', 'b2', 'b3', 'x', 'y', 'blk_a', 'Z9']
ANAMES = ['a1', 'a2', 'arr', 'q']
SNAMES = ['s1', 's2', 'meta', 'S']
PNAMES = ['p1', 'p2', 'prop']


def random_content(rnd, n, state=None, rich_ok=True):
    """n content operations, mostly valid, on the tracked small state {'blocks': {name: [arrays]}, 'secs': {name: [props]}}"""
    st = state if state is not None else {'blocks': {}, 'secs': {}, 'rich': False}
    out = []
    for _ in range(n):
        k = rnd.random()
        if k < 0.18:
            nm = rnd.choice(NAMES)
            out.append('blk ' + nm)
            st['blocks'].setdefault(nm, [])
        elif k < 0.45 and st['blocks']:
            b = rnd.choice(sorted(st['blocks']))
            a = rnd.choice(ANAMES)
            vals = [str(rnd.randint(-5, 300)) for _ in range(rnd.choice([0, 1, 2, 3, 5, 17]))]
            out.append(' '.join(['arr', b, a] + vals))
            if a not in st['blocks'][b]:
                st['blocks'][b].append(a)
        elif k < 0.58 and any(st['blocks'].values()):
            b = rnd.choice([x for x in sorted(st['blocks']) if st['blocks'][x]])
            a = rnd.choice(st['blocks'][b])
            vals = [str(rnd.randint(-5, 300)) for _ in range(rnd.choice([0, 1, 2, 4, 9]))]
            out.append(' '.join(['set', b, a] + vals))
        elif k < 0.68:
            nm = rnd.choice(SNAMES)
            out.append('sec ' + nm)
            st['secs'].setdefault(nm, [])
        elif k < 0.80 and st['secs']:
            s = rnd.choice(sorted(st['secs']))
            p = rnd.choice(PNAMES)
            out.append('prop %s %s %d' % (s, p, rnd.randint(-9, 99)))
            if p not in st['secs'][s]:
                st['secs'][s].append(p)
        elif k < 0.86:
            nm = rnd.choice(NAMES)              # present or absent
            out.append('delblk ' + nm)
            st['blocks'].pop(nm, None)
        elif k < 0.90:
            nm = rnd.choice(SNAMES)
            out.append('delsec ' + nm)
            st['secs'].pop(nm, None)
        elif k < 0.95 and st['blocks']:
            b = rnd.choice(sorted(st['blocks']))
            a = rnd.choice(ANAMES)
            out.append('delarr %s %s' % (b, a))
            if a in st['blocks'][b]:
                st['blocks'][b].remove(a)
        else:
            out.append('dump')
    return out


# mutators of harness/fileio_tables.hpp that can be applied one after the other to the same rich block in any order and
# whose effect is outside the small tree both drivers print (attribute setters; data-frame cells): none deletes, none
# creates an entity the small tree shows, none loops.  (Creation through the second File is exercised by `blk2`.)
SAFE_MUTS = ['Block.type', 'Block.definition', 'Block.forceUpdatedAt', 'File.forceUpdatedAt', 'File.forceId', 'DataArray.type',
             'DataArray.label.overwrite', 'DataArray.unit.overwrite', 'DataArray.expansionOrigin.overwrite', 'DataArray.label.new',
             'DataArray.definition', 'Section.type', 'Section.repository.overwrite', 'Section.definition', 'Property.unit.overwrite',
             'Property.uncertainty.overwrite', 'Property.definition.overwrite', 'Tag.type', 'Tag.position.overwrite',
             'Tag.extent.overwrite', 'MultiTag.definition', 'MultiTag.type', 'Group.type', 'Source.definition', 'Source.type',
             'Feature.linkType', 'SampledDimension.samplingInterval', 'SampledDimension.label.overwrite', 'RangeDimension.unit.overwrite',
             'RangeDimension.label.overwrite', 'SetDimension.label.overwrite', 'DataFrame.type', 'DataFrame.writeCell',
             'DataFrame.definition']
