"""C16 — no API call sequence causes undefined behaviour; misuse throws.

Provable part: coq/Properties/Properties_C16.v (totality / no-UB theorems of the modelled index and
buffer logic).  Exercised part: the case streams of ALL other registered properties — including their
opt-in misuse / out-of-contract probe streams — are run through the ASan+UBSan build of /repo's
working tree; a case fails when the implementation driver dies (sanitizer report, signal,
std::terminate => `CRASH ...`) or when the model reaches an operation it classifies as undefined
behaviour (`UB ...`: e.g. HDF5 reading past a too-short count/offset buffer inside uninstrumented code)."""
import os, sys, json, time, random, importlib, hashlib
from engine import Prop, Case, Outcome, run_sharded, write_replay, load_known, sig_matches, pick_samples, VERIF, BUILD
import engine
import coq as coqlib
import repo as repolib

PROBE_ENV = {'NIXV_C01_UBPROBE': '1', 'NIXV_C01_XPROBE': '1', 'NIXV_C16': '1'}
QUICK_PER_PROP = 150
# the thorough tier replays up to this many cases of every property's THOROUGH stream (probe / malformed / misuse cases
# first) under the sanitizers: about an hour in all; the uncapped streams run in the properties' own thorough tiers,
# on the same sanitizer build
THOROUGH_PER_PROP = 3000
# streams whose cases are whole sessions (sha of the file around ~250 mutators, fork + SIGKILL harness): fewer in the quick tier
QUICK_OVERRIDE = {'C09': 30, 'C11': 8}


class C16(Prop):
    id = 'C16'
    driver = None       # the aggregator builds the drivers of the other properties and harness/drv_C16.cpp itself
    model = None
    technique = ('Coq totality / no-UB theorems for the modelled index and buffer logic + all correspondence corpora and misuse '
                 'streams under ASan+UBSan')
    level_text = ('Partial: machine-checked theorems that the generated position->index conversions are total for EVERY double input '
                  '(no undefined cast, no empty-optional dereference, loops terminate), that the range conversion never dereferences '
                  'end(), and that the hyperslab selection (offsetCount2DataSpaces) never hands HDF5 a count/offset buffer shorter than the rank; '
                  'memory safety of the remaining C++ and of HDF5 is exercised, not proved: every case stream of every registered '
                  'property, plus the out-of-contract probe streams (wrong ranks, counts/offsets outside the data, never-written data, '
                  'NaN/inf/huge positions, stale handles ...), runs in the ASan+UBSan(+float-cast-overflow) build of the working tree and '
                  'must end in a value or a C++ exception.')
    level_note = ('Trusted: Coq kernel, Flocq, stdlib real axioms; the translator; sanitizer runtimes of g++ 12 (HDF5 and Boost are not '
                  'instrumented: undefined behaviour inside them is visible only where the model classifies the call as UB); the '
                  'case generators of the other properties bound what is exercised.')
    nontrivial_rule = ('cases are the quick/thorough streams of all other registered properties plus their opt-in misuse streams; a case is '
                       'non-trivial when the implementation answered at least one line with a value or an exception; distinct = distinct '
                       'case text; failing = implementation driver died (CRASH) or model classified the call as UB')
    assumptions = ['undefined behaviour inside uninstrumented HDF5 / Boost is only visible through the model\'s UB classification']
    trusted_base = ['sanitizers: ASan + UBSan + float-cast-overflow, -fno-sanitize-recover']

    def sub_props(self):
        ids = json.load(open(os.path.join(VERIF, 'tools', 'claimed.json')))
        out = []
        for i in ids:
            if i == 'C16':
                continue
            p = importlib.import_module(i).PROP
            if p.driver:
                out.append(p)
        return out

    def run_check(self, tier, seed, repo='/repo'):
        t0 = time.time()
        printed = []

        def say(s):
            print(s, flush=True)
            printed.append(s)
        pr = coqlib.prove('C16', repo)
        proofs_ok = pr['ok']
        known = [k for k in load_known() if k.get('property') == 'C16' and k.get('status') == 'open']
        hit_known = []
        violations = []
        suppressed = 0
        seen = []
        total = 0
        nontrivial = set()
        dist = {}
        crashes_seen = []
        samples = []
        old_env = {k: os.environ.get(k) for k in PROBE_ENV}
        os.environ.update(PROBE_ENV)
        try:
            for sp in self.sub_props():
                impl_exe, _ = repolib.build_driver(sp.driver, repo)
                try:
                    model_exe = coqlib.build_model_driver(sp.model or sp.id, repo)
                except RuntimeError:
                    model_exe = None
                cases = sp.corpus() + sp.generate(seed, tier, 1)
                cap = QUICK_OVERRIDE.get(sp.id, QUICK_PER_PROP) if tier == 'quick' else THOROUGH_PER_PROP
                if len(cases) > cap:
                    rnd = random.Random(seed)
                    probes = [c for c in cases if 'probe' in c.tag or 'malformed' in c.tag or 'misuse' in c.tag or 'crash' in c.tag]
                    rest = [c for c in cases if c not in probes]
                    cases = probes[:cap] + rnd.sample(rest, min(len(rest), cap))
                if not samples and cases:
                    samples = pick_samples(cases)
                impl_res, crashes = run_sharded(impl_exe, sp.impl_args, cases, 'C16-' + sp.id + '-impl', True)
                model_res = None
                if model_exe:
                    model_res, _ = run_sharded(model_exe, lambda cf, wd: [cf], cases, 'C16-' + sp.id + '-model', False)
                for i, c in enumerate(cases):
                    total += 1
                    dist[sp.id] = dist.get(sp.id, 0) + 1
                    il = impl_res[i]
                    ml = [x.split(' ## ')[0] for x in model_res[i]] if model_res else [''] * len(il)
                    if any(l.startswith('OK') or l.startswith('ERR') for l in il):
                        nontrivial.add(hashlib.sha1((sp.id + c.text()).encode()).hexdigest())
                    bad = None
                    for k, (a, m) in enumerate(zip(il, ml)):
                        if a.startswith('CRASH'):
                            bad = (k, 'crash', a[6:])
                            break
                        if m.startswith('UB'):
                            bad = (k, 'model-ub', m[3:])
                            break
                    if bad is None:
                        continue
                    k, kind, why = bad
                    sig = {'sub': sp.id, 'kind': kind, 'why': why.split(' ')[0][:80] if kind == 'crash' else why[:80],
                           'op': c.lines[k].split(' ')[0]}
                    crashes_seen.append('%s:%s:%s' % (sp.id, kind, sig['why']))
                    matched = False
                    for kf in known:
                        if sig_matches(kf.get('signature', {}), sig):
                            if kf not in hit_known:
                                hit_known.append(kf)
                                say('KNOWN-FINDING: property=C16 %s' % kf.get('what', ''))
                            matched = True
                            break
                    if matched or sig in seen:
                        continue
                    seen.append(sig)
                    if len(violations) >= engine.MAX_REPORT:
                        suppressed += 1
                        continue
                    p = write_replay(self, len(violations) + 1, c,
                                     {'what': '%s in the stream of %s at line %d: %s' % (
                                         'implementation died under the sanitizers' if kind == 'crash' else 'model classifies the call as undefined behaviour',
                                         sp.id, k + 1, why),
                                      'sub_property': sp.id, 'implementation': il, 'model': ml, 'signature': json.dumps(sig),
                                      'replay_with': 'python3 tools/check.py %s --replay <this file>' % sp.id})
                    violations.append(p)
                    say('VIOLATION property=C16 replay=%s' % p)
            # ---- handle-misuse stream (harness/drv_C16.cpp): every listed API call with one handle replaced by a
            # none / deleted / closed / foreign one; no model: the only judgement is "value or exception, never a crash"
            import subprocess
            mis_exe, _ = repolib.build_driver('drv_C16', repo)
            lst = subprocess.run([mis_exe, 'list'], capture_output=True, text=True).stdout.split('\n')
            mcases = [Case(l, 'misuse') for l in lst if l.startswith('misuse ') or l.startswith('value ')]
            mres, _ = run_sharded(mis_exe, lambda cf, wd: [cf, wd], mcases, 'C16-misuse', True)
            # the value-type lines also have a model (ocaml/drv_C16.ml over Gen/GenNDSize.v): ANY where it is silent
            vmodel = coqlib.build_model_driver('C16', repo)
            vres, _ = run_sharded(vmodel, lambda cf, wd: [cf], mcases, 'C16-value-model', False)
            for c, il, ml in zip(mcases, mres, vres):
                total += 1
                dist['misuse' if c.lines[0].startswith('misuse') else 'value'] = dist.get('misuse' if c.lines[0].startswith('misuse') else 'value', 0) + 1
                a = il[0]
                mo = ml[0] if ml and ml[0] else 'ANY'
                if mo != 'ANY' and not a.startswith('CRASH') and not self.compare(a, mo):
                    sig = {'sub': 'value', 'kind': 'model-disagrees', 'call': c.lines[0]}
                    if len(violations) < engine.MAX_REPORT:
                        pth = write_replay(self, len(violations) + 1, c,
                                           {'what': 'implementation answers %s where the model (regenerated NDSize operators) answers %s' % (a, mo),
                                            'sub_property': 'misuse', 'signature': json.dumps(sig)})
                        violations.append(pth)
                        say('VIOLATION property=C16 replay=%s' % pth)
                    continue
                if a.startswith('OK') or a.startswith('ERR'):
                    nontrivial.add(hashlib.sha1(c.text().encode()).hexdigest())
                    continue
                t = c.lines[0].split(' ')
                t = t + ['-', '-', '-']
                sig = {'sub': 'misuse', 'kind': 'crash', 'call': t[1], 'role': t[2], 'handle': t[3], 'why': a[6:].split(' ')[0][:80]}
                if t[0] == 'value':
                    sig = {'sub': 'value', 'kind': 'crash', 'call': t[1], 'role': t[2], 'why': sig['why']}
                crashes_seen.append('misuse:%s:%s:%s' % (t[1], t[3], sig['why']))
                matched = False
                for kf in known:
                    if sig_matches(kf.get('signature', {}), sig):
                        if kf not in hit_known:
                            hit_known.append(kf)
                            say('KNOWN-FINDING: property=C16 %s' % kf.get('what', ''))
                        matched = True
                        break
                # one report per (call, crash reason): the same defect shows for several handle kinds
                key = {'call': t[1], 'why': sig['why']}
                if matched or key in seen:
                    continue
                seen.append(key)
                if len(violations) >= engine.MAX_REPORT:
                    suppressed += 1
                    continue
                pth = write_replay(self, len(violations) + 1, c,
                                   {'what': 'implementation died under the sanitizers: %s' % a, 'sub_property': 'misuse',
                                    'signature': json.dumps(sig),
                                    'replay_with': 'build/repo-main/drv_C16 <this file> <workdir>  (ASAN_OPTIONS=detect_leaks=0)'})
                violations.append(pth)
                say('VIOLATION property=C16 replay=%s' % pth)
        finally:
            for k, v in old_env.items():
                if v is None:
                    os.environ.pop(k, None)
                else:
                    os.environ[k] = v
        if not proofs_ok and not violations:
            p = write_replay(self, 1, None, {'what': 'proof obligation no longer checks: %s' % pr.get('failed_theorem', pr.get('stage')),
                                             'detail': pr.get('log', '')[-1500:]})
            violations.append(p)
            say('VIOLATION property=C16 replay=%s no-failing-input-found' % p)
        wall = round(time.time() - t0, 1)
        ev = {'property_id': 'C16', 'tier': tier, 'seed': seed, 'level': self.level,
              'coverage': {'obligations': pr.get('obligations', 0), 'discharged': pr.get('discharged', 0),
                           'checker_cmd': 'make -k Properties/Properties_C16.vo (coqc 8.16.1) in /verif/coq after regenerating coq/Gen from %s' % repo,
                           'trusted_base': ['Coq 8.16.1 kernel (vm_compute, no native_compute)',
                                            'axioms: ' + (', '.join(pr.get('axioms', [])) or 'none')] + self.trusted_base,
                           'theorems': pr.get('theorems', []), 'print_assumptions': pr.get('axioms', []),
                           'proofs_ok': proofs_ok, 'evaluations': total, 'programs': total,
                           'distinct_nontrivial': len(nontrivial), 'rule': self.nontrivial_rule, 'samples': samples,
                           'input_distribution': dist, 'failing_kinds_seen': sorted(set(crashes_seen))[:40],
                           'known_findings_hit': [k.get('what') for k in hit_known],
                           'further_violations_not_written_out': suppressed, 'exhaustive': False},
              'assumptions': self.assumptions, 'wall_s': wall, 'violations': len(violations)}
        evdir = os.path.join(VERIF, 'evidence') if os.path.abspath(repo) == '/repo' else os.path.join(BUILD, 'evidence-' + repolib.tag_for(repo))
        os.makedirs(evdir, exist_ok=True)
        json.dump(ev, open(os.path.join(evdir, 'C16.json'), 'w'), indent=1)
        rc = 1 if violations else 0
        say('%s C16 tier=%s seed=%s proofs_ok=%s cases=%d nontrivial=%d violations=%d known=%d wall=%.1fs' % (
            'PASS' if rc == 0 else 'FAIL', tier, seed, proofs_ok, total, len(nontrivial), len(violations), len(hit_known), wall))
        return rc


    def replay(self, path, repo='/repo'):
        hdr = [l.rstrip('\n') for l in open(path) if l.startswith('#')]
        lines = [l.rstrip('\n') for l in open(path) if l.strip() and not l.startswith('#')]
        print('\n'.join(hdr))
        sub = next((l.split(': ', 1)[1] for l in hdr if l.startswith('# sub_property: ')), None)
        if not lines or not sub:
            print('replay file names a broken proof obligation; re-running the check shows it')
            return 1
        if sub == 'misuse':
            mis_exe, _ = repolib.build_driver('drv_C16', repo)
            il, _ = run_sharded(mis_exe, lambda cf, wd: [cf, wd], [Case(lines, 'replay')], 'C16-replay', True)
            print('implementation :', il[0])
            if any(a.startswith('CRASH') for a in il[0]):
                print('VIOLATION property=C16 replay=%s' % path)
                return 1
            print('no violation on this input')
            return 0
        sp = importlib.import_module(sub).PROP
        os.environ.update(PROBE_ENV)
        impl_exe, _ = repolib.build_driver(sp.driver, repo)
        model_exe = coqlib.build_model_driver(sp.model or sp.id, repo)
        c = Case(lines, 'replay')
        il, _ = run_sharded(impl_exe, sp.impl_args, [c], 'C16-replay-impl', True)
        ml, _ = run_sharded(model_exe, lambda cf, wd: [cf], [c], 'C16-replay-model', False)
        print('implementation :', il[0])
        print('model          :', [x.split(' ## ')[0] for x in ml[0]])
        if any(a.startswith('CRASH') for a in il[0]) or any(x.startswith('UB') for x in ml[0]):
            print('VIOLATION property=C16 replay=%s' % path)
            return 1
        print('no violation on this input')
        return 0


PROP = C16()
