"""C19 — validator: accepts every rule-conforming file, flags every listed hard-rule breach, reports
soft-rule breaches as warnings only.

A case is a script (harness/drv_C19.cpp documents the language) that builds a nix file through the
public API and, for states the API refuses to create, through raw HDF5 calls, then calls
File::validate().  The model driver (ocaml/drv_C19.ml) builds the observation tree of
coq/Valid/Validator.v from the same script, prints the model's answer and, after ` ## `, the
specification's demands in the verdict language documented in ocaml/drv_C19.ml:

    SPEC J=<0|1> [NOERR] [NE:<id>]* [E:<id>]* [EU:<n>:<s:text>]* [W:<id>:<s:text>]* [WU:<n>:<s:text>]*

`compare` judges the implementation's answer with these clauses (`judge` below is the Python
twin of ValidSpec.judge; `extra_checks` cross-checks it against the extracted Coq `judge` on the
model's own answers)."""
import random, struct, subprocess, tempfile, os
from engine import Prop, Case, BUILD


def d(x):
    return 'd:%016x' % struct.unpack('>Q', struct.pack('>d', x))[0]


def s(x):
    return 's:' + x.encode().hex()


def parse_answer(line):
    """'OK n E:3:s:.. W:unknown:s:..' -> list of (kind, id, texthex) or None"""
    t = line.split(' ')
    if len(t) < 2 or t[0] != 'OK' or t[1] == '-' or not t[1].isdigit():
        return None
    out = []
    for tok in t[2:]:
        k, who, text = tok.split(':', 2)
        out.append((k, who, text))
    return out


def failing_clauses(impl_line, spec_line):
    """the clauses of `spec_line` the implementation's answer does not satisfy (Python twin of ValidSpec.judge1)"""
    ans = parse_answer(impl_line)
    toks = spec_line.split(' ')[1:]
    if ans is None:
        return ['NOANSWER']
    errs = [(w, t) for (k, w, t) in ans if k == 'E']
    warns = [(w, t) for (k, w, t) in ans if k == 'W']
    bad = []
    for c in toks:
        if c.startswith('J='):
            continue
        if c == 'NOERR':
            ok = not errs
        elif c.startswith('NE:'):
            ok = not any(w == c[3:] for (w, _) in errs)
        elif c.startswith('E:'):
            ok = any(w == c[2:] for (w, _) in errs)
        elif c.startswith('EU:'):
            _, n, text = c.split(':', 2)
            ok = sum(1 for (w, t) in errs if w == 'unknown' and t == text) >= int(n)
        elif c.startswith('WU:'):
            _, n, text = c.split(':', 2)
            ok = sum(1 for (w, t) in warns if w == 'unknown' and t == text) >= int(n)
        elif c.startswith('W:'):
            _, who, text = c.split(':', 2)
            ok = any(w == who and t == text for (w, t) in warns)
        else:
            ok = False
        if not ok:
            bad.append(c)
    return bad


# ----------------------------------------------------------------------------------------------
# plan of a file: python objects that are first built conforming, then damaged, then emitted

ATOMIC = {'s': ['s', 'ms', 'us'], 'V': ['V', 'mV', 'uV'], 'A': ['A', 'nA'], 'Hz': ['Hz', 'kHz'], 'm': ['m', 'mm'], 'K': ['K'],
          's2': ['s^2', 'ms^2']}
COMPOUND = ['mV/s', 'm*s', 'V*A']
NONSI = ['spikes', 'foo', 'au']


def other_base(rnd, base):
    return rnd.choice([b for b in ATOMIC if b != base])


class Dim:
    def __init__(self, kind):
        self.kind = kind          # set samp range frame alias
        self.labels = []
        self.interval = 1.0
        self.offset = None
        self.unit = None          # API-set unit (atomic / compound)
        self.base = None
        self.ticks = []
        self.rows = 0
        self.col = None
        self.colunit = ''
        self.post = []            # raw HDF5 operations on this dimension, applied after the build


class Arr:
    def __init__(self, block, name, extent):
        self.block, self.name, self.extent = block, name, extent
        self.dims = []
        self.unit = 'mV'
        self.poly = 0
        self.origin = False
        self.data = None
        self.extra_dims = 0       # additional set dimensions appended through the API
        self.post = []
        self.ord = None


class Tag:
    def __init__(self, block, name, multi):
        self.block, self.name, self.multi = block, name, multi
        self.refs = []
        self.units = []
        self.pos = []             # tag: position values; multi-tag: positions Arr
        self.extent = None        # tag: list; multi-tag: Arr
        self.feats = []           # (Arr, linktype, post ops)
        self.post = []
        self.h5units = None
        self.ord = None


class Plan:
    def __init__(self):
        self.blocks = []          # (name, arrays, tags, sources)
        self.sections = []        # (name, parent index or None, props)
        self.notype = []          # ('block'|'section'|..., index) entities whose type attribute is removed


class Emit:
    """turns a plan into script lines, handing out ordinals"""
    def __init__(self):
        self.lines = ['new']
        self.n = 0

    def new(self, line):
        self.lines.append(line)
        self.n += 1
        return self.n - 1

    def op(self, line):
        self.lines.append(line)


def emit_array(e, b_ord, a):
    a.ord = e.new('array %d %s t %d %s' % (b_ord, a.name, len(a.extent), ' '.join(str(x) for x in a.extent)))
    if a.unit is not None:
        e.op('aunit %d %s' % (a.ord, s(a.unit)))
    if a.poly:
        e.op('apoly %d %d' % (a.ord, a.poly))
    if a.origin:
        e.op('aorigin %d' % a.ord)
    if a.data is not None:
        e.op('adata %d %d %s' % (a.ord, len(a.data), ' '.join(d(x) for x in a.data)))
    post = []
    for k, dm in enumerate(a.dims, 1):
        if dm.kind == 'set':
            e.op(('dset %d %d %s' % (a.ord, len(dm.labels), ' '.join(s(x) for x in dm.labels))).rstrip())
        elif dm.kind == 'samp':
            e.op('dsamp %d %s' % (a.ord, d(dm.interval)))
            if dm.unit is not None:
                e.op('dunit %d %d %s' % (a.ord, k, s(dm.unit)))
            if dm.offset is not None:
                e.op('doffset %d %d %s' % (a.ord, k, d(dm.offset)))
        elif dm.kind == 'range':
            e.op('drange %d %d %s' % (a.ord, len(dm.ticks), ' '.join(d(x) for x in dm.ticks)))
            if dm.unit is not None:
                e.op('dunit %d %d %s' % (a.ord, k, s(dm.unit)))
        elif dm.kind == 'alias':
            e.op('dalias %d' % a.ord)
        elif dm.kind == 'frame':
            f = e.new('frame %d f_%s_%d t %d %s' % (b_ord, a.name, k, dm.rows, s(dm.colunit)))
            dm.frame_ord = f
            e.op('ddf %d %d %s' % (a.ord, f, '-' if dm.col is None else str(dm.col)))
        for p in dm.post:
            post.append(p % {'a': a.ord, 'k': k})
    for _ in range(a.extra_dims):
        e.op('dset %d 0' % a.ord)
    return post + [p % {'a': a.ord} for p in a.post]


def emit(plan, final=True):
    e = Emit()
    post = []
    plan.ords = {}
    for (bname, arrays, tags, sources) in plan.blocks:
        b = e.new('block %s t' % bname)
        plan.ords[('block', bname)] = b
        if ('block', bname) in plan.notype:
            post.append('h5 notype %d' % b)
        for a in arrays:
            post += emit_array(e, b, a)
        for t in tags:
            if t.multi:
                t.ord = e.new('mtag %d %s t %d' % (b, t.name, t.pos.ord))
                if t.extent is not None:
                    e.op('mext %d %d' % (t.ord, t.extent.ord))
            else:
                t.ord = e.new('tag %d %s t %d %s' % (b, t.name, len(t.pos), ' '.join(d(x) for x in t.pos)))
                if t.extent is not None:
                    e.op('textent %d %d %s' % (t.ord, len(t.extent), ' '.join(d(x) for x in t.extent)))
            for r in t.refs:
                e.op('ref %d %d' % (t.ord, r.ord))
            if t.units:
                e.op('tunits %d %d %s' % (t.ord, len(t.units), ' '.join(s(x) for x in t.units)))
            if t.h5units is not None:
                post.append(('h5 units %d %d %s' % (t.ord, len(t.h5units), ' '.join(s(x) for x in t.h5units))).rstrip())
            t.feat_ords = []
            for (fa, lt, fpost) in t.feats:
                f = e.new('feat %d %d %d' % (t.ord, fa.ord, lt))
                t.feat_ords.append(f)
                post += [p % {'f': f} for p in fpost]
            post += [p % {'t': t.ord} for p in t.post]
        stack = {}
        for (sname, parent) in sources:
            po = b if parent is None else stack[parent]
            stack[sname] = e.new('source %d %s t' % (po, sname))
    secs = {}
    for (sname, parent, props) in plan.sections:
        so = e.new('section %s %s t' % ('-' if parent is None else secs[parent], sname))
        secs[sname] = so
        plan.ords[('section', sname)] = so
        if ('section', sname) in plan.notype:
            post.append('h5 notype %d' % so)
        for (pname, nvals, unit) in props:
            p = e.new('prop %d %s %d' % (so, pname, nvals))
            plan.ords[('prop', sname, pname)] = p
            if unit is not None:
                e.op('punit %d %s' % (p, s(unit)))
    lines = e.lines + post
    if not final:
        return lines
    # every free function valid::validate(entity) on every entity: read-only before the file-level validation for a
    # quarter of the files, otherwise after it, alternately in a read-only and a read-write session
    if len(lines) % 4 == 0:
        return lines + ['entities ro', 'validate']
    return lines + ['validate', 'entities ' + ('ro' if len(lines) % 2 else 'rw')]


# ----------------------------------------------------------------------------------------------
# building a conforming plan

def make_dim(rnd, n, rank, allow):
    kind = rnd.choice(allow)
    dm = Dim(kind)
    if kind == 'set':
        dm.labels = ['l%d' % i for i in range(n)] if rnd.random() < 0.6 else []
    elif kind == 'samp':
        dm.interval = rnd.choice([1.0, 0.5, 0.001, 2.5e-5, 1e9, 5e-324])
        if rnd.random() < 0.75:
            dm.base = rnd.choice(list(ATOMIC))
            dm.unit = rnd.choice(ATOMIC[dm.base])
            if rnd.random() < 0.5:
                dm.offset = rnd.choice([0.5, -3.0, 100.0])
    elif kind == 'range':
        t0 = rnd.choice([0.0, -2.5, 10.0])
        dm.ticks = [t0 + i * rnd.choice([1.0, 1.0, 0.25]) + (0.0 if i == 0 else 0.0) for i in range(n)]
        dm.ticks = sorted(dm.ticks)
        if rnd.random() < 0.3 and n > 1:
            dm.ticks[1] = dm.ticks[0]      # equal neighbours are sorted
        if rnd.random() < 0.75:
            dm.base = rnd.choice(list(ATOMIC))
            dm.unit = rnd.choice(ATOMIC[dm.base])
    elif kind == 'frame':
        dm.rows = n
        dm.col = rnd.choice([None, 0, 1])
        if rnd.random() < 0.6:
            dm.base = rnd.choice(list(ATOMIC))
            dm.colunit = rnd.choice(ATOMIC[dm.base])
        if dm.col != 0:
            dm.base = None
    return dm


def make_array(rnd, bname, name, rank=None, unitful=False):
    rank = rank or rnd.choice([1, 1, 2, 2, 3])
    extent = [rnd.randint(1, 5) for _ in range(rank)]
    a = Arr(bname, name, extent)
    a.unit = rnd.choice(sum(ATOMIC.values(), []) + COMPOUND)
    if rnd.random() < 0.3:
        a.poly, a.origin = rnd.randint(1, 3), True
    if rank == 1 and not unitful and rnd.random() < 0.2:
        a.dims = [Dim('alias')]
        if rnd.random() < 0.6:
            a.data = sorted(rnd.choice([0.5, 1.0, 2.0, -1.0, 7.25]) * i for i in range(extent[0]))
        a.unit = rnd.choice(sum(ATOMIC.values(), []))
        return a
    for n in extent:
        if unitful:
            while True:
                dm = make_dim(rnd, n, rank, ['samp', 'range'])
                if dm.unit is not None:
                    break
        else:
            dm = make_dim(rnd, n, rank, ['set', 'samp', 'range', 'frame'])
        a.dims.append(dm)
    return a


def make_tag(rnd, bname, name, multi, arrays, pos_arrays):
    t = Tag(bname, name, multi)
    rank = rnd.choice([1, 2, 2, 3])
    cands = [a for a in arrays if len(a.extent) == rank and a.dims and a.dims[0].kind != 'alias']
    unitful = [a for a in cands if all(dm.kind in ('samp', 'range') and dm.unit is not None for dm in a.dims)]
    want_units = bool(unitful) and rnd.random() < 0.6
    if want_units:
        first = rnd.choice(unitful)
        same = [a for a in unitful if [dm.base for dm in a.dims] == [dm.base for dm in first.dims]]
        t.refs = rnd.sample(same, min(len(same), rnd.choice([1, 1, 2])))
        t.units = [rnd.choice(ATOMIC[dm.base]) for dm in first.dims]
    elif cands:
        t.refs = rnd.sample(cands, min(len(cands), rnd.choice([0, 1, 2])))
    if not t.refs:
        rank = rnd.choice([1, 2])
    if not want_units and rnd.random() < 0.25:
        # units, but no reference was ever added (the optional "references" group does not exist)
        t.refs = []
        t.units = [rnd.choice(sum(ATOMIC.values(), [])) for _ in range(rank)]
    if multi:
        k = rnd.randint(1, 4)
        shape = [k] if (rank == 1 and rnd.random() < 0.5) else [k, rank]
        p = Arr(bname, 'pos_' + name, shape)
        p.dims = [Dim('set') for _ in shape]
        pos_arrays.append(p)
        t.pos = p
        if rnd.random() < 0.5:
            x = Arr(bname, 'ext_' + name, list(shape))
            x.dims = [Dim('set') for _ in shape]
            pos_arrays.append(x)
            t.extent = x
    else:
        t.pos = [rnd.choice([0.0, 0.5, 1.0]) for _ in range(rank)]
        if rnd.random() < 0.5:
            t.extent = [rnd.choice([0.0, 1.0]) for _ in range(rank)]
    for _ in range(rnd.choice([0, 0, 1, 2])):
        if arrays:
            t.feats.append((rnd.choice(arrays), rnd.choice([0, 1, 2]), []))
    return t

def untouched_family():
    """entities whose optional sub-containers were never touched by the writing session (no references, features,
    dimensions, properties, child sources / sections, arrays, tags): the first observation of the file is the
    read-only validation of the driver"""
    cases = []
    for multi in (False, True):
        for units in (['s'], ['s', 'mV'], ['ms', 's', 'Hz']):
            arrays = []
            t = _tag('t0', multi, [], units, arrays, len(units))
            cases.append(Case(emit(_one_block(arrays, [t])), 'untouched-tag-units-no-refs'))
    arrays = []
    tags = [_tag('t0', False, [], ['s'], arrays, 1), _tag('m0', True, [], ['V'], arrays, 1), _tag('t1', False, [], [], arrays, 2)]
    p = _one_block(arrays, tags, props=[])
    p.blocks.append(('b1', [], [], []))                                  # a block with nothing in it
    p.blocks[0][3].append(('src0', None))                                  # a source without children
    p.sections.append(('s1', 's0', []))
    cases.append(Case(emit(p), 'untouched-everything'))
    for rank in (1, 2):
        a = Arr('b0', 'a0', [2, 3][:rank])                                 # an array without any dimension descriptor
        cases.append(Case(emit(_one_block([a])), 'untouched-array-no-dims'))
    a = _arr('a0', [2, 3], ['samp', 'samp'])
    t = _tag('t0', False, [a], ['s', 'ms'], [a], 2)                        # control: units and a reference
    cases.append(Case(emit(_one_block([a], [t])), 'untouched-control'))
    return cases



def make_plan(rnd, size):
    """size 0: minimal, 1: small, 2: medium"""
    p = Plan()
    nblocks = [1, rnd.choice([1, 2]), rnd.choice([2, 3])][size]
    for bi in range(nblocks):
        bname = 'b%d' % bi
        arrays = []
        na = [2, rnd.randint(2, 3), rnd.randint(3, 5)][size]
        for ai in range(na):
            arrays.append(make_array(rnd, bname, 'a%d' % ai, unitful=(ai == 0 or rnd.random() < 0.3),
                                     rank=(2 if ai == 0 else None)))
        tags = []
        pos_arrays = []
        nt = [1, rnd.randint(1, 2), rnd.randint(2, 3)][size]
        for ti in range(nt):
            tags.append(make_tag(rnd, bname, 't%d' % ti, False, arrays, pos_arrays))
        nm = [1, rnd.randint(0, 2), rnd.randint(1, 2)][size]
        for mi in range(nm):
            tags.append(make_tag(rnd, bname, 'm%d' % mi, True, arrays, pos_arrays))
        sources = []
        for si in range([0, rnd.randint(0, 2), rnd.randint(1, 4)][size]):
            parent = rnd.choice([None] + [x[0] for x in sources])
            sources.append(('src%d' % si, parent))
        p.blocks.append((bname, arrays + pos_arrays, tags, sources))
    for si in range([1, rnd.randint(1, 2), rnd.randint(2, 4)][size]):
        parent = rnd.choice([None] + [x[0] for x in p.sections])
        props = []
        for pi in range(rnd.randint(0, 3)):
            nvals = rnd.choice([0, 1, 1, 3])
            unit = rnd.choice(sum(ATOMIC.values(), []) + COMPOUND) if nvals else None
            props.append(('p%d' % pi, nvals, unit))
        p.sections.append(('sec%d' % si, parent, props))
    return p


# ----------------------------------------------------------------------------------------------
# damage: every function returns True when it could be applied to the plan

def all_arrays(plan):
    return [a for b in plan.blocks for a in b[1]]


def all_tags(plan):
    return [t for b in plan.blocks for t in b[2]]


def dims_of(plan, kind):
    return [(a, dm) for a in all_arrays(plan) for dm in a.dims if dm.kind == kind and not a.name.startswith(('pos_', 'ext_'))]


def br_dimcount(rnd, plan):
    cands = [a for a in all_arrays(plan) if a.dims and a.dims[0].kind != 'alias']
    if not cands:
        return False
    a = rnd.choice(cands)
    if rnd.random() < 0.5 or getattr(a, 'dims_deleted', False):
        a.extra_dims += rnd.choice([1, 1, 2])
    else:
        a.post.append('h5 deldim %%(a)d %d' % len(a.dims))     # the last descriptor disappears
        a.dims_deleted = True
    return True


def br_ticks(rnd, plan):
    c = dims_of(plan, 'range')
    if not c:
        return False
    a, dm = rnd.choice(c)
    n = len(dm.ticks)
    m = rnd.choice([n + 1, n + 2] + ([n - 1] if n > 1 else []))
    dm.ticks = [float(i) for i in range(m)]
    return True


def br_labels(rnd, plan):
    c = dims_of(plan, 'set')
    if not c:
        return False
    a, dm = rnd.choice(c)
    n = a.extent[a.dims.index(dm)]
    m = rnd.choice([n + 1, n + 3] + ([n - 1] if n > 1 else []))
    dm.labels = ['x%d' % i for i in range(m)]
    return True


def br_rows(rnd, plan):
    c = dims_of(plan, 'frame')
    if not c:
        return False
    a, dm = rnd.choice(c)
    dm.rows = rnd.choice([dm.rows + 1, dm.rows + 2, max(0, dm.rows - 1) if dm.rows > 1 else dm.rows + 4, 0])
    if dm.rows == a.extent[a.dims.index(dm)]:
        dm.rows += 1
    return True


def br_unsorted(rnd, plan):
    c = [(a, dm) for (a, dm) in dims_of(plan, 'range') if len(dm.ticks) >= 2]
    al = [(a, dm) for (a, dm) in dims_of(plan, 'alias') if a.extent[0] >= 2]
    if al and (not c or rnd.random() < 0.3):
        a, dm = rnd.choice(al)
        n = a.extent[0]
        a.data = [float(i) for i in range(n)]
        i = rnd.randrange(n - 1)
        a.data[i], a.data[i + 1] = a.data[i + 1], a.data[i]
        return True
    if not c:
        return False
    a, dm = rnd.choice(c)
    t = list(dm.ticks)
    i = rnd.randrange(len(t) - 1)
    t[i] = t[i + 1] + rnd.choice([1.0, 0.5, 5e-324 if t[i + 1] == 0.0 else 1.0])
    dm.post.append('h5 ticks %%(a)d %%(k)d %d %s' % (len(t), ' '.join(d(x) for x in t)))
    return True


def br_interval(rnd, plan):
    c = dims_of(plan, 'samp')
    if not c:
        return False
    a, dm = rnd.choice(c)
    dm.post.append('h5 interval %%(a)d %%(k)d %s' % d(rnd.choice([0.0, -0.0, -1.0, -5e-324, -1e300, float('-inf')])))
    return True


def br_tagunits(rnd, plan, index=None):
    c = [t for t in all_tags(plan) if t.units and t.refs]
    if not c:
        return False
    t = rnd.choice(c)
    i = rnd.randrange(len(t.units)) if index is None else min(index, len(t.units) - 1)
    base = t.refs[0].dims[i].base
    t.units[i] = rnd.choice(ATOMIC[other_base(rnd, base)])
    return True


def br_nopositions(rnd, plan):
    c = [t for t in all_tags(plan) if t.multi and 'h5 nopositions %(t)d' not in t.post]
    if not c:
        return False
    rnd.choice(c).post.append('h5 nopositions %(t)d')
    return True


def br_nodata(rnd, plan):
    c = [f for t in all_tags(plan) for f in t.feats if 'h5 nodata %(f)d' not in f[2]]
    if not c:
        return False
    rnd.choice(c)[2].append('h5 nodata %(f)d')
    return True


def sf_arrayunit(rnd, plan):
    c = [a for a in all_arrays(plan) if not (a.dims and a.dims[0].kind == 'alias')]
    if not c:
        return False
    rnd.choice(c).unit = rnd.choice([None, None] + NONSI)
    return True


def sf_coefforigin(rnd, plan):
    a = rnd.choice(all_arrays(plan))
    if rnd.random() < 0.5:
        a.poly, a.origin = rnd.randint(1, 3), False
    else:
        a.poly, a.origin = 0, True
    return True


def sf_offsetunit(rnd, plan):
    c = dims_of(plan, 'samp')
    if not c:
        return False
    a, dm = rnd.choice(c)
    used = any(a in t.refs and t.units for t in all_tags(plan))
    if used:
        return False
    dm.unit, dm.base, dm.offset = None, None, rnd.choice([0.25, -1.0])
    return True


def sf_propunit(rnd, plan):
    c = [(sec, i) for sec in plan.sections for i in range(len(sec[2]))]
    if not c:
        plan.sections[0][2].append(('px', 2, None))
        return True
    sec, i = rnd.choice(c)
    sec[2][i] = (sec[2][i][0], rnd.choice([1, 2, 5]), None)
    return True


# grey zone / rules outside the list of C19: only the correspondence and the NE clauses see them
def ot_propnonsi(rnd, plan):
    c = [(sec, i) for sec in plan.sections for i in range(len(sec[2]))]
    if not c:
        plan.sections[0][2].append(('py', 1, rnd.choice(NONSI)))
        return True
    sec, i = rnd.choice(c)
    sec[2][i] = (sec[2][i][0], rnd.choice([0, 1, 2]), rnd.choice(NONSI))
    return True


def ot_tagunits_raw(rnd, plan):
    c = all_tags(plan)
    t = rnd.choice(c)
    n = len(t.units) or rnd.randint(1, 3)
    pool = NONSI + ['', 'none'] + COMPOUND + sum(ATOMIC.values(), [])
    u = list(t.units) if t.units else [rnd.choice(pool) for _ in range(n)]
    how = rnd.choice(['replace', 'longer', 'shorter', 'blank'])
    if how == 'replace':
        u[rnd.randrange(len(u))] = rnd.choice(pool)
    elif how == 'longer':
        u = u + [rnd.choice(pool) for _ in range(rnd.choice([1, 2]))]
    elif how == 'shorter' and len(u) > 1:
        u = u[:-1]
    else:
        u[rnd.randrange(len(u))] = rnd.choice(['', 'none'])
    t.h5units = u
    return True


def ot_dimunit_raw(rnd, plan):
    c = dims_of(plan, 'samp') + dims_of(plan, 'range')
    if not c:
        return False
    a, dm = rnd.choice(c)
    dm.post.append('h5 dunit %%(a)d %%(k)d %s' % s(rnd.choice(NONSI + COMPOUND + ['none'])))
    return True


def ot_misc(rnd, plan):
    how = rnd.choice(['notype', 'nointerval', 'nolink', 'noposition', 'gap'])
    if how == 'notype':
        x = ('block', rnd.choice(plan.blocks)[0]) if rnd.random() < 0.5 else ('section', rnd.choice(plan.sections)[0])
        if x in plan.notype:
            return False
        plan.notype.append(x)
        return True
    if how == 'nointerval':
        c = [x for x in dims_of(plan, 'samp') if 'h5 nointerval %(a)d %(k)d' not in x[1].post]
        if not c:
            return False
        rnd.choice(c)[1].post.append('h5 nointerval %(a)d %(k)d')
        return True
    if how == 'nolink':
        c = [f for t in all_tags(plan) for f in t.feats if 'h5 nolink %(f)d' not in f[2]]
        if not c:
            return False
        rnd.choice(c)[2].append('h5 nolink %(f)d')
        return True
    if how == 'noposition':
        c = [t for t in all_tags(plan) if not t.multi and 'h5 noposition %(t)d' not in t.post]
        if not c:
            return False
        rnd.choice(c).post.append('h5 noposition %(t)d')
        return True
    c = [a for a in all_arrays(plan) if len(a.dims) >= 2 and not getattr(a, 'dims_deleted', False)]
    if not c:
        return False
    a = rnd.choice(c)
    a.post.append('h5 deldim %%(a)d %d' % rnd.randint(1, len(a.dims) - 1))   # leaves a gap in the numbering
    a.dims_deleted = True
    return True


HARD = [('dimcount', br_dimcount), ('ticks', br_ticks), ('labels', br_labels), ('rows', br_rows), ('unsorted', br_unsorted),
        ('interval', br_interval), ('tagunits', br_tagunits), ('nopositions', br_nopositions), ('nodata', br_nodata)]
SOFT = [('s-arrayunit', sf_arrayunit), ('s-coefforigin', sf_coefforigin), ('s-offsetunit', sf_offsetunit), ('s-propunit', sf_propunit)]
OTHER = [('o-propnonsi', ot_propnonsi), ('o-tagunits', ot_tagunits_raw), ('o-dimunit', ot_dimunit_raw), ('o-misc', ot_misc)]


# ----------------------------------------------------------------------------------------------
# directed family: every loop of checks.cpp / validate.cpp / File::validate with the breaching element at
# the first, a middle and the last position while all other elements are fine

def _dim(kind, n, labelled=True, unit='s'):
    dm = Dim(kind)
    if kind == 'set':
        dm.labels = ['l%d' % i for i in range(n)] if labelled else []
    elif kind == 'range':
        dm.ticks = [float(i) for i in range(n)]
        dm.unit, dm.base = unit, 's'
    elif kind == 'samp':
        dm.interval = 0.5
        dm.unit, dm.base = unit, 's'
    elif kind == 'frame':
        dm.rows = n
    return dm


def _arr(name, extent, kinds, labelled=True):
    a = Arr('b0', name, list(extent))
    a.dims = [_dim(k, n, labelled) for k, n in zip(kinds, extent)]
    return a


def _set_len(dm, m):
    if dm.kind == 'set':
        dm.labels = ['x%d' % i for i in range(m)]
    elif dm.kind == 'range':
        dm.ticks = [float(i) for i in range(m)]
    elif dm.kind == 'frame':
        dm.rows = m


def _one_block(arrays, tags=(), props=None):
    p = Plan()
    p.blocks.append(('b0', list(arrays), list(tags), []))
    if props is not None:
        p.sections.append(('s0', None, props))
    return p


def _tag(name, multi, refs, units, arrays, rank):
    t = Tag('b0', name, multi)
    t.refs = list(refs)
    t.units = list(units)
    if multi:
        pa = Arr('b0', 'pos_' + name, [2, rank])
        pa.dims = [Dim('set'), Dim('set')]
        arrays.append(pa)
        t.pos = pa
    else:
        t.pos = [0.0] * rank
    return t


EXT = {2: [3, 2], 3: [3, 2, 4]}


def loop_family():
    cases = []

    def add(plan, tag):
        cases.append(Case(emit(plan), tag))

    # (1) dimTicksMatchData / dimLabelsMatchData / dimDataFrameTicksMatchData: several dimensions of the same
    #     kind, the wrong length at every position; the wrong length is the extent of a neighbouring dimension
    for kind in ('set', 'range', 'frame'):
        for rank in (2, 3):
            ext = EXT[rank]
            for bad in range(rank):
                for others_labelled in ((True, False) if kind == 'set' else (True,)):
                    a = _arr('a0', ext, [kind] * rank, others_labelled)
                    _set_len(a.dims[bad], ext[(bad + 1) % rank])
                    add(_one_block([a]), 'loop-dimlen-' + kind)
            # two wrong, one fine
            a = _arr('a0', ext, [kind] * rank)
            _set_len(a.dims[0], ext[0] + 1)
            _set_len(a.dims[rank - 1], ext[rank - 1] + 2)
            add(_one_block([a]), 'loop-dimlen-' + kind)
    #     ... and between dimensions of other kinds
    for kind in ('set', 'range', 'frame'):
        for bad in range(3):
            kinds = ['samp', 'set', 'range']
            kinds[bad] = kind
            kinds[(bad + 1) % 3] = kind
            a = _arr('a0', EXT[3], kinds)
            _set_len(a.dims[bad], EXT[3][bad] + 1)
            add(_one_block([a]), 'loop-dimlen-mixed')
    # (2) dimension count: one descriptor more / fewer, every rank
    for rank in (1, 2, 3):
        ext = [3, 2, 4][:rank]
        a = _arr('a0', ext, ['set'] * rank)
        a.extra_dims = 1
        add(_one_block([a]), 'loop-dimcount')
        a = _arr('a0', ext, ['samp'] * rank)
        a.post.append('h5 deldim %%(a)d %d' % rank)
        add(_one_block([a]), 'loop-dimcount')
    # (3) isSorted: the descent at every adjacent pair; the unsorted / non-positive dimension at every position
    for pair in range(3):
        a = _arr('a0', [4], ['range'])
        t = [0.0, 1.0, 2.0, 3.0]
        t[pair], t[pair + 1] = t[pair + 1], t[pair]
        a.dims[0].post.append('h5 ticks %%(a)d %%(k)d 4 %s' % ' '.join(d(x) for x in t))
        add(_one_block([a]), 'loop-sorted')
    for bad in range(3):
        a = _arr('a0', EXT[3], ['range'] * 3)
        n = EXT[3][bad]
        t = [float(n - i) for i in range(n)]
        a.dims[bad].post.append('h5 ticks %%(a)d %%(k)d %d %s' % (n, ' '.join(d(x) for x in t)))
        add(_one_block([a]), 'loop-walk-dims')
        a = _arr('a0', EXT[3], ['samp'] * 3)
        a.dims[bad].post.append('h5 interval %%(a)d %%(k)d %s' % d(0.0))
        add(_one_block([a]), 'loop-walk-dims')
    # (4) tagUnitsMatchRefsUnits: three references, the reference with the foreign dimension unit first / middle /
    #     last; in it the foreign unit at the first / last dimension (three units: pinned_family covers every index)
    for multi in (False, True):
        for badref in range(3):
            for baddim in (0, 2):
                arrays = [_arr('a%d' % i, EXT[3], ['samp'] * 3) for i in range(3)]
                arrays[badref].dims[baddim].unit, arrays[badref].dims[baddim].base = 'V', 'V'
                t = _tag('t0', multi, arrays[:3], ['s', 'ms', 's'], arrays, 3)
                add(_one_block(arrays, [t]), 'loop-tagunits-refs')
    #     four units on four dimensions... rank 3 is the largest the generator builds: two references, each index
    for bad in range(3):
        arrays = [_arr('a%d' % i, EXT[3], ['range'] * 3) for i in range(2)]
        units = ['s', 's', 's']
        units[bad] = 'mV'
        t = _tag('t0', False, arrays[:2], units, arrays, 3)
        add(_one_block(arrays, [t]), 'loop-tagunits-units')
    # (5) isValidUnit over the units vector (find_if_not): the invalid unit at every position (raw HDF5)
    for bad in range(3):
        arrays = [_arr('a0', EXT[3], ['samp'] * 3)]
        t = _tag('t0', False, arrays[:1], ['s', 's', 's'], arrays, 3)
        u = ['s', 's', 's']
        u[bad] = 'foo'
        t.h5units = u
        add(_one_block(arrays, [t]), 'loop-validunits')
    # (6) the loops of File::validate: the breaching entity first / middle / last among its siblings
    for bad in range(3):
        arrays = [_arr('a%d' % i, EXT[2], ['set'] * 2) for i in range(3)]
        arrays[bad].extra_dims = 1
        add(_one_block(arrays), 'loop-walk-arrays')
        arrays = [_arr('a0', EXT[2], ['samp'] * 2)]
        t = _tag('t0', False, [], [], arrays, 2)
        t.feats = [(arrays[0], i, ['h5 nodata %(f)d'] if i == bad else []) for i in range(3)]
        add(_one_block(arrays, [t]), 'loop-walk-features')
        arrays = [_arr('a0', EXT[2], ['samp'] * 2)]
        tags = [_tag('m%d' % i, True, [], [], arrays, 2) for i in range(3)]
        tags[bad].post.append('h5 nopositions %(t)d')
        add(_one_block(arrays, tags), 'loop-walk-mtags')
        arrays = [_arr('a0', EXT[2], ['samp'] * 2)]
        tags = [_tag('t%d' % i, False, arrays[:1], ['s', 's'], arrays, 2) for i in range(3)]
        tags[bad].units = ['V', 's'] if bad != 1 else ['s', 'V']
        add(_one_block(arrays, tags), 'loop-walk-tags')
        props = [('p%d' % i, 2, None if i == bad else 'mV') for i in range(3)]
        add(_one_block([_arr('a0', [2], ['set'])], props=props), 'loop-walk-props')
    for badblock in range(2):
        p = Plan()
        for bi in range(2):
            a = _arr('a0', EXT[2], ['set'] * 2)
            a.block = 'b%d' % bi
            if bi == badblock:
                _set_len(a.dims[0], 5)
            p.blocks.append(('b%d' % bi, [a], [], []))
        add(p, 'loop-walk-blocks')
    return cases



# ----------------------------------------------------------------------------------------------
# histories: build a conforming file, validate, EDIT so that the verdict of one rule flips, validate again, repair,
# validate again ... all in one process; `vlive` validates in the session that stays open (the following edits go
# through the handles that were alive during the validation), `validate` closes and reopens (fresh handles).  The
# model validates the edited tree from scratch, so any state the library keeps between validations shows.

def dim_lines(a, k, dm):
    """the commands that append descriptor k of array a again (after deldims)"""
    out = []
    if dm.kind == 'set':
        out.append(('dset %d %d %s' % (a.ord, len(dm.labels), ' '.join(s(x) for x in dm.labels))).rstrip())
    elif dm.kind == 'samp':
        out.append('dsamp %d %s' % (a.ord, d(dm.interval)))
        if dm.unit is not None:
            out.append('dunit %d %d %s' % (a.ord, k, s(dm.unit)))
        if dm.offset is not None:
            out.append('doffset %d %d %s' % (a.ord, k, d(dm.offset)))
    elif dm.kind == 'range':
        out.append('drange %d %d %s' % (a.ord, len(dm.ticks), ' '.join(d(x) for x in dm.ticks)))
        if dm.unit is not None:
            out.append('dunit %d %d %s' % (a.ord, k, s(dm.unit)))
    elif dm.kind == 'frame':
        out.append('ddf %d %d %s' % (a.ord, dm.frame_ord, '-' if dm.col is None else str(dm.col)))
    return out


def history_edits(rnd, plan):
    """candidate edits of a built conforming plan: list of (name, [breaking commands], [repairing commands])"""
    out = []
    arrays = [a for a in all_arrays(plan) if not a.name.startswith(('pos_', 'ext_'))]
    for t in all_tags(plan):
        if t.units and t.refs:
            a = t.refs[0]
            k = rnd.randrange(len(a.dims))
            dm = a.dims[k]
            bad = rnd.choice(ATOMIC[other_base(rnd, dm.base)])
            # the unit of a referenced dimension (seeded change C19-B3), through the setter ...
            out.append(('dimunit', ['dunit %d %d %s' % (a.ord, k + 1, s(bad))], ['dunit %d %d %s' % (a.ord, k + 1, s(dm.unit))]))
            # ... by removing it (no unit: nothing to compare with) and setting a foreign one again
            out.append(('dimunit-none', ['dnounit %d %d' % (a.ord, k + 1), 'dunit %d %d %s' % (a.ord, k + 1, s(bad))],
                        ['dnounit %d %d' % (a.ord, k + 1), 'dunit %d %d %s' % (a.ord, k + 1, s(dm.unit))]))
            # ... and by deleting all descriptors and appending them again with one unit changed
            if all(x.kind in ('samp', 'range') for x in a.dims):
                good = ['deldims %d' % a.ord] + sum([dim_lines(a, i + 1, x) for i, x in enumerate(a.dims)], [])
                keep = dm.unit
                dm.unit = bad
                brk = ['deldims %d' % a.ord] + sum([dim_lines(a, i + 1, x) for i, x in enumerate(a.dims)], [])
                dm.unit = keep
                out.append(('dimunit-reappend', brk, good))
            # the tag's own units
            i = rnd.randrange(len(t.units))
            u = list(t.units)
            u[i] = rnd.choice(ATOMIC[other_base(rnd, t.refs[0].dims[i].base)])
            out.append(('tagunits', ['tunits %d %d %s' % (t.ord, len(u), ' '.join(s(x) for x in u))],
                        ['tunits %d %d %s' % (t.ord, len(t.units), ' '.join(s(x) for x in t.units))]))
            out.append(('tagunits-none', ['tunits %d %d %s' % (t.ord, len(u), ' '.join(s(x) for x in u))], ['tunits %d 0' % t.ord]))
            if len(t.refs) > 1:
                # a reference whose dimension has a foreign unit comes and goes
                out.append(('unref', ['dunit %d %d %s' % (a.ord, k + 1, s(bad))],
                            ['unref %d %d' % (t.ord, a.ord), 'dunit %d %d %s' % (a.ord, k + 1, s(dm.unit)), 'ref %d %d' % (t.ord, a.ord)]))
        for fo, (fa, lt, fpost) in zip(getattr(t, 'feat_ords', []), t.feats):
            out.append(('featdata', ['h5 nodata %d' % fo], ['fdata %d %d' % (fo, fa.ord)]))
        if t.multi:
            out.append(('positions', ['h5 nopositions %d' % t.ord], ['mpositions %d %d' % (t.ord, t.pos.ord)]))
        out.append(('tagtype', ['h5 notype %d' % t.ord], ['etype %d t' % t.ord]))
    for a in arrays:
        if a.dims and a.dims[0].kind == 'alias':
            n = a.extent[0]
            if n >= 2:
                up = [float(i) for i in range(n)]
                dn = list(up)
                dn[0], dn[1] = dn[1], dn[0]
                out.append(('aliasdata', ['adata %d %d %s' % (a.ord, n, ' '.join(d(x) for x in dn))],
                            ['adata %d %d %s' % (a.ord, n, ' '.join(d(x) for x in up))]))
            continue
        for k, dm in enumerate(a.dims, 1):
            n = a.extent[k - 1]
            if dm.kind == 'set':
                lab = lambda m: ('dlabels %d %d %d %s' % (a.ord, k, m, ' '.join(s('y%d' % i) for i in range(m)))).rstrip()
                out.append(('labels', [lab(n + 1)], [lab(rnd.choice([n, 0]))]))
            elif dm.kind == 'range':
                tk = lambda m: 'dticks %d %d %d %s' % (a.ord, k, m, ' '.join(d(float(i)) for i in range(m)))
                out.append(('ticks', [tk(n + 2)], [tk(n)]))
                tt = [float(i) for i in range(n)]
                if n >= 2:
                    un = list(tt)
                    un[-1], un[-2] = un[-2], un[-1]
                    out.append(('unsorted', ['h5 ticks %d %d %d %s' % (a.ord, k, n, ' '.join(d(x) for x in un))], [tk(n)]))
            elif dm.kind == 'samp':
                out.append(('interval', ['h5 interval %d %d %s' % (a.ord, k, d(-1.0))], ['dinterval %d %d %s' % (a.ord, k, d(0.25))]))
                if dm.unit is None:
                    out.append(('offset-soft', ['doffset %d %d %s' % (a.ord, k, d(1.5))], ['dnooffset %d %d' % (a.ord, k)]))
            elif dm.kind == 'frame':
                out.append(('rows', ['frows %d %d' % (dm.frame_ord, n + 1)], ['frows %d %d' % (dm.frame_ord, n)]))
        if a.dims:
            ext = list(a.extent)
            k = rnd.randrange(len(ext))
            if a.dims[k].kind in ('range', 'frame') or (a.dims[k].kind == 'set' and a.dims[k].labels):
                ext2 = list(ext)
                ext2[k] += 1
                fmt = lambda e: 'aextent %d %d %s' % (a.ord, len(e), ' '.join(str(x) for x in e))
                out.append(('extent', [fmt(ext2)], [fmt(ext)]))
            if all(x.kind != 'frame' or True for x in a.dims):
                again = ['deldims %d' % a.ord] + sum([dim_lines(a, i + 1, x) for i, x in enumerate(a.dims)], [])
                out.append(('dimcount', ['dset %d 0' % a.ord], again))
        out.append(('arrayunit-soft', ['aunit %d %s' % (a.ord, s('spikes'))], ['aunit %d %s' % (a.ord, s(a.unit or 'mV'))]))
        if not a.poly and not a.origin:
            out.append(('calibration-soft', ['apoly %d 2' % a.ord], ['anopoly %d' % a.ord]))
            out.append(('calibration-soft', ['aorigin %d' % a.ord], ['anoorigin %d' % a.ord]))
        out.append(('arraytype', ['h5 notype %d' % a.ord], ['etype %d t' % a.ord]))
    for (sname, parent, props) in plan.sections:
        for (pname, nvals, unit) in props:
            po = plan.ords[('prop', sname, pname)]
            if nvals and unit:
                out.append(('propunit-soft', ['pnounit %d' % po], ['punit %d %s' % (po, s(unit))]))
                out.append(('propunit-nonsi', ['punit %d %s' % (po, s('spikes'))], ['punit %d %s' % (po, s(unit))]))
            if not nvals:
                out.append(('propvalues-soft', ['pvalues %d 2' % po], ['pvalues %d 0' % po]))
    return out


def history_case(rnd, size, rounds):
    p = make_plan(rnd, size)
    lines = emit(p, final=False)
    used = set()
    # edits of arrays that were touched by an earlier edit of another class are avoided: one rule flips per round
    lines.append(rnd.choice(['validate', 'vlive', 'vlive']))
    names = []
    for _ in range(rounds):
        cands = [e for e in history_edits(rnd, p) if e[0] not in used]
        if not cands:
            break
        pick = rnd.choice(sorted(set(e[0] for e in cands)))          # every edit class equally likely
        name, brk, fix = rnd.choice([e for e in cands if e[0] == pick])
        used.add(name)
        names.append(name)
        lines += brk
        lines.append(rnd.choice(['validate', 'vlive', 'vlive']))
        if rnd.random() < 0.3:
            lines.append('entities ' + rnd.choice(['ro', 'rw']))
        lines += fix
        lines.append(rnd.choice(['validate', 'vlive', 'vlive']))
    return Case(lines, 'history')


def directed_histories():
    """the smallest histories for the unit cache of seeded change C19-B3 and its mirror image"""
    cases = []
    for multi in (False, True):
        for live in ('vlive', 'validate'):
            for start_bad in (False, True):
                a = _arr('a0', EXT[2], ['samp', 'range'])
                arrays = [a]
                t = _tag('t0', multi, [a], ['s', 'ms'], arrays, 2)
                p = _one_block(arrays, [t])
                lines = emit(p, final=False)
                bad = 'dunit %d 1 %s' % (a.ord, s('mV'))
                good = 'dunit %d 1 %s' % (a.ord, s('s'))
                seq = [bad, good, bad] if start_bad else [good, bad, good]
                for x in seq:
                    lines += [x, live]
                cases.append(Case(lines, 'history-directed'))
    return cases

def pinned_family():
    """the smallest files for the tag-unit rule: a 2-D / 3-D reference whose dimensions all have unit s (or ms),
    tag (or multi-tag) units with one non-convertible entry at every index"""
    cases = []
    for multi in (False, True):
        for rank in (2, 3):
            for bad in range(rank):
                for later in ('s', 'ms'):
                    p = Plan()
                    a = Arr('b0', 'a0', [2] * rank)
                    for _ in range(rank):
                        dm = Dim('samp')
                        dm.unit, dm.base = 's', 's'
                        a.dims.append(dm)
                    t = Tag('b0', 't0', multi)
                    t.refs = [a]
                    t.units = [later] * rank
                    t.units[bad] = 'V'
                    arrays = [a]
                    if multi:
                        pa = Arr('b0', 'pos', [1, rank])
                        pa.dims = [Dim('set'), Dim('set')]
                        arrays.append(pa)
                        t.pos = pa
                    else:
                        t.pos = [0.0] * rank
                    p.blocks.append(('b0', arrays, [t], []))
                    cases.append(Case(emit(p), 'hard-tagunits-directed'))
                    if later == 's':
                        # one unit more than the reference has dimensions: the else branch of the loop
                        t.units = t.units + ['s']
                        cases.append(Case(emit(p), 'hard-tagunits-directed'))
                        t.units = t.units[:-1]
    return cases


class C19(Prop):
    id = 'C19'
    driver = 'drv_C19'
    model = 'C19'
    search_scale = 1          # widened search: thorough volume (about 5 000 files) per further seed
    level_text = ('Machine-checked Coq theorems about a hand-written model of src/valid (must/should/could with "a throwing getter '
                  'fails the condition", the rule tables of validate.cpp in order, the loops of checks.cpp, the walk of File::validate): '
                  'soundness (a file that satisfies the documented hard rules gets no error; entity-wise: an error about an entity implies '
                  'that entity breaches a documented hard rule), completeness for each of the nine hard breaches C19 lists (entity-wise, '
                  'any tree, any combination), soft breaches give warnings and never errors.  The model is tied to the library by a '
                  'correspondence run on generated files with injected breaches; the implementation is judged by the extracted '
                  'specification (verdict clauses), proved to hold of the repaired model on every tree.')
    level_note = ('Trusted: Coq kernel, extraction, driver glue, the Python twin of ValidSpec.judge (cross-checked against the extracted '
                  'judge on every case).  Assumed: util::isSIUnit / isCompoundSIUnit / isScalable are parameters of model and '
                  'specification (unit algebra = C18); atomic SI units are SI units; ids are unique (C12); getters called outside the '
                  'try block of a condition do not throw.  Axioms: only the standard-library axioms of the reals that Flocq brings '
                  '(binary64 ticks and sampling intervals).  While a defect is open the model mirrors it (Validator.tagUnits_variant / '
                  'propUnit_variant = AsPinned): Properties_C19 then holds the refutation of the full statement for that variant next '
                  'to the partial statement, and the full statement proved for the repaired variant.')
    technique = ('Coq proof over a validator model whose rule tables are proved equal to tables regenerated from src/valid/validate.cpp '
                 'on every run + correspondence on generated nix files with breach injection')
    nontrivial_rule = ('histories (build, validate, an edit that flips one rule, validate again, repair, validate ... in one process, in the open '
                       'session through kept-alive handles or after a reopen) and single files; first a directed family (every loop of checks.cpp, of the rule tables and of File::validate with the '
                       'breaching dimension / unit / reference / sibling entity at the first, a middle and the last position, all '
                       'other elements fine), then random files: a case is a complete nix file (1-3 blocks, rank 1-3 arrays with set/sampled/range/alias/data-frame dimensions, '
                       'tags and multi-tags with units/extents/features, nested sources, nested sections with properties) built '
                       'rule-conforming and then damaged by 0-4 breaches drawn from the 9 hard rules, the 4 soft rules and a grey-zone '
                       'stream, through the API where it allows and through raw HDF5 otherwise; distinct = distinct script text; '
                       'non-trivial = the model produced an answer for the validate line')
    assumptions = ['util::isSIUnit, util::isCompoundSIUnit, util::isScalable are parameters (property C18); in the drivers they are a '
                   'table covering the 23 unit strings the generator uses',
                   'every atomic SI unit of the documentation is accepted by util::isSIUnit; "convertible" is util::isScalable',
                   'entity ids are pairwise distinct and different from "unknown" (C12)',
                   'calls made outside the try block of a condition (id(), name(), the getters inside check functors) do not throw; '
                   'files on which they do make File::validate() itself throw and are outside the model']
    trusted_base = ['rule tables: tools/translate/gen.py (gen_validate) regenerates coq/Gen/GenValidate.v from src/valid/validate.cpp on every '
                    'run; C19_rule_tables_are_generated / C19_tables_are_interpretations tie the model tables to it',
                    'check functors, getters (environments of coq/Valid/ValidRules.v), the loops of checks.cpp and the walk of '
                    'File::validate: hand-written in coq/Valid/Validator.v, tied by the correspondence run',
                    'tools/props/C19.py judge (Python twin of ValidSpec.judge1), cross-checked on every case against the extracted judge']

    def __init__(self):
        self.clause_counts = {}

    def generate(self, seed, tier, scale=1):
        rnd = random.Random(seed)
        cases = []
        if scale == 1:
            cases += pinned_family()
            cases += loop_family()
            cases += untouched_family()
            cases += directed_histories()
        k = scale * (1 if tier == 'quick' else 20)
        # conforming files
        for i in range(40 * k):
            cases.append(Case(emit(make_plan(rnd, i % 3)), 'conforming'))
        # one breach of every kind, at a random entity (plans are redrawn until the breach has a site)
        def family(prefix, table, count):
            for name, fn in table:
                made = tries = 0
                while made < count and tries < 40 * count:
                    tries += 1
                    p = make_plan(rnd, tries % 3)
                    if fn(rnd, p):
                        cases.append(Case(emit(p), prefix + name))
                        made += 1
        family('hard-', HARD, 10 * k)
        family('soft-', SOFT, 8 * k)
        family('other-', OTHER, 6 * k)
        # histories: validate, edit, validate again in one process
        for i in range(40 * k):
            cases.append(history_case(rnd, i % 2, rnd.randint(2, 5)))
        # combinations
        for i in range(70 * k):
            p = make_plan(rnd, 1 + i % 2)
            pool = HARD * 3 + SOFT * 2 + OTHER
            names = []
            for _ in range(rnd.randint(2, 4)):
                name, fn = rnd.choice(pool)
                if fn(rnd, p):
                    names.append(name)
            if names:
                cases.append(Case(emit(p), 'combination'))
        return cases

    def compare(self, a, b):
        if b.startswith('SPEC'):
            for c in b.split(' ')[2:]:
                kind = c.split(':')[0]
                self.clause_counts[kind] = self.clause_counts.get(kind, 0) + 1
            return not failing_clauses(a, b)
        return a == b

    def nontrivial(self, case, model_lines):
        return any(l.startswith('OK ') and l != 'OK -' for l in model_lines)

    @staticmethod
    def kinds(case):
        """ordinal -> kind letter, from the creating commands of the script"""
        k = []
        for l in case.lines:
            c = l.split(' ')[0]
            if c in ('block', 'array', 'frame', 'tag', 'mtag', 'feat', 'source', 'section', 'prop'):
                k.append(c)
        return k

    def signature(self, case, impl_lines, spec_lines):
        kinds = self.kinds(case)
        out = set()
        for a, b in zip(impl_lines, spec_lines):
            if a.startswith('OK MODE '):
                out.add('verdict-depends-on-open-mode')
                continue
            if not b.startswith('SPEC'):
                if a != b:
                    out.add('entity-routes' if b.startswith('OK walk=') else 'script:' + b.split(' ')[0])
                continue
            ans = parse_answer(a) or []
            for c in failing_clauses(a, b):
                f = c.split(':')
                if f[0] in ('EU', 'WU'):
                    out.add('%s:%s' % (f[0], bytes.fromhex(f[3]).decode()[:40] if len(f) > 3 else ''))
                elif f[0] == 'W' and f[1].isdigit() and int(f[1]) < len(kinds):
                    out.add('W@%s:%s' % (kinds[int(f[1])], bytes.fromhex(f[3]).decode()[:40] if len(f) > 3 else ''))
                elif f[0] in ('E', 'NE') and f[1].isdigit() and int(f[1]) < len(kinds):
                    kind = kinds[int(f[1])]
                    if f[0] == 'E' and kind in ('tag', 'mtag'):
                        out.add('E@tagunits')
                    elif f[0] == 'NE':
                        texts = sorted(set(bytes.fromhex(t[2:]).decode()[:40] for (k, w, t) in ans if k == 'E' and w == f[1]))
                        out.add('NE@%s:%s' % (kind, '|'.join(texts)))
                    else:
                        out.add('%s@%s' % (f[0], kind))
                else:
                    out.add(':'.join(f[:2]) if f[0] != 'NOERR' else 'NOERR')
        # a file that fails NOERR always fails a more specific clause too
        if len(out) > 1:
            out.discard('NOERR')
        return {'fail': '+'.join(sorted(out))}

    def describe(self, case, impl_lines, spec_lines):
        for a, b in zip(impl_lines, spec_lines):
            if b.startswith('SPEC') and failing_clauses(a, b):
                return 'validate answers %r; the specification demands %r; failing clauses %r' % (a, b, failing_clauses(a, b))
        return 'implementation answers %r where the specification requires %r' % (impl_lines, spec_lines)

    def extra_checks(self, ctx):
        """cross-check the Python clause semantics against the extracted Coq judge on the model's own answers"""
        cases = self.generate(ctx['seed'], ctx['tier'], 1)
        wd = tempfile.mkdtemp(prefix='C19-judge-', dir=os.path.join(BUILD, 'run'))
        cf = os.path.join(wd, 'cases.txt')
        with open(cf, 'w') as f:
            for c in cases:
                f.write(c.text() + '\n')
        r = subprocess.run([ctx['model_exe'], cf], capture_output=True, text=True)
        checked = 0
        fails = []
        for line in r.stdout.split('\n'):
            if ' ## SPEC ' not in line:
                continue
            model, spec = line.split(' ', 1)[1].split(' ## ', 1)
            j = spec.split(' ')[1]
            py = not failing_clauses(model, spec)
            checked += 1
            if (j == 'J=1') != py and not fails:
                fails.append({'case': Case(['# judge cross-check', line[:200]], 'judge'), 'impl': ['python judge %s' % py], 'spec': [j]})
        try:
            os.remove(cf)
            os.rmdir(wd)
        except OSError:
            pass
        ctx['ev']['judge_crosscheck_cases'] = checked
        # routes of the public interface the driver calls, and how many calls each got in this run
        ROUTE = {'block': 'valid::validate(const Block&)', 'array': 'valid::validate(const DataArray&)',
                 'tag': 'valid::validate(const Tag&)', 'mtag': 'valid::validate(const MultiTag&)',
                 'feat': 'valid::validate(const Feature&)', 'source': 'valid::validate(const Source&)',
                 'section': 'valid::validate(const Section&)', 'prop': 'valid::validate(const Property&)',
                 'dset': 'valid::validate(const SetDimension&)', 'dsamp': 'valid::validate(const SampledDimension&)',
                 'drange': 'valid::validate(const RangeDimension&)', 'dalias': 'valid::validate(const RangeDimension&)'}
        ep = {}
        for c in cases:
            cmds = [l.split(' ')[0] for l in c.lines]
            if 'entities' not in cmds:
                continue
            for k in cmds:
                if k in ROUTE:
                    ep[ROUTE[k]] = ep.get(ROUTE[k], 0) + 1
                if k in ('dset', 'dsamp', 'drange', 'dalias', 'ddf'):
                    ep['valid::validate(const Dimension&)'] = ep.get('valid::validate(const Dimension&)', 0) + 1
            for r in ('valid::validate(const File&)', 'File::validate() == concat of the free functions in walk order',
                      'File::validate() in a ReadOnly session (first observation)', 'File::validate() in a ReadWrite session',
                      'Result::ok/hasErrors/hasWarnings/concat/addError/addWarning/none_t ctors/operator<< on every Result',
                      'Message::id == entity id on every message'):
                ep[r] = ep.get(r, 0) + 1
        ctx['ev']['entry_points'] = dict(sorted(ep.items()))
        # histories: validations per case and the editing commands that ran between two validations of one process
        EDITS = ('dunit', 'dnounit', 'deldims', 'tunits', 'unref', 'ref', 'fdata', 'mpositions', 'etype', 'adata', 'dlabels', 'dticks',
                 'dinterval', 'doffset', 'dnooffset', 'frows', 'aextent', 'dset', 'aunit', 'apoly', 'anopoly', 'aorigin', 'anoorigin',
                 'pnounit', 'punit', 'pvalues', 'h5')
        hist = {'cases': 0, 'validations': 0, 'in_open_session(vlive)': 0, 'edit_commands': {}}
        for c in cases:
            cmds = [l.split(' ')[0] for l in c.lines]
            nv = sum(1 for k in cmds if k in ('validate', 'vlive'))
            if nv < 2:
                continue
            hist['cases'] += 1
            hist['validations'] += nv
            hist['in_open_session(vlive)'] += cmds.count('vlive')
            first = min(i for i, k in enumerate(cmds) if k in ('validate', 'vlive'))
            for k in cmds[first:]:
                if k in EDITS:
                    hist['edit_commands'][k] = hist['edit_commands'].get(k, 0) + 1
        ctx['ev']['histories'] = hist
        ctx['ev']['entry_points_note'] = ('descriptor routes are counted per descriptor the script creates (a few are unlinked again by raw '
                                          'HDF5 before the call); the library has no validate for Group, DataFrame and DataFrameDimension')
        ctx['ev']['clauses_judged_on_implementation'] = {k: v // 1 for k, v in sorted(self.clause_counts.items())}
        return fails


PROP = C19()
