"""C13 — dimension descriptors are gap-free, faithful, and aliases mirror their array.
Hand-written model of every dimension entry point (coq/Store/Dims.v: order of checks, backend effects, exception
classes; defects of the pinned tree behind switches) proved, for the repaired behaviour, to refine a plain-list
specification and to keep the invariants over ALL histories; tied to the implementation by replaying generated
histories (one fresh file each) on both sides with a complete dump of the dimension state after every mutating call."""
import random, struct
from engine import Prop, Case


def hx(s):
    return 's:' + s.encode().hex()


def dd(x):
    return 'd:%016x' % struct.unpack('<Q', struct.pack('<d', x))[0]


def undd(t):
    return struct.unpack('<d', struct.pack('<Q', int(t[2:], 16)))[0]


NAN = float('nan')
INF = float('inf')

NUMERIC = ['Double', 'Double', 'Int32', 'Float', 'Int64', 'UInt8', 'Int16', 'UInt64', 'Int8', 'UInt16', 'UInt32']
NONNUM = ['String', 'Bool']
INTS = {'Int8', 'Int16', 'Int32', 'Int64', 'UInt8', 'UInt16', 'UInt32', 'UInt64'}

UNITS_OK = ['mV', 'ms', 's', 'Hz', 'kHz', 'mV/s', 'm*s^-2', 'uA']
UNITS_BAD = ['spikes', 'mV/', ' ms ', 'm V', 'foo', 'ms ']
LABELS = ['time', 'x', 'a b', 'voltage', 'L']

# frame schemas: (name, rows, [(column, unit, type)])
FRAMES = [
    ('f0', 2, [('name', '', 'String'), ('freq', 'Hz', 'Double'), ('n', '', 'Int64')]),
    ('f1', 0, [('t', 's', 'Double')]),
    ('f2', 5, [('id', '', 'UInt32'), ('ok', '', 'Bool')]),
    ('f3', 1, [('a', 'mV', 'Double'), ('b', 'ms', 'Int32'), ('c', '', 'String'), ('d', 'spikes', 'UInt64')]),
]

# frames of the OTHER block: a name of their own, or the name of a local frame (names are unique per block only)
FOREIGN_UNIQUE = [('g', 1, [('x', 's', 'Double')]), ('h', 3, [('u', '', 'Int64'), ('v', 'mV', 'Double')])]

MUTATORS = ('append_', 'create_', 'delete_dims', 's_', 't_', 'r_ticks ', 'r_label', 'r_unit', 'a_', 'reopen', 'recreate', 'drop_b2')


ROUTED = ('s_', 't_', 'r_', 'f_q', 'f_ticks')      # calls that address one descriptor: the handle can come by several routes
ROUTES = {'via1': 'X::operator=(const Dimension&)', 'via2': 'DataArray::dimensions(filter) -> as<X>Dimension()',
          'via3': 'Dimension(const X&) + Dimension::operator=(const X&) + X::operator=(const X&)',
          '': 'getDimension(i).as<X>Dimension()'}


def strip_route(line):
    return line[5:] if line.startswith('via') and line[4:5] == ' ' else line


def is_mutator(line):
    line = strip_route(line)
    return line.startswith(MUTATORS) and not line.startswith(('r_at', 'r_tickat', 'r_ticks_sc', 'r_axis', 's_at'))


class Gen:
    """one history; keeps a rough picture of the descriptors (as the pinned code would leave them) to aim the calls"""

    def __init__(self, rnd):
        self.r = rnd
        self.lines = []
        self.kinds = []          # 'S' 'T' 'R' 'A' 'F' per index (approximate)
        self.ro = False

    # ---- values ----
    def unit(self, p_bad=0.3, allow_empty=True):
        r = self.r
        x = r.random()
        if allow_empty and x < 0.25:
            return ''
        if x < 0.25 + p_bad:
            return r.choice(UNITS_BAD)
        return r.choice(UNITS_OK)

    def label(self, p_empty=0.3):
        return '' if self.r.random() < p_empty else self.r.choice(LABELS)

    def ticks(self, kind=None, allow_nan=True):
        r = self.r
        kind = kind or r.choice(['sorted', 'sorted', 'sorted', 'unsorted', 'empty', 'single', 'dups', 'nan', 'desc'])
        n = r.randint(2, 5)
        base = sorted(r.choice([-3.5, -1.0, 0.0, 0.25, 1.0, 2.0, 3.0, 7.5, 1e10, -2e10, 100.0]) for _ in range(n))
        if kind == 'sorted':
            return base
        if kind == 'dups':
            return sorted(base + [base[0]])
        if kind == 'empty':
            return []
        if kind == 'single':
            return [r.choice([0.0, -1.0, 4.0, NAN if allow_nan and r.random() < 0.2 else 2.0])]
        if kind == 'desc':
            return [3.0, 2.0, 1.0]
        if kind == 'nan':
            if not allow_nan:
                return base
            t = list(base)
            t.insert(r.randrange(len(t) + 1), NAN)
            if r.random() < 0.5:
                t.reverse()
            return t
        t = list(base)
        r.shuffle(t)
        if t == sorted(t):
            t = [2.0, 1.0] + t
        return t

    def interval(self):
        r = self.r
        x = r.random()
        if x < 0.55:
            return r.choice([1.0, 0.5, 1e-3, 0.1, 250.0])
        if x < 0.65:
            return r.choice([5e-324, INF, 1e308])
        return r.choice([0.0, -0.0, -1.0, -1e-300, NAN, -INF])

    def offset(self):
        return self.r.choice([0.0, 0.0, -0.0, 2.5, -2.5, 1e300, -1e-300, 5e-324, NAN, -INF, 1.0, -1.0])

    def labels(self):
        r = self.r
        n = r.choice([0, 0, 1, 2, 3])
        return [r.choice(['a', 'b', '', 'label x', 'c']) for _ in range(n)]

    def idx(self, want=None):
        """a dimension index: mostly one that exists (of the wanted kinds), sometimes not"""
        r = self.r
        n = len(self.kinds)
        x = r.random()
        if x < 0.08 or n == 0:
            return r.choice([0, n + 1, n + 2, 0xffffffffffffffff, 1])
        if want and x < 0.85:
            c = [i + 1 for i, k in enumerate(self.kinds) if k in want]
            if c:
                return r.choice(c)
        return r.randint(1, n)

    def datavals(self, dtype):
        r = self.r
        n = r.choice([0, 1, 2, 3, 4])
        pool = [0.0, 1.0, 2.0, -1.0, 1.5, -2.5, 3e10, -3e10, 1e19, 255.0, 256.0, -129.0, 65536.0, 0.1, 1e39, -0.0, INF]
        if dtype in ('Float', 'Double'):
            pool = pool + [NAN]
        return [r.choice(pool) for _ in range(n)]

    # ---- emitting ----
    def emit(self, line):
        if line.startswith(ROUTED) and self.r.random() < 0.35:
            line = self.r.choice(['via1', 'via2', 'via3']) + ' ' + line
        self.lines.append(line)
        if is_mutator(line):
            self.lines.append('observe')

    def new(self, dtype, rank, length, frames, foreign=()):
        self.dtype, self.rank, self.frames = dtype, rank, frames
        self.handles = [list(f[2]) for f in foreign]     # columns of every foreign handle (grows with `recreate`)
        self.b2 = True
        t = ['new', dtype, str(rank), str(length), str(len(frames))]
        for group in (frames, None, foreign):
            if group is None:
                t.append(str(len(foreign)))
                continue
            for (name, rows, cols) in group:
                t += [hx(name), str(rows), str(len(cols))]
                for (c, u, ty) in cols:
                    t += [hx(c), hx(u), ty]
        self.lines.append(' '.join(t))
        self.lines.append('observe')

    def fref(self, p_foreign=0.22):
        r = self.r
        x = r.random()
        if x < 0.06:
            return 'none'
        if x < 0.06 + p_foreign and self.handles:
            return 'foreign:%d' % r.choice(list(range(len(self.handles))) + [len(self.handles) - 1])
        return str(r.randrange(len(self.frames)))

    def fcols(self, f):
        if f.isdigit():
            return self.frames[int(f)][2]
        if f.startswith('foreign:'):
            return self.handles[int(f[8:])]
        return [('x', '', 'Double')]

    def recreate(self):
        """delete a local frame and create it anew under the same name: the old handle becomes a foreign (stale) one"""
        if self.ro:
            return
        k = self.r.randrange(len(self.frames))
        self.emit('recreate %d' % k)
        self.handles.append(list(self.frames[k][2]))

    def drop_b2(self):
        if self.ro:
            return
        self.emit('drop_b2')
        self.b2 = False

    def append(self, what=None):
        r = self.r
        what = what or r.choice(['set', 'range', 'range', 'sampled', 'sampled', 'alias', 'df', 'df', 'create'])
        if what == 'set':
            ls = self.labels()
            self.emit('append_set %d%s' % (len(ls), ''.join(' ' + hx(x) for x in ls)))
            if not self.ro:
                self.kinds.append('T')
        elif what == 'range':
            t = self.ticks()
            u = self.unit()
            self.emit('append_range %s %s%s' % (hx(self.label()), hx(u), ''.join(' ' + dd(x) for x in t)))
            if t and not self.ro:
                self.kinds.append('R')
        elif what == 'sampled':
            self.emit('append_sampled %s %s %s %s' % (dd(self.interval()), hx(self.label()), hx(self.unit()), dd(self.offset())))
            if not self.ro:
                self.kinds.append('S')
        elif what == 'alias':
            self.emit('append_alias')
            if not self.kinds and self.rank == 1 and self.dtype not in NONNUM and not self.ro:
                self.kinds.append('A')      # (unless the array unit is not SI - the picture is only rough)
        elif what in ('df', 'df-foreign'):
            f = self.fref(0.9 if what == 'df-foreign' else 0.22)
            form = r.choice(['idx', 'idx', 'name', 'plain'])
            cols = self.fcols(f)
            ncols = len(cols)
            if form == 'idx':
                self.emit('append_df_idx %s %d' % (f, r.choice([0, 0, 1, ncols - 1, ncols, ncols + 1, 7])))
            elif form == 'name':
                names = [c[0] for c in cols]
                self.emit('append_df_name %s %s' % (f, hx(r.choice(names + names + ['nope', '']))))
            else:
                self.emit('append_df %s' % f)
            if f.isdigit() and not self.ro:
                self.kinds.append('F')      # rough
        else:
            k = r.choice(['set', 'range', 'sampled', 'alias'])
            i = r.choice([0, 1, len(self.kinds) + 1, 99])
            if k == 'set':
                self.emit('create_set %d' % i)
                if not self.ro:
                    self.kinds.append('T')
            elif k == 'range':
                t = self.ticks()
                self.emit('create_range %d%s' % (i, ''.join(' ' + dd(x) for x in t)))
                if t and not self.ro:
                    self.kinds.append('R')
            elif k == 'sampled':
                self.emit('create_sampled %d %s' % (i, dd(self.interval())))
                if not self.ro:
                    self.kinds.append('S')
            else:
                self.emit('create_alias')
                if not self.kinds and self.rank == 1 and self.dtype not in NONNUM and not self.ro:
                    self.kinds.append('A')

    def optstr(self, s):
        return 'none' if s is None else hx(s)

    def setter(self):
        r = self.r
        fam = r.choice(['s', 's', 't', 'r', 'r'])
        if fam == 's':
            i = self.idx('S')
            f = r.choice(['label', 'unit', 'interval', 'offset'])
            if f == 'label':
                self.emit('s_label %d %s' % (i, self.optstr(r.choice([None, '', 'time', 'x y']))))
            elif f == 'unit':
                self.emit('s_unit %d %s' % (i, self.optstr(None if r.random() < 0.2 else self.unit(0.35))))
            elif f == 'interval':
                self.emit('s_interval %d %s' % (i, dd(self.interval())))
            else:
                self.emit('s_offset %d %s' % (i, 'none' if r.random() < 0.25 else dd(self.offset())))
        elif fam == 't':
            i = self.idx('T')
            if r.random() < 0.5:
                self.emit('t_label %d %s' % (i, self.optstr(r.choice([None, '', 'cond', 'a']))))
            elif r.random() < 0.25:
                self.emit('t_labels %d none' % i)
            else:
                ls = self.labels()
                self.emit('t_labels %d %d%s' % (i, len(ls), ''.join(' ' + hx(x) for x in ls)))
        else:
            i = self.idx('RA')
            f = r.choice(['ticks', 'ticks', 'label', 'unit'])
            if f == 'ticks':
                # NaN through an alias into an integer array is a C cast of NaN (excluded domain); the picture of the
                # descriptors is only rough, so: no NaN ticks at all on 1-D integer arrays
                alias_int = self.dtype in INTS and self.rank == 1
                t = self.ticks(allow_nan=not alias_int)
                self.emit('r_ticks %d%s' % (i, ''.join(' ' + dd(x) for x in t)))
            elif f == 'label':
                self.emit('r_label %d %s' % (i, self.optstr(r.choice([None, '', 'time', 'lbl']))))
            else:
                self.emit('r_unit %d %s' % (i, self.optstr(None if r.random() < 0.2 else self.unit(0.35))))

    def query(self):
        r = self.r
        q = r.choice(['count', 'get', 'dims', 'tickat', 'ticks_sc', 'axis', 'fq', 'fq', 's_at', 'r_at', 'dims_f', 'roa', 'f_ticks', 'f_ticks'])
        n = len(self.kinds)
        big = r.choice([0xffffffffffffffff, 0xfffffffffffffffe, 1 << 63, 1 << 32])
        if q == 'count':
            self.emit('count')
        elif q == 'get':
            self.emit('get %d' % r.choice([0, 1, n, n + 1, big, max(1, n // 2)]))
        elif q == 'dims':
            self.emit('dims')
        elif q == 's_at':
            self.emit('s_at %d %d' % (self.idx('S'), r.choice([0, 1, 2, 3, 7, 1000, 1 << 53, big])))
        elif q == 'r_at':
            self.emit('r_at %d %d' % (self.idx('RA'), r.choice([0, 1, 2, 3, 4, 5, big])))
        elif q == 'dims_f':
            self.emit('dims_f %s' % r.choice('STRF'))
        elif q == 'roa':
            self.emit('range_of_array')
        elif q == 'f_ticks':
            self.f_ticks()
        elif q == 'tickat':
            self.emit('r_tickat %d %d' % (self.idx('RA'), r.choice([0, 1, 2, 3, 4, 5, 6, big])))
        elif q == 'ticks_sc':
            self.emit('r_ticks_sc %d %d %d' % (self.idx('RA'), r.choice([0, 0, 1, 2, 3, 5, big]), r.choice([0, 1, 1, 2, 3, 6, 1000])))
        elif q == 'axis':
            self.emit('r_axis %d %d %d' % (self.idx('RA'), r.choice([0, 1, 2, 3, 6, 1000]), r.choice([0, 0, 1, 2, 5, big])))
        else:
            self.emit('f_q %d %s %s' % (self.idx('F'), r.choice(['label', 'unit', 'type']), r.choice(['-', '-', '0', '1', '2', '3', '4', '9'])))

    def f_ticks(self):
        """DataFrameDimension::ticks<T>: default / explicit / missing column, resize on and off, vector sizes and offsets
        around the number of rows (frames have at most 5 rows)"""
        r = self.r
        resize = r.choice([0, 1])
        off = r.choice([0, 0, 1, 2, 3, 5, 6]) if not resize else r.choice([0, 0, 1, 2, 3, 5, 6, 0xffffffffffffffff])
        self.emit('f_ticks %d %s %d %d %d' % (self.idx('F'), r.choice(['-', '-', '0', '1', '2', '3', '4']), resize,
                                             r.choice([0, 1, 2, 3, 6]), off))

    def array_write(self):
        r = self.r
        w = r.choice(['label', 'unit', 'unit', 'data', 'data'])
        if w == 'label':
            self.emit('a_label %s' % self.optstr(r.choice([None, '', 'signal', 'al'])))
        elif w == 'unit':
            self.emit('a_unit %s' % self.optstr(None if r.random() < 0.15 else r.choice(UNITS_OK + UNITS_BAD + ['', '  ', ' m s '])))
        else:
            if self.dtype in NONNUM:
                self.emit('a_label %s' % hx('nn'))
            else:
                self.emit('a_data%s' % ''.join(' ' + dd(x) for x in self.datavals(self.dtype)))

    def delete(self):
        self.emit('delete_dims')
        if not self.ro:
            self.kinds = []

    def reopen(self, mode):
        self.emit('reopen ' + mode)
        self.ro = (mode == 'ro')


def frames_pick(rnd):
    k = rnd.choice([1, 2, 2])
    return rnd.sample(FRAMES, k)


def foreign_pick(rnd, local):
    """frames of the second block: one with a name of its own and (mostly) one that carries the NAME of a local frame,
    with the same or with other columns"""
    out = [rnd.choice(FOREIGN_UNIQUE)]
    if rnd.random() < 0.75:
        twin = rnd.choice(local)
        cols = twin[2] if rnd.random() < 0.5 else rnd.choice(FRAMES + FOREIGN_UNIQUE)[2]
        out.append((twin[0], rnd.choice([0, 1, twin[1]]), cols))
        if rnd.random() < 0.5:
            out.reverse()
    return out


def history(rnd, flavour):
    g = Gen(rnd)
    if flavour == 'alias':
        dtype = rnd.choice(NUMERIC)
        rank = 1
    elif flavour == 'alias-rejected':
        dtype, rank = rnd.choice([(rnd.choice(NONNUM), 1), (rnd.choice(NUMERIC), rnd.choice([2, 3])), (rnd.choice(NONNUM), 2)])
    else:
        dtype = rnd.choice(NUMERIC + NONNUM)
        rank = rnd.choice([1, 1, 2, 3])
    local = frames_pick(rnd)
    g.new(dtype, rank, rnd.choice([0, 1, 2, 3, 4]), local, foreign_pick(rnd, local))
    n = rnd.randint(6, 16)
    if flavour == 'appends':
        for _ in range(n):
            g.append()
            if rnd.random() < 0.2:
                g.query()
        if rnd.random() < 0.5:
            g.delete()
            for _ in range(rnd.randint(1, 4)):
                g.append()
    elif flavour == 'setters':
        for _ in range(rnd.randint(2, 5)):
            g.append(rnd.choice(['set', 'range', 'sampled']))
        for _ in range(n):
            g.setter()
            if rnd.random() < 0.15:
                g.query()
    elif flavour in ('alias', 'alias-rejected'):
        if rnd.random() < 0.3:
            g.array_write()
        if rnd.random() < 0.15:
            g.append(rnd.choice(['set', 'sampled']))      # alias after another dimension: refused
        g.append('alias')
        for _ in range(n):
            x = rnd.random()
            if x < 0.4:
                g.array_write()
            elif x < 0.75:
                f = rnd.choice(['ticks', 'label', 'unit', 'tickat', 'sc'])
                if f == 'ticks':
                    t = g.ticks(allow_nan=dtype not in INTS)
                    g.emit('r_ticks 1%s' % ''.join(' ' + dd(v) for v in t))
                elif f == 'label':
                    g.emit('r_label 1 %s' % g.optstr(rnd.choice([None, '', 'tl', 'time'])))
                elif f == 'unit':
                    g.emit('r_unit 1 %s' % g.optstr(None if rnd.random() < 0.2 else g.unit(0.35)))
                elif f == 'tickat':
                    g.emit('r_tickat 1 %d' % rnd.choice([0, 1, 2, 3, 5]))
                else:
                    g.emit('r_ticks_sc 1 %d %d' % (rnd.choice([0, 1, 2]), rnd.choice([0, 1, 2, 4])))
            elif x < 0.85:
                g.append()
            elif x < 0.92:
                g.delete()
                g.append('alias')
            else:
                g.reopen(rnd.choice(['rw', 'ro']))
                if g.ro:
                    g.array_write()
                    g.emit('r_label 1 %s' % hx('ro'))
                    g.reopen('rw')
    elif flavour == 'readonly':
        for _ in range(rnd.randint(2, 5)):
            g.append(rnd.choice(['set', 'range', 'sampled', 'sampled', 'df']))
        for _ in range(rnd.randint(0, 3)):
            g.setter()
        g.reopen('ro')
        for _ in range(rnd.randint(4, 10)):
            x = rnd.random()
            if x < 0.5:
                g.setter()
            elif x < 0.7:
                g.append()
            elif x < 0.8:
                g.delete()
            elif x < 0.9:
                g.array_write()
            else:
                g.query()
        g.reopen(rnd.choice(['rw', 'ro']))
        if not g.ro:
            for _ in range(rnd.randint(1, 3)):
                g.setter()
    elif flavour == 'foreign':
        # handles that are not frames of the array's block: other block (own name / a local frame's name), stale
        # handles of deleted-and-recreated frames, frames of a deleted block; then further appends and a reopen
        for _ in range(rnd.randint(0, 2)):
            g.append(rnd.choice(['df', 'set', 'sampled']))
        for _ in range(n):
            x = rnd.random()
            if x < 0.5:
                g.append('df-foreign')
            elif x < 0.62:
                g.recreate()
            elif x < 0.68 and g.b2:
                g.drop_b2()
            elif x < 0.85:
                g.append(rnd.choice(['df', 'set', 'sampled', 'range']))
            elif x < 0.93:
                g.reopen(rnd.choice(['rw', 'rw', 'ro']))
                if g.ro:
                    g.append('df-foreign')
                    g.reopen('rw')
            else:
                g.emit('f_q %d %s %s' % (g.idx('F'), rnd.choice(['label', 'unit', 'type']), rnd.choice(['-', '0', '1'])))
        g.append('df')
        g.reopen('rw')
    elif flavour == 'frames':
        for _ in range(n):
            x = rnd.random()
            if x < 0.5:
                g.append('df')
            elif x < 0.56:
                g.recreate()
            elif x < 0.75:
                g.emit('f_q %d %s %s' % (g.idx('F'), rnd.choice(['label', 'unit', 'type']), rnd.choice(['-', '-', '0', '1', '2', '3', '4'])))
            elif x < 0.9:
                g.f_ticks()
            else:
                g.append(rnd.choice(['set', 'sampled']))
    else:   # mixed
        for _ in range(n + 4):
            x = rnd.random()
            if x < 0.35:
                g.append()
            elif x < 0.65:
                g.setter()
            elif x < 0.8:
                g.query()
            elif x < 0.86:
                g.array_write()
            elif x < 0.89:
                g.recreate()
            elif x < 0.94:
                g.delete()
            else:
                g.reopen(rnd.choice(['rw', 'ro']))
        if g.ro:
            g.reopen('rw')
    g.lines.append('dims')
    g.lines.append('count')
    return g.lines


F0 = [hx('f0'), '2', '2', hx('name'), hx(''), 'String', hx('freq'), hx('Hz'), 'Double']
HDR = 'new Double 1 3 1 ' + ' '.join(F0 + ['2', hx('g'), '1', '1', hx('x'), hx('s'), 'Double'] + F0)
HDR_I = HDR.replace('Double 1 3', 'Int32 1 2', 1)


def directed():
    """short histories aimed at one decision each (they come first, so a defect is reported with a minimal replay)"""
    E = hx('')
    c = []
    c.append(Case([HDR, 'append_range %s %s %s %s %s' % (E, E, dd(3.0), dd(2.0), dd(1.0)), 'observe'], 'directed'))
    c.append(Case([HDR, 'append_sampled %s %s %s %s' % (dd(-1.0), E, E, dd(0.0)), 'observe'], 'directed'))
    c.append(Case([HDR, 'append_sampled %s %s %s %s' % (dd(1.0), E, E, dd(-2.5)), 'observe'], 'directed'))
    c.append(Case([HDR, 'append_range %s %s %s' % (hx('time'), hx('spikes'), dd(1.0)), 'observe'], 'directed'))
    c.append(Case([HDR, 'append_df foreign:0', 'observe'], 'directed'))
    c.append(Case([HDR, 'append_sampled %s %s %s %s' % (dd(1.0), hx('time'), hx('mV/'), dd(2.0)), 'observe'], 'directed'))
    c.append(Case([HDR, 'append_sampled %s %s %s %s' % (dd(1.0), E, E, dd(0.0)), 's_interval 1 %s' % dd(NAN), 'observe'], 'directed'))
    c.append(Case([HDR, 'append_range %s %s %s' % (E, E, dd(1.0)), 'r_ticks 1 %s %s %s' % (dd(2.0), dd(NAN), dd(1.0)), 'observe'], 'directed'))
    c.append(Case([HDR, 'append_sampled %s %s %s %s' % (dd(1.0), E, E, dd(2.0)), 'reopen ro', 's_interval 1 %s' % dd(4.0),
                   'observe', 's_offset 1 %s' % dd(5.0), 'observe', 'reopen ro', 'observe'], 'directed'))
    c.append(Case([HDR, 'append_set 0', 'reopen ro', 'delete_dims', 'observe'], 'directed'))
    # the same entry points with legal arguments, every kind, every getter, zero and negative offsets through the setter
    c.append(Case([HDR, 'append_set 2 %s %s' % (hx('a'), hx('b')), 'observe',
                   'append_range %s %s %s %s' % (hx('time'), hx('ms'), dd(1.0), dd(2.0)), 'observe',
                   'append_sampled %s %s %s %s' % (dd(0.5), hx('x'), hx('mV'), dd(2.5)), 'observe',
                   'append_df_idx 0 1', 'observe', 'append_df_name 0 %s' % hx('name'), 'observe', 'append_df 0', 'observe',
                   's_offset 3 %s' % dd(-2.5), 'observe', 's_offset 3 %s' % dd(0.0), 'observe', 's_offset 3 none', 'observe',
                   'dims', 'count', 'get 0', 'get 7', 'f_q 4 label -', 'f_q 4 unit -', 'f_q 4 type -', 'f_q 6 label -', 'f_q 6 unit -',
                   'reopen rw', 'observe', 'delete_dims', 'observe', 'append_sampled %s %s %s %s' % (dd(2.0), E, E, dd(0.0)), 'observe'], 'directed'))
    c.append(Case([HDR_I, 'a_label %s' % hx('sig'), 'a_unit %s' % hx('mV'), 'append_alias', 'observe',
                   'a_data %s %s %s' % (dd(1.5), dd(-2.0), dd(3e10)), 'observe', 'r_ticks 1 %s %s' % (dd(0.5), dd(7.9)), 'observe',
                   'r_label 1 %s' % hx('tl'), 'observe', 'r_unit 1 %s' % hx('s'), 'observe', 'a_unit %s' % hx('spikes'), 'observe',
                   'r_unit 1 none', 'observe', 'r_tickat 1 1', 'r_ticks_sc 1 0 2', 'r_axis 1 1 1', 'reopen ro', 'observe',
                   'delete_dims', 'reopen rw', 'delete_dims', 'observe', 'a_unit %s' % hx('spikes'), 'append_alias', 'observe'], 'directed'))
    # a column index equal to the number of columns; ticks<T> with resize = false
    c.append(Case([HDR, 'append_df_idx 0 2', 'observe'], 'directed'))
    c.append(Case([HDR, 'append_df_idx 0 1', 'f_ticks 1 - 0 1 0', 'f_ticks 1 - 1 0 0'], 'directed'))
    # every route to the same descriptor, every kind; operator[]; dimensions(filter); RangeDimension(const DataArray&)
    c.append(Case([HDR, 'append_sampled %s %s %s %s' % (dd(0.1), E, E, dd(-2.5)), 'append_range %s %s %s %s' % (E, E, dd(1.0), dd(2.0)),
                   'append_set 1 %s' % hx('a'), 'append_df_idx 0 1', 'append_df 0',
                   'via1 s_label 1 %s' % hx('x'), 'observe', 'via2 s_unit 1 %s' % hx('ms'), 'observe', 'via3 s_interval 1 %s' % dd(2.0), 'observe',
                   'via1 r_ticks 2 %s %s' % (dd(3.0), dd(4.0)), 'observe', 'via2 r_label 2 %s' % hx('rl'), 'observe', 'via3 r_unit 2 %s' % hx('mV'), 'observe',
                   'via1 t_labels 3 1 %s' % hx('q'), 'observe', 'via2 t_label 3 %s' % hx('c'), 'observe', 'via3 t_labels 3 none', 'observe',
                   'via1 f_q 4 label -', 'via2 f_q 4 unit -', 'via3 f_q 4 type -', 'via1 f_ticks 4 - 1 0 0', 'via2 f_ticks 4 0 1 0 1', 'via3 f_ticks 5 1 1 0 2',
                   'via1 s_label 2 %s' % hx('x'), 'via2 r_label 3 %s' % hx('x'), 'via3 t_label 1 %s' % hx('x'), 'via1 s_label 9 %s' % hx('x'),
                   'via2 s_label 9 %s' % hx('x'), 'via3 s_label 9 %s' % hx('x'),
                   's_at 1 0', 's_at 1 3', 'via1 s_at 1 7', 's_at 2 0', 'r_at 2 0', 'via3 r_at 2 1', 'r_at 2 2', 'r_at 1 0',
                   'dims_f S', 'dims_f T', 'dims_f R', 'dims_f F', 'range_of_array'], 'directed'))
    c.append(Case([HDR.replace('Double 1 3', 'Double 2 3', 1), 'range_of_array', 'dims_f R'], 'directed'))
    # frame handles that are not frames of the array's block, all three overloads, then further appends and a reopen:
    # (a) another block's frame with a name of its own, (b) another block's frame with the NAME of a local frame,
    # (c) the stale handle of a deleted-and-recreated local frame, (d) a frame whose block was deleted
    tail = ['append_df 0', 'observe', 'append_sampled %s %s %s %s' % (dd(1.0), E, E, dd(0.0)), 'observe', 'dims', 'count',
            'reopen rw', 'observe', 'append_set 0', 'observe', 'dims']
    for k in (0, 1):
        f = 'foreign:%d' % k
        col, name = ('0', 'x') if k == 0 else ('1', 'freq')
        c.append(Case([HDR, 'append_df %s' % f, 'observe'] + tail, 'directed-foreign'))
        c.append(Case([HDR, 'append_df_idx %s %s' % (f, col), 'observe'] + tail, 'directed-foreign'))
        c.append(Case([HDR, 'append_df_name %s %s' % (f, hx(name)), 'observe'] + tail, 'directed-foreign'))
        c.append(Case([HDR, 'append_set 0', 'append_df_idx 0 0', 'observe', 'append_df %s' % f, 'observe', 'append_df_idx %s 0' % f, 'observe',
                       'append_df_name %s %s' % (f, hx(name)), 'observe', 'drop_b2', 'append_df %s' % f, 'observe',
                       'append_df_idx %s 0' % f, 'observe'] + tail + ['append_df %s' % f, 'observe'], 'directed-foreign'))
    c.append(Case([HDR, 'append_df_idx 0 1', 'observe', 'recreate 0', 'observe', 'append_df foreign:2', 'observe',
                   'append_df_idx foreign:2 1', 'observe', 'append_df_name foreign:2 %s' % hx('freq'), 'observe', 'f_q 1 label -', 'f_q 1 unit -']
                  + tail + ['append_df foreign:2', 'observe'], 'directed-foreign'))
    return c


FLAVOURS = ['appends', 'appends', 'setters', 'setters', 'alias', 'alias', 'alias-rejected', 'readonly', 'frames', 'foreign', 'foreign',
            'mixed', 'mixed']


class C13(Prop):
    id = 'C13'
    driver = 'drv_C13'
    model = 'C13'
    level = 'proof'
    technique = ('Coq model of every dimension entry point (append*/create*Dimension, deleteDimensions, getDimension, '
                 'dimensions, every setter/getter of the four dimension classes, alias redirection, array label/unit/data, '
                 'reopen) with the code\'s order of checks and backend effects; theorems over all histories by induction on '
                 'the op list; refinement to a plain-list specification; correspondence on real files with a full state dump '
                 'after every mutating call')
    level_text = ('Proved in Coq for the REPAIRED behaviour, over all histories from the empty array, all ranks, element '
                  'types, tick/label vectors, units, intervals, offsets: descriptor names are exactly 1..n in append order '
                  '(also for the code as pinned), every getter returns what the last accepted append/setter gave (refinement '
                  'of the storage-level model to a plain list specification, incl. negative and zero offsets), non-alias ticks '
                  'ascending and sampling intervals > 0 after every dimension entry point, the alias answers with the array\'s '
                  'label, unit and data and writes through it land in the array, deleteDimensions leaves none, reopen changes '
                  'nothing, a rejected call changes nothing.  For the code as pinned each of these fails on a computed witness '
                  '(..._refuted) and the last theorem current_is_repaired is the open obligation.  The model is tied to the '
                  'code by the correspondence run (model == implementation on every line); the specification judges the '
                  'implementation\'s answers.')
    level_note = ('Assumed: HDF5 group/attribute/dataset semantics as modelled (creation-order groups named by index, '
                  'attribute overwrite on a read-only file fails after replacing the cached value for fixed-size attributes, '
                  'H5Tconvert hard conversions as in Data/NDArr.v), the SI-unit regular expressions as modelled in '
                  'Units/UnitsModel.v from the generated tables.  Excluded from the compared domain: NaN written through an '
                  'alias into an integer array (C cast of NaN), ticks(start,count) with counts that exhaust memory (the '
                  'vector is allocated before the bound check), column indices >= 2^32; H5Error and H5Exception are not '
                  'distinguished.  Writes to an alias array\'s DATA through the array are not a dimension entry point: the '
                  'sortedness invariant is stated for non-alias range dimensions.')
    nontrivial_rule = ('a case is one history on a fresh file (element type, rank 1..3, 1-2 data frames); it counts as '
                       'non-trivial when the model accepted at least one mutating dimension call; distinct = distinct script text')
    assumptions = ['DataFrameDimension::ticks<T> ignores its resize argument (documentation says otherwise); modelled as implemented',
                   'HDF5 1.10.8 behaves as modelled for groups, attributes, datasets and type conversion (re-checked by every run)',
                   'util::isSIUnit / isCompoundSIUnit / deblankString as modelled in Units/UnitsModel.v over the generated tables']
    trusted_base = ['coq/Store/Dims.v is a faithful reading of the dimension code paths (checked line by line against the '
                    'implementation on every generated history)']

    def canon(self, line):
        return line.replace('nix::hdf5::H5Exception', 'nix::hdf5::H5Error')

    def extra_checks(self, ctx):
        """which public routes the generated requests take, and how many lines each got (into the evidence)"""
        cases = self.generate(ctx['seed'], ctx['tier'], 1)
        routes, entry = {}, {}
        for c in cases:
            for l in c.lines:
                r = l[:4] if l.startswith('via') else ''
                body = strip_route(l)
                if body.startswith(ROUTED):
                    routes[ROUTES[r]] = routes.get(ROUTES[r], 0) + 1
                op = body.split(' ')[0]
                entry[op] = entry.get(op, 0) + 1
        names = {'s_at': 'SampledDimension::operator[]', 'r_at': 'RangeDimension::operator[]', 'dims_f': 'DataArray::dimensions(filter)',
                 'range_of_array': 'RangeDimension(const DataArray&)', 'f_ticks': 'DataFrameDimension::ticks<T>(vector&, col, resize, offset)',
                 'dims': 'DataArray::dimensions()', 'get': 'DataArray::getDimension', 'count': 'DataArray::dimensionCount'}
        ctx['ev']['descriptor_handle_routes'] = routes
        ctx['ev']['entry_points'] = {names.get(k, k): v for k, v in sorted(entry.items())}
        return []

    def nontrivial(self, case, model_lines):
        return any(is_mutator(l) and not l.startswith('reopen') and m.startswith('OK')
                   for l, m in zip(case.lines, model_lines))

    def generate(self, seed, tier, scale=1):
        rnd = random.Random(seed * 7919 + 13)
        n = (455 if tier == 'quick' else 6500) * scale
        cases = directed()
        for k in range(n):
            fl = FLAVOURS[k % len(FLAVOURS)]
            cases.append(Case(history(rnd, fl), fl))
        return cases

    # ---- classification of failures ----
    def first_diff(self, impl, spec):
        return next((i for i, (a, b) in enumerate(zip(impl, spec)) if b != 'ANY' and not self.compare(a, b)), 0)

    def signature(self, case, impl, spec):
        k = self.first_diff(impl, spec)
        line = strip_route(case.lines[k])
        t = line.split(' ')
        op = t[0]
        a, b = impl[k], spec[k]
        acc = a.startswith('OK') and b.startswith('ERR')

        def dbls(ts):
            return [undd(x) for x in ts if x.startswith('d:')]

        def has_nan(v):
            return any(x != x for x in v)

        if op == 'observe' and k > 0:
            pt = strip_route(case.lines[k - 1]).split(' ')
            pop, pa = pt[0], impl[k - 1]
            if pop in ('append_range', 'append_sampled') and 'InvalidUnit' in pa:
                return {'kind': 'invalid-unit-leaves-descriptor'}
            if pop.startswith('append_df') and any(x.startswith('foreign') for x in pt) and pa.startswith('ERR'):
                return {'kind': 'foreign-frame-leaves-descriptor', 'op': 'append_df'}
            if pop == 'append_sampled' and pa.startswith('OK'):
                off = undd(pt[4])
                if off < 0 or off != off:
                    return {'kind': 'negative-offset-dropped', 'op': pop}
            if pop in ('s_interval', 's_offset') and pa.startswith('ERR') and 'H5' in pa:
                return {'kind': 'readonly-attribute-overwrite-visible', 'op': pop}
            return {'kind': 'state-differs', 'after': pop, 'refused': pa.startswith('ERR')}
        if acc and op in ('append_range', 'create_range'):
            v = dbls(t)
            return {'kind': 'nan-ticks-accepted' if has_nan(v) else 'unsorted-ticks-accepted', 'op': 'append_range'}
        if acc and op in ('append_sampled', 'create_sampled'):
            x = undd(t[1] if op == 'append_sampled' else t[2])
            return {'kind': 'nan-interval-accepted' if x != x else 'nonpositive-interval-accepted', 'op': 'append_sampled'}
        if acc and op == 's_interval':
            x = undd(t[2])
            return {'kind': 'nan-interval-accepted' if x != x else 'nonpositive-interval-accepted', 'op': 's_interval'}
        if acc and op == 'r_ticks':
            return {'kind': 'nan-ticks-accepted', 'op': 'r_ticks'}
        if acc and op == 'append_df_idx':
            return {'kind': 'frame-column-equal-to-count-accepted', 'op': op}
        if acc and op == 'delete_dims':
            return {'kind': 'readonly-delete-reports-success', 'op': op}
        return {'kind': 'wrong-answer', 'op': op, 'refused': a.startswith('ERR'), 'spec_refuses': b.startswith('ERR')}

    def describe(self, case, impl, spec):
        k = self.first_diff(impl, spec)
        return 'call %d (%s): implementation answers %r where the specification requires %r' % (
            k + 1, case.lines[k][:100], impl[k][:300], spec[k][:300])


PROP = C13()
