"""Shared by C05.py / C06.py: generators of retrieval scripts (arrays with every combination of dimension
descriptor kinds, tags / multi-tags with boundary-directed positions and extents) and the classification of
failing cases for the known-findings match."""
import struct, random, itertools
from engine import Case


# ------------------------------------------------------------------------------------------ doubles
def bits(d):
    return struct.unpack('>Q', struct.pack('>d', d))[0]


def frombits(b):
    return struct.unpack('>d', struct.pack('>Q', b & 0xffffffffffffffff))[0]


def enc(d):
    if d != d:
        return 'd:7ff8000000000000'
    return 'd:%016x' % bits(d)


def ulp_next(d, k=1):
    if d != d or d in (float('inf'), float('-inf')):
        return d
    b = bits(d)
    m = -(b & 0x7fffffffffffffff) if b >> 63 else b
    m += k
    b2 = ((-m) | (1 << 63)) if m < 0 else m
    return frombits(b2)


def encs(s):
    return 's:' + s.encode().hex()


INTERVALS = [1.0, 0.1, 0.001, 1.0 / 3.0, 0.25, 2.5e-5]
OFFSETS = [None, 0.0, 0.3, -0.3, 5.0, 1e6]
TIME_UNITS = ['s', 'ms']
FREQ_UNITS = ['Hz', 'kHz']
FACTOR = {'s': 1.0, 'ms': 0.001, 'Hz': 1.0, 'kHz': 1000.0, 'mV': 0.001}
BASE = {'s': 's', 'ms': 's', 'Hz': 'Hz', 'kHz': 'Hz', 'mV': 'V'}
KINDS = ['S', 'R', 'L', 'F']
SETUP = ('reset', 'arr', 'tag', 'mtag', 'ref', 'feat')
NOSPEC = ('dimunit', 'indata', 'pti1', 'ptiv')        # helper functions: judged against the model only


class Dim:
    """one dimension descriptor + the coordinates python computes for it (same binary64 arithmetic as the library)"""

    def __init__(self, kind, n, rnd, consistent=True):
        self.kind = kind
        self.n = n
        self.unit = None
        if kind == 'S':
            self.dt = rnd.choice(INTERVALS)
            self.off = rnd.choice(OFFSETS)
            self.unit = rnd.choice([None, None, 's', 'ms', 'Hz', 'kHz', 'mV'])
            self.alen = 1 << 53
        elif kind in ('R', 'A'):
            # 'A' = alias range dimension of a 1-D array: its ticks are the array's own (strictly ascending) data
            extra = 0 if (consistent or kind == 'A') else rnd.choice([0, 0, 2, -1])
            k = max(1, n + extra)
            style = rnd.choice(['uniform', 'int', 'tight', 'zero'])
            t = []
            if style == 'zero':
                x = 0.0
            elif style == 'int':
                x = float(rnd.randrange(-3, 4))
            else:
                x = rnd.uniform(-5, 5)
            for _ in range(k):
                t.append(x)
                step = rnd.choice(['small', 'one', 'ulp', 'big']) if style != 'int' else 'one'
                x = {'small': x + rnd.uniform(1e-6, 1.0), 'one': x + float(rnd.randrange(1, 4)),
                     'ulp': ulp_next(x, rnd.randrange(1, 4)), 'big': x + rnd.uniform(1, 1e4)}[step]
            self.ticks = t
            self.unit = rnd.choice([None, None, 's', 'ms', 'mV'])
            self.alen = k
        elif kind == 'L':
            self.labels = rnd.choice([0, n]) if consistent else rnd.choice([0, n, n + 2, max(1, n - 1)])
            self.alen = self.labels if self.labels else (1 << 53)
        elif kind == 'F':
            self.rows = n if consistent else rnd.choice([n, n + 3, 0])
            self.alen = self.rows if self.rows else (1 << 53)
            # with a column index (token FC): same axis, but getDimensionUnit reports the unit of that column
            self.fc = rnd.random() < 0.4
            self.colunit = rnd.choice([None, 's', 'ms', 'mV']) if self.fc else None

    def coord(self, i):
        if self.kind == 'S':
            return float(i) * self.dt + (self.off if self.off is not None else 0.0)
        if self.kind in ('R', 'A'):
            return self.ticks[i] if 0 <= i < len(self.ticks) else None
        return float(i)

    def coords_upto(self, k):
        return [c for c in (self.coord(i) for i in range(min(k, self.alen))) if c is not None]

    def text(self):
        u = encs(self.unit) if self.unit else '-'
        if self.kind == 'S':
            return 'S %s %s %s' % (enc(self.dt), enc(self.off) if self.off is not None else '-', u)
        if self.kind in ('R', 'A'):
            return '%s %d %s %s' % (self.kind, len(self.ticks), ' '.join(enc(x) for x in self.ticks), u)
        if self.kind == 'L':
            return 'L %d' % self.labels
        if getattr(self, 'fc', False):
            return 'FC %d %s' % (self.rows, encs(self.colunit) if self.colunit else '-')
        return 'F %d' % self.rows


class Arr:
    def __init__(self, aid, shape, dims):
        self.aid, self.shape, self.dims = aid, shape, dims

    def line(self):
        return 'arr %s %d %s %s' % (self.aid, len(self.shape), ' '.join(str(s) for s in self.shape),
                                   ' '.join(d.text() for d in self.dims))


def random_shape(rnd, rank, big=False):
    if rank == 1:
        return [rnd.choice([1, 2, 3, 5, 8, 12, 20] if not big else [30, 50])]
    if rank == 2:
        return [rnd.randrange(1, 7), rnd.randrange(1, 6)]
    return [rnd.randrange(1, 5), rnd.randrange(1, 4), rnd.randrange(1, 4)]


def make_array(rnd, aid, kinds, shape=None, consistent=True):
    shape = shape or random_shape(rnd, len(kinds))
    return Arr(aid, shape, [Dim(k, n, rnd, consistent) for k, n in zip(kinds, shape)])


# ------------------------------------------------------------------------------------------ positions / extents
def tag_unit_for(rnd, dim, style):
    """unit string of a tag entry and the factor that turns a coordinate of the dimension into a tag value"""
    du = dim.unit
    if style == 'none' or dim.kind in 'LF' and style != 'bad':
        return 'none', 1.0
    if style == 'bad':
        return rnd.choice(['mV', 's', 'Hz']) if du is None else {'s': 'mV', 'Hz': 's', 'V': 'Hz'}[BASE[du]], 1.0
    if du is None:
        return 'none', 1.0
    if style == 'same':
        return du, 1.0
    # scaled: another prefix of the same base
    alts = [u for u in FACTOR if BASE[u] == BASE[du] and u != du]
    if not alts:
        return du, 1.0
    u = rnd.choice(alts)
    return u, FACTOR[du] / FACTOR[u]      # coordinate (in du) -> value in u


def pick_position(rnd, dim, n):
    """a position (in dimension units) relative to the coordinates of the stored data, with its kind"""
    cs = dim.coords_upto(n)
    if not cs:
        return 0.0, 'nocoord', 0
    a = rnd.randrange(0, len(cs))
    x = cs[a]
    nxt = dim.coord(a + 1)
    kind = rnd.choice(['on', 'on', 'on', 'ulp+', 'ulp-', 'between', 'below', 'beyond', 'far', 'first', 'last'])
    if kind == 'on':
        return x, kind, a
    if kind == 'ulp+':
        return ulp_next(x, 1), kind, a
    if kind == 'ulp-':
        return ulp_next(x, -1), kind, a
    if kind == 'between':
        return ((x + nxt) / 2 if nxt is not None else x + 0.5), kind, a
    if kind == 'below':
        return cs[0] - rnd.choice([0.5, 1.0, 1e-9, 100.0]), kind, 0
    if kind == 'beyond':
        return cs[-1] + rnd.choice([0.5, 1.0, 1e-9, 100.0]), kind, len(cs) - 1
    if kind == 'far':
        return rnd.choice([-1e9, 1e9, -3.5, 1e12]), kind, 0
    if kind == 'first':
        return cs[0], kind, 0
    return cs[-1], kind, len(cs) - 1


def extent_reaching(p, target):
    """an extent e with p + e == target in binary64 if one is found near target - p"""
    e = target - p
    for k in (0, 1, -1, 2, -2):
        ek = ulp_next(e, k)
        if p + ek == target:
            return ek
    return e


def pick_extent(rnd, dim, n, p, a):
    """an extent for position p (index a is the coordinate the position was derived from)"""
    cs = dim.coords_upto(n)
    kind = rnd.choice(['zero', 'negative', 'subulp', 'exact', 'exact', 'exact+', 'exact-', 'tolast', 'beyond', 'mid', 'tiny'])
    if kind == 'zero':
        return rnd.choice([0.0, -0.0]), kind
    if kind == 'negative':
        return -rnd.choice([0.5, 1.0, 1e-3, 5e-324]), kind
    if kind == 'subulp':
        e = 5e-324 if p != 0.0 else 0.0
        if p != 0.0 and p + e != p:
            e = abs(p) * 1e-17
        return e, kind
    if kind == 'tiny':
        return abs(ulp_next(p, 1) - p), kind
    if not cs:
        return 1.0, 'nocoord'
    b = rnd.randrange(min(a, len(cs) - 1), len(cs))
    if kind == 'exact':
        return extent_reaching(p, cs[b]), kind
    if kind == 'exact+':
        return extent_reaching(p, ulp_next(cs[b], 1)), kind
    if kind == 'exact-':
        return extent_reaching(p, ulp_next(cs[b], -1)), kind
    if kind == 'tolast':
        return extent_reaching(p, cs[-1]), kind
    if kind == 'beyond':
        nxt = dim.coord(len(cs))
        return (extent_reaching(p, nxt) if nxt is not None and rnd.random() < 0.5 else (cs[-1] - p) + rnd.choice([0.5, 1.0, 1e3])), kind
    nb = dim.coord(b + 1)
    return (((cs[b] + nb) / 2 if nb is not None else cs[b] + 0.25) - p), kind


MODES = ['incl', 'excl', 'default']

# every public entry point of Tag / MultiTag retrieval (include/nix/util/dataAccess.hpp, Tag.hpp, MultiTag.hpp) as a
# route of one of the request commands; member routes have no RangeMatch parameter (mode `default` only)
ROUTES = {
    'tagged':    {'idx': 'util::taggedData(Tag, ndsize_t ref, [match])', 'arr': 'util::taggedData(Tag, DataArray, [match])',
                  'r_idx': 'util::retrieveData(Tag, ndsize_t ref, [match]) (deprecated)', 'r_arr': 'util::retrieveData(Tag, DataArray, [match]) (deprecated)',
                  'm_idx': 'Tag::taggedData(size_t)', 'm_name': 'Tag::taggedData(name)', 'm_id': 'Tag::taggedData(id)',
                  'mr_idx': 'Tag::retrieveData(size_t) (deprecated)', 'mr_name': 'Tag::retrieveData(name) (deprecated)'},
    'feature':   {'idx': 'util::featureData(Tag, ndsize_t feature, [match])', 'feat': 'util::featureData(Tag, Feature, [match])',
                  'r_idx': 'util::retrieveFeatureData(Tag, ndsize_t, [match]) (deprecated)', 'r_feat': 'util::retrieveFeatureData(Tag, Feature, [match]) (deprecated)',
                  'm_idx': 'Tag::featureData(size_t)', 'm_fid': 'Tag::featureData(feature id)', 'm_dname': 'Tag::featureData(data array name)',
                  'mr_idx': 'Tag::retrieveFeatureData(size_t) (deprecated)', 'mr_fid': 'Tag::retrieveFeatureData(feature id)'},
    'mtagged1':  {'idx': 'util::taggedData(MultiTag, ndsize_t pos, ndsize_t ref, [match])', 'arr': 'util::taggedData(MultiTag, ndsize_t pos, DataArray, [match])',
                  'r_idx': 'util::retrieveData(MultiTag, ndsize_t pos, ndsize_t ref, [match]) (deprecated)', 'r_arr': 'util::retrieveData(MultiTag, ndsize_t pos, DataArray, [match]) (deprecated)',
                  'm_idx': 'MultiTag::taggedData(size_t pos, size_t ref)', 'm_name': 'MultiTag::taggedData(size_t pos, name)', 'm_id': 'MultiTag::taggedData(size_t pos, id)',
                  'mr_idx': 'MultiTag::retrieveData(size_t pos, size_t ref) (deprecated)', 'mr_name': 'MultiTag::retrieveData(size_t pos, name)'},
    'mtagged':   {'idx': 'util::taggedData(MultiTag, vector<ndsize_t>, ndsize_t ref, [match])', 'arr': 'util::taggedData(MultiTag, vector<ndsize_t>, DataArray, [match])',
                  'r_idx': 'util::retrieveData(MultiTag, vector<ndsize_t>, ndsize_t ref, [match]) (deprecated)', 'r_arr': 'util::retrieveData(MultiTag, vector<ndsize_t>, DataArray, [match]) (deprecated)',
                  'm_idx': 'MultiTag::taggedData(vector<ndsize_t>, ndsize_t ref)', 'm_name': 'MultiTag::taggedData(vector<ndsize_t>, name)', 'm_id': 'MultiTag::taggedData(vector<ndsize_t>, id)',
                  'mr_idx': 'MultiTag::retrieveData(vector<ndsize_t>, ndsize_t ref) (deprecated)', 'mr_name': 'MultiTag::retrieveData(vector<ndsize_t>, name) (deprecated)'},
    'mfeature1': {'idx': 'util::featureData(MultiTag, ndsize_t pos, ndsize_t feature, [match])', 'feat': 'util::featureData(MultiTag, ndsize_t pos, Feature, [match])',
                  'r_idx': 'util::retrieveFeatureData(MultiTag, ndsize_t pos, ndsize_t feature, [match]) (deprecated)', 'r_feat': 'util::retrieveFeatureData(MultiTag, ndsize_t pos, Feature, [match]) (deprecated)',
                  'm_idx': 'MultiTag::featureData(size_t pos, size_t feature)', 'm_fid': 'MultiTag::featureData(size_t pos, feature id)', 'm_dname': 'MultiTag::featureData(size_t pos, data array name)',
                  'mr_idx': 'MultiTag::retrieveFeatureData(size_t pos, size_t feature) (deprecated)', 'mr_fid': 'MultiTag::retrieveFeatureData(size_t pos, feature id) (deprecated)'},
    'mfeature':  {'idx': 'util::featureData(MultiTag, vector<ndsize_t>, ndsize_t feature, [match])', 'feat': 'util::featureData(MultiTag, vector<ndsize_t>, Feature, [match])',
                  'r_idx': 'util::retrieveFeatureData(MultiTag, vector<ndsize_t>, ndsize_t feature, [match]) (deprecated)', 'r_feat': 'util::retrieveFeatureData(MultiTag, vector<ndsize_t>, Feature, [match]) (deprecated)'},
}
# entry points without a route (called by the plain commands)
PLAIN_ROUTES = {'offcnt': 'util::getOffsetAndCount(Tag, DataArray, NDSize&, NDSize&, [match])',
                'taggeda': 'util::taggedData(Tag, DataArray, [match]) on an array that need not be referenced',
                'moffcnt': 'util::getOffsetAndCount(MultiTag, DataArray, vector<ndsize_t>, vector<NDSize>&, vector<NDSize>&, match) (declared as getOffestAndCount)',
                'moffcnt1': 'util::getOffsetAndCount(MultiTag, DataArray, ndsize_t, NDSize&, NDSize&, [match])'}


DIRECT = {'dimunit': 'util::getDimensionUnit(Dimension)',
          'indata': 'util::positionInData(DataArray, NDSize) + util::positionAndExtentInData(DataArray, NDSize, NDSize), called directly',
          'pti1': 'util::positionToIndex(double, string, PositionMatch, const Dimension &)  (exported, not declared in a header)',
          'ptiv': 'util::positionToIndex(starts, ends, units, RangeMatch, const Dimension &)  (exported, not declared in a header)',
          'wtagged': 'DataView::setData through a view retrieved by util::taggedData(Tag ...), array read back',
          'mwtagged1': 'DataView::setData through a view retrieved by util::taggedData(MultiTag ...), array read back',
          'units-with-blanks': 'Tag::units / MultiTag::units (vector) given strings with blanks (stored sanitised)',
          'FC-dimension': 'data-frame dimension with a column index (getDimensionUnit reports the column unit)'}
U64MAX = (1 << 64) - 1


def _u64(v):
    return str(v) if v < (1 << 62) else hex(v)


def blanked(rnd, units, counts=None):
    """unit strings as a user may type them: blanks anywhere (the setters deblank before storing)"""
    out = []
    for u in units:
        if u != 'none' and rnd.random() < 0.15:
            k = rnd.randrange(0, len(u) + 1)
            u = u[:k] + rnd.choice([' ', '  ', '\t']) + u[k:]
            if counts is not None:
                counts['units-with-blanks'] = counts.get('units-with-blanks', 0) + 1
        out.append(u)
    return out


def direct_queries(rnd, arr, counts=None):
    """calls of the helper functions of dataAccess.hpp on one array: unit of every dimension, in-data tests around the
    extent (ranks that agree or not, zero / huge counts), the generic-Dimension position -> index dispatchers"""
    def cnt(k, n=1):
        if counts is not None:
            counts[k] = counts.get(k, 0) + n
    lines = []
    rank = len(arr.shape)
    for d in range(rank):
        if rnd.random() < 0.6:
            lines.append('dimunit %s %d' % (arr.aid, d))
            cnt('dimunit')
            if getattr(arr.dims[d], 'fc', False):
                cnt('FC-dimension')
    for _ in range(rnd.choice([1, 2, 3])):
        r = rank if rnd.random() < 0.8 else max(0, rank + rnd.choice([-1, 1]))
        rc = r if rnd.random() < 0.85 else max(0, r + rnd.choice([-1, 1]))
        pos, count = [], []
        for d in range(max(r, rc)):
            s = arr.shape[d] if d < rank else 3
            p = rnd.choice([0, 0, max(0, s - 1), s, s + 1, rnd.randrange(0, s), U64MAX])
            c = rnd.choice([0, 1, 1, max(0, s - p) if p <= s else 1, s - p + 1 if p <= s else 2, s, U64MAX, (1 << 64) - p if p else 1])
            pos.append(p)
            count.append(c)
        pos, count = pos[:r], count[:rc]
        lines.append(' '.join(['indata', arr.aid, str(len(pos))] + [_u64(x) for x in pos] + [str(len(count))] + [_u64(x) for x in count]))
        cnt('indata')
    for _ in range(rnd.choice([1, 2])):
        d = rnd.randrange(0, rank)
        dim = arr.dims[d]
        p, _, _ = pick_position(rnd, dim, arr.shape[d])
        u, f = tag_unit_for(rnd, dim, rnd.choice(['none', 'none', 'same', 'scaled', 'bad']))
        lines.append('pti1 %s %d %s %s %s' % (arr.aid, d, enc(p * f), encs(u), rnd.choice(['L', 'LE', 'GE', 'G', 'EQ'])))
        cnt('pti1')
    d = rnd.randrange(0, rank)
    dim = arr.dims[d]
    n = rnd.choice([0, 1, 2, 3])
    ss, es, us = [], [], []
    for _ in range(n):
        p, _, a = pick_position(rnd, dim, arr.shape[d])
        e, _ = pick_extent(rnd, dim, arr.shape[d], p, a)
        u, f = tag_unit_for(rnd, dim, rnd.choice(['none', 'same', 'scaled', 'bad']) if rnd.random() < 0.5 else 'none')
        ss.append(p * f)
        es.append((p + e) * f)
        us.append(u)
    if rnd.random() < 0.1 and n:
        (ss if rnd.random() < 0.5 else us).pop()          # sizes that do not agree
    lines.append(' '.join(['ptiv', arr.aid, str(d), rnd.choice(['incl', 'excl']), str(len(ss))] + [enc(x) for x in ss] +
                          [str(len(es))] + [enc(x) for x in es] + [str(len(us))] + [encs(x) for x in us]))
    cnt('ptiv')
    return lines


def is_member_route(route):
    return route.startswith('m_') or route.startswith('mr_')


def routed(rnd, cmd, rest, mode, route=None, counts=None):
    """query line `cmd@route rest...` with the mode adjusted to the route (member routes: default only)"""
    if route is None:
        route = rnd.choice(sorted(ROUTES[cmd]))
    if is_member_route(route):
        mode = 'default'
    if counts is not None:
        counts[cmd + '@' + route] = counts.get(cmd + '@' + route, 0) + 1
    first, others = rest[0], rest[1:]
    return ' '.join(['%s@%s' % (cmd, route), str(first), mode] + [str(x) for x in others])


def all_routes(rnd, cmd, rest, counts=None):
    """the request through every entry point, in the modes each admits"""
    out = []
    for route in sorted(ROUTES[cmd]):
        for mode in (['default'] if is_member_route(route) else MODES):
            out.append(routed(rnd, cmd, rest, mode, route, counts))
    return out
LINKS = ['tagged', 'untagged', 'indexed']


def all_kind_combos():
    out = []
    for rank in (1, 2, 3):
        out += list(itertools.product(KINDS, repeat=rank))
    out.append(('A',))          # 1-D array whose only dimension is an alias range dimension ("event times")
    return out


def entry_for(rnd, dim, n, ext_mode, unit_style):
    """one (position, extent, unit) entry of a tag for a dimension, values in TAG units"""
    p, pk, a = pick_position(rnd, dim, n)
    if ext_mode == 'absent':
        e, ek = None, 'absent'
    elif ext_mode == 'zero':
        e, ek = 0.0, 'zero'
    else:
        e, ek = pick_extent(rnd, dim, n, p, a)
    u, f = tag_unit_for(rnd, dim, unit_style)
    if f != 1.0:
        p = p * f
        if e is not None:
            e = e * f
    return p, e, u, pk + '/' + ek


def feature_array(rnd, aid, ref, link, npos=None):
    """an array to hang on a feature: tagged features get descriptors like the reference; indexed ones
    a first dimension that (mostly) has one entry per position"""
    rank = rnd.choice([1, 2]) if link != 'tagged' else len(ref.shape)
    kinds = [rnd.choice(KINDS) for _ in range(rank)] if link != 'tagged' else [d.kind for d in ref.dims]
    if rank == 1 and rnd.random() < (0.3 if link == 'tagged' else 0.1):
        kinds = ['A']           # a feature array that describes its own axis (alias range dimension)
    shape = random_shape(rnd, rank)
    if link == 'indexed' and npos is not None:
        shape[0] = max(1, npos + rnd.choice([0, 0, 0, 1, -1]))
    return make_array(rnd, aid, kinds, shape)


# ------------------------------------------------------------------------------------------ failing-case classification
def _lists(s):
    """'[a b] [c d]' -> [[a,b],[c,d]]"""
    out = []
    for part in s.split('['):
        if ']' in part:
            body = part.split(']')[0].strip()
            out.append([int(x, 0) for x in body.split()] if body else [])
    return out


def _views(line, listed):
    """parse 'OK ...' into a list of [first, second] integer lists"""
    body = line[3:]
    if listed:
        items = []
        for chunk in body.split('{')[1:]:
            items.append(_lists(chunk.split('}')[0]))
        return items
    return [_lists(body)]


def _drop_last(shape, ids, dims):
    """ids of the sub-block that loses the last index in the given dims (row-major)"""
    out = []
    k = 0
    for idx in itertools.product(*[range(s) for s in shape]):
        if all(idx[d] != shape[d] - 1 for d in dims):
            out.append(ids[k])
        k += 1
    return out


def pinned_explains(cmd, impl, spec, nspec_of):
    cmd = cmd.split('@')[0]
    """does 'an unspecified dimension loses its last element' (and nothing else) explain impl != spec on this line?
    nspec_of(i) -> number of dimensions the request specifies (for list item i)"""
    if not (impl.startswith('OK ') and spec.startswith('OK ')):
        return False
    listed = cmd in ('moffcnt', 'mtagged', 'mfeature')
    offcnt = cmd in ('offcnt', 'moffcnt', 'moffcnt1')
    try:
        iv, sv = _views(impl, listed), _views(spec, listed)
    except ValueError:
        return False
    if len(iv) != len(sv) or not iv:
        return False
    hit = False
    for k, (a, b) in enumerate(zip(iv, sv)):
        if a == b:
            continue
        ns = nspec_of(k)
        if offcnt:
            (io, ic), (so, sc) = a, b
            if io != so or len(ic) != len(sc):
                return False
            diff = [d for d in range(len(sc)) if ic[d] != sc[d]]
            if not diff or any(d < ns or ic[d] != sc[d] - 1 or sc[d] < 2 for d in diff):
                return False
        else:
            (ic, iids), (sc, sids) = a, b
            if len(ic) != len(sc):
                return False
            diff = [d for d in range(len(sc)) if ic[d] != sc[d]]
            if not diff or any(d < ns or ic[d] != sc[d] - 1 or sc[d] < 2 for d in diff):
                return False
            if _drop_last(sc, sids, diff) != iids:
                return False
        hit = True
    return hit


def case_info(case):
    """what the setup lines of a case say: array ranks, tag positions, positions shape"""
    info = {'rank': {}, 'np': None, 'pshape': None, 'feats': [], 'refs': []}
    for l in case.lines:
        t = l.split(' ')
        if t[0] == 'arr':
            info['rank'][t[1]] = int(t[2])
        elif t[0] == 'tag':
            info['np'] = int(t[1])
            info['ne'] = int(t[2 + int(t[1])])
        elif t[0] == 'mtag':
            r = int(t[1])
            info['pshape'] = [int(x) for x in t[2:2 + r]]
            npos = int(t[2 + r])
            info['mne'] = int(t[3 + r + npos])
        elif t[0] == 'ref':
            info['refs'].append(t[1])
        elif t[0] == 'feat':
            info['feats'].append((t[1], t[2]))
    return info


def target_array(info, t):
    cmd = t[0].split('@')[0]
    try:
        if cmd in ('offcnt', 'taggeda', 'moffcnt', 'moffcnt1'):
            return t[1]
        if cmd in ('tagged', 'mtagged', 'mtagged1', 'wtagged', 'mwtagged1'):
            return info['refs'][int(t[1])]
        if cmd in ('feature', 'mfeature', 'mfeature1'):
            return info['feats'][int(t[1])][0]
    except (IndexError, ValueError):
        return None
    return None


def signature(kind, case, impl, spec, compare):
    """kind = 'tag' | 'mtag'.  The pinned open finding gets its own stable signature; everything else is
    described by the failing query, the two outcomes and the shape of the request."""
    info = case_info(case)
    failing = []
    for l, a, b in zip(case.lines, impl, spec):
        if b != 'ANY' and not compare(a, b):
            failing.append((l.split(' '), a, b))
    if not failing:
        return {'defect': 'none'}
    pinned = True
    for t, a, b in failing:
        aid = target_array(info, t)
        rank = info['rank'].get(aid)
        if rank is None:
            pinned = False
            break
        if t[0].split('@')[0] in ('offcnt', 'tagged', 'taggeda', 'feature', 'wtagged'):
            ns = min(info['np'] or 0, rank)
        else:
            ps = info['pshape'] or []
            ns = 1 if (len(ps) < 2 or rank <= 1) else min(ps[1], rank)
        if not pinned_explains(t[0], a, b, lambda k: ns):
            pinned = False
            break
    if pinned:
        return {'defect': 'unspecified-dim-exclusive-loses-last', 'kind': kind}
    t, a, b = failing[0]
    aid = target_array(info, t)
    rank = info['rank'].get(aid, 0)
    why = explain(kind, case, impl, spec, compare)
    if why.startswith('item') or why.startswith('several'):
        # one of the modelled defects accounts for every failing line: one report per defect
        return {'defect': why, 'kind': kind}
    sig = {'defect': why, 'kind': kind, 'query': t[0], 'mode': t[2] if len(t) > 2 else '',
           'impl': a.split(' ')[0] + (' ' + a.split(' ')[1] if a.startswith('ERR') else ''),
           'spec': b.split(' ')[0]}
    if kind == 'tag':
        sig['unspecified_dims'] = max(0, rank - (info['np'] or 0))
        sig['extent'] = 'present' if info.get('ne') else 'absent'
    else:
        ps = info['pshape'] or []
        ns = 1 if (len(ps) < 2 or rank <= 1) else min(ps[1], rank)
        sig['unspecified_dims'] = max(0, rank - ns)
        sig['extents'] = 'present' if info.get('mne') else 'absent'
    return sig


# ------------------------------------------------------------------------------------------ explanation by the model
# The model carries one switch per known defect (coq/Access/Retrieval.v, record `behaviour`).  A failing case is
# explained by a defect when switching on just that repair makes the MODEL agree with the specification on every
# failing line of the case (the pinned loss of the last element aside).  'unexplained' = none of the modelled
# defects accounts for the failure.
REPAIRS = [('item28-padding-first-plus-last', 'pad_end_is_last'),
           ('item4-multitag-point-offset', 'mt_point_sets_data_offset,mt_invalid_range_throws'),
           ('item31-subulp-extent-is-point', 'mt_point_by_extent'),
           ('item19-empty-index-list', 'mt_empty_guard')]
_explain_budget = [300]


def _model_lines(kind, case, flags):
    import subprocess, tempfile, os
    from engine import BUILD
    pid = 'C05' if kind == 'tag' else 'C06'
    exe = os.path.join(BUILD, 'ocaml', pid, 'modeldrv_' + pid)
    if not os.path.exists(exe):
        return None
    with tempfile.NamedTemporaryFile('w', suffix='.case', delete=False) as f:
        f.write('\n'.join(case.lines) + '\n')
        name = f.name
    try:
        env = dict(os.environ)
        if flags is None:
            env.pop('RETR_FLAGS', None)
        else:
            env['RETR_FLAGS'] = flags
        r = subprocess.run([exe, name], capture_output=True, text=True, env=env, timeout=30)
    except Exception:
        return None
    finally:
        os.unlink(name)
    out = []
    for l in r.stdout.splitlines():
        sp = l.split(' ', 1)
        out.append(sp[1].split(' ## ')[0] if len(sp) > 1 else '')
    return out if len(out) == len(case.lines) else None


def explain(kind, case, impl, spec, compare):
    if _explain_budget[0] <= 0:
        return 'other'
    _explain_budget[0] -= 1
    info = case_info(case)
    failing = [k for k, (a, b) in enumerate(zip(impl, spec)) if b != 'ANY' and not compare(a, b)]

    def agrees(model):
        for k in failing:
            t = case.lines[k].split(' ')
            if compare(model[k], spec[k]):
                continue
            aid = target_array(info, t)
            rank = info['rank'].get(aid)
            if rank is None:
                return False
            if t[0].split('@')[0] in ('offcnt', 'tagged', 'taggeda', 'feature', 'wtagged'):
                ns = min(info['np'] or 0, rank)
            else:
                ps = info['pshape'] or []
                ns = 1 if (len(ps) < 2 or rank <= 1) else min(ps[1], rank)
            if not pinned_explains(t[0], model[k], spec[k], lambda _k: ns):
                return False
        return True

    # the failure must be the MODELLED behaviour of the pinned code on every failing line; a failure the model of
    # today's code does not reproduce is not one of the known defects
    today = _model_lines(kind, case, '')
    current = _model_lines(kind, case, None)
    if today is None or current is None:
        return 'other'
    # ... and of the behaviour the check currently replays (after the repairs have landed the model is the repaired
    # one: a failure that only the model of the OLD code reproduces is then a new defect, not a known one)
    if not all(compare(impl[k], today[k]) and compare(impl[k], current[k]) for k in failing):
        return 'unexplained'
    for name, flags in REPAIRS:
        m = _model_lines(kind, case, flags)
        if m is None:
            return 'other'
        if agrees(m):
            return name
    allflags = ','.join(f for _, f in REPAIRS)
    m = _model_lines(kind, case, allflags)
    if m is not None and agrees(m):
        return 'several-of-items-4-19-28-31'
    return 'unexplained'
