"""C02 — close and reopen preserves the complete entity tree.
Model: coq/Store/DbSession.v (a session = the file + the open mode; close / open ro|rw / flush; another process = another
session on the same file), DbOps.v (the operations), DbObserve.v.  Theorems: coq/Store/DbReopen.v,
coq/Properties/Properties_C02.v.  They are structurally easy in the model (nix keeps no write-back state and the model
says so) — the weight is on this tie.
Tie: histories of create / modify / link / unlink / delete over every entity kind (sources / sections nested up to depth 4),
replayed on implementation and extracted model with a digest of the canonical dump after every line; `reopen rw`, `reopen ro`
(followed by reads in the read-only session), `reopen other` / `otherw` (a CHILD PROCESS opens the file read-only / read-write,
dumps it, exits), and `flush`, after every k-th operation and, in all kinds, at the end.
Oracle (needs no model): at every reopen the implementation driver compares its RAW dump taken before the close with the raw
dump after the reopen (and with the child's): ids, names, types, definitions, labels, units, expansion origin, polynomial,
tag positions / extents / units, every dimension descriptor with all fields, creation times (forced to distinct old times by
the histories), references, features with link type and data, positions / extents, sources, metadata, section links,
repository, group members, data (hash of every stored element), data-frame columns / rows / every cell, property values /
unit / uncertainty — in container order.  same=1 is required; diff= names the first differing kind.field.
Read-only sessions: the histories prepare attributes that exist (expansion origin, sampling interval / offset, uncertainty,
labels, units, definitions), reopen read-only and call setters that overwrite them — every one has to be refused — and
the raw dump at the END of the read-only session (after the refused calls) has to equal the one taken when it was opened
(diff=ro-session:...) as well as the dump after the next reopen (read-only, other process, read-write); the file must
open again in this process (ERR reopen-failed otherwise), and the read-write session then goes on writing.
Blind build (`quiet on`): the tree — with entities whose optional sub-containers were never touched next to populated ones —
is built without one getter being called; the first look at the file is a reopen (read-only, another process, read-write), and
what it shows has to be what the MODEL predicts (digest of the canonical dump), then again after a read-write reopen.
Kept handles (`hobs`): after replace-all / clear calls (empty vectors included) the entity is read through the very handle
that made the call and compared with fresh handles and with the reopened file.
(seeded changes C02-B3: a getter that creates its sub-group; C02-A3: a cached sub-group handle after references({}).)
(seeded changes C02-A: refused numeric overwrite stays visible until close; C02-B: file id leaked by a refused write.)"""
import random, re
from engine import Prop, Case
import histlib


class C02(Prop):
    id = 'C02'
    driver = 'drv_C02'
    model = 'C02'
    level = 'proof'
    search_scale = 2          # the widened search after a break: 2 x the thorough stream per seed
    technique = 'history correspondence + session model proof + self-comparison of the full dump across close/reopen'
    level_text = ('observe_file_only, close_reopen_observe (every history, both modes), intermediate_reopen (file and every later '
                  'answer unchanged), ro_session_observes_same, query_pure proved for the session model over the step function of '
                  'C03/C08/C04; tied by replaying histories with all reopen kinds; the full raw dump (everything the property lists) is '
                  'compared before close / after reopen on the implementation itself')
    level_note = ('the theorem is structurally easy in the model: nix keeps no write-back cache and the model says so; labels, units, '
                  'data values, descriptor fields, creation times are not model fields — for them the oracle is the implementation\'s '
                  'own raw dump before / after; HDF5\'s metadata cache and file format are not modelled; that close releases the file is C11')
    nontrivial_rule = ('a case is a history of 40-120 calls on a graph of 25-70 entities with at least one reopen whose raw dump has '
                       'n >= 10 entities; distinct by text')
    assumptions = ['ids are produced by an injective, uuid-shaped supply and never equal a name in use',
                   'writes of fields outside the model are well-formed (SI units, rows inside the frame, matching value types)',
                   'lookup keys contain no slash', 'receivers are live entities']
    trusted_base = ['harness/hist_common.hpp rawdump (public getters, getDataDirect, readRow) and canonical dump',
                    'the child process of `reopen other` is the same binary (drv_C02 --rawdump)']

    def generate(self, seed, tier, scale=1):
        cases = self._generate(seed, tier, scale)
        if scale == 1:
            self._routes = histlib.count_routes(self.corpus() + cases)
        return cases

    def _generate(self, seed, tier, scale=1):
        rnd = random.Random(seed * 32452843 + 2)
        n = (130 if tier == 'quick' else 3000) * scale
        cases = []
        flav = ['mixed', 'mixed', 'reopen rw', 'reopen ro', 'reopen other', 'reopen otherw']
        # blind build: nothing is observed before the first reopen (read-only, in another process, read-write ...)
        firsts = ['ro', 'other', 'ro', 'other', 'rw', 'otherw', 'def']
        for i in range((28 if tier == 'quick' else 600) * scale):
            cases.append(histlib.gen_c02_blind_case(rnd, firsts[i % len(firsts)]))
        for i in range(n):
            every = [0, 3, 6, 10, 15][i % 5]
            cases.append(histlib.gen_c02_case(rnd, rnd.randint(15, 45), every, flav[i % len(flav)]))
        return cases

    def corpus(self):
        return histlib.load_corpus(self.id)

    def extra_checks(self, ctx):
        # which further public entry points (notes/route-audit.md) this run went through, and how many script lines each got
        routes = getattr(self, '_routes', {})
        ctx['ev']['entry_points'] = {k: v for k, v in histlib.ROUTES.items() if any(r == k or r.startswith(k + ' ') for r in routes)}
        ctx['ev']['lines_per_route'] = routes
        return []

    def compare(self, a, b):
        return histlib.compare(a, b)

    def nontrivial(self, case, model_lines):
        return any(re.search(r'same=1 diff=- n=\d\d', l) for l in model_lines)

    def signature(self, case, impl_lines, spec_lines):
        i = histlib.first_failure(case, impl_lines, spec_lines)
        if i is None:
            return {'op': 'none'}
        a = histlib.split_tail(impl_lines[i] or '')[0]
        sig = {'op': case.lines[i] if case.lines[i].startswith('reopen') else case.lines[i].split(' ')[0]}
        if a.startswith('CRASH'):
            sig['what'] = 'crash'
            return sig
        m = re.search(r'diff=(\S+)', a)
        sig['diff'] = m.group(1) if m else ('reopen-failed' if 'reopen-failed' in a else 'digest')
        if sig['diff'].startswith('unreadable-after-reopen'):
            # the entity (an HDF5 object written in the session just closed) cannot be opened from the reopened file;
            # record whether an entity had been deleted earlier in the history (the condition of the known finding)
            sig['after_delete'] = any(l.split(' ')[0] in ('del', 'delh') for l in case.lines[:i])
        if sig['diff'] == '-':
            # the implementation agrees with itself; what it shows is not what the model predicts for the history
            sig['diff'] = 'tree-differs-from-model'
        return sig

    def describe(self, case, impl_lines, spec_lines):
        i = histlib.first_failure(case, impl_lines, spec_lines)
        if i is None:
            return 'no failing line'
        return ('line %d `%s`: implementation answers %r, the specification requires %r (same=1: the raw dump after the reopen '
                'equals the one before the close; diff = first differing kind.field; the digest is that of the canonical dump)'
                % (i + 1, case.lines[i], impl_lines[i], spec_lines[i]))


PROP = C02()
