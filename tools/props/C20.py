"""C20 — tree searches and back references equal a brute-force traversal.
Hand-written work-list model (coq/Store/Search.v) proved equal to level order / brute force; tied to the
implementation by replaying generated file-building scripts + queries on both sides."""
import random
from engine import Prop, Case


def hx(s):
    return 's:' + s.encode().hex()


NAMES = ['a', 'b', 'c', 'd', 'e', 'f']          # >= branching, shared by nodes under different parents
TYPES = ['t1', 't2', 't3', 'T1', 'xt2']
PNAMES = ['p', 'q', 'r', 's', 'u']
SHAPES = ['random', 'chain', 'star', 'full', 'bushy', 'tiny']


class Forest:
    """the generator's own book-keeping of one tree kind (sections, or sources of all blocks)"""

    def __init__(self):
        self.parent = []     # ordinal -> parent ordinal or -1
        self.kids = []
        self.alive = []
        self.name = []
        self.type = []
        self.block = []      # sources: block index
        self.depth = []

    def add(self, parent, name, ty, block=0):
        k = len(self.parent)
        self.parent.append(parent); self.kids.append([]); self.alive.append(True)
        self.name.append(name); self.type.append(ty); self.block.append(block)
        self.depth.append(0 if parent < 0 else self.depth[parent] + 1)
        if parent >= 0:
            self.kids[parent].append(k)
        return k

    def live(self):
        return [k for k in range(len(self.parent)) if self.alive[k]]

    def kill(self, k):
        self.alive[k] = False
        for c in self.kids[k]:
            if self.alive[c]:
                self.kill(c)

    def height_below(self, k):
        ks = [c for c in self.kids[k] if self.alive[c]]
        return 0 if not ks else 1 + max(self.height_below(c) for c in ks)

    def sibling_names(self, parent, block=0):
        if parent < 0:
            return {self.name[k] for k in self.live() if self.parent[k] < 0 and self.block[k] == block}
        return {self.name[c] for c in self.kids[parent] if self.alive[c]}


def grow(rnd, forest, lines, mk_line, shape, roots, budget, block=0, peek=None):
    """add `roots` trees of the given shape (depth <= 5 levels, branching <= 4); `peek(k)` may emit a line that
    makes a second handle look at the node while it is still childless"""
    def fresh_name(parent):
        used = forest.sibling_names(parent, block)
        free = [n for n in NAMES if n not in used]
        return rnd.choice(free) if free else None

    def add(parent):
        n = fresh_name(parent)
        if n is None:
            return None
        ty = rnd.choice(TYPES)
        k = forest.add(parent, n, ty, block)
        lines.append(mk_line(parent, n, ty))
        if peek:
            peek(k)
        return k

    for _ in range(roots):
        r = add(-1)
        if r is None:
            break
        budget -= 1
        if shape == 'tiny':
            continue
        if shape == 'chain':
            cur = r
            for _ in range(rnd.choice([3, 4, 4])):      # root + 4 below = 5 levels
                cur = add(cur)
            continue
        if shape == 'star':
            for _ in range(4):
                add(r)
            continue
        maxdepth = {'full': 2, 'bushy': 3, 'random': 4}[shape]
        frontier = [r]
        while frontier and budget > 0:
            p = frontier.pop(0) if rnd.random() < 0.6 else frontier.pop(rnd.randrange(len(frontier)))
            if forest.depth[p] >= maxdepth:
                continue
            nk = {'full': 3, 'bushy': rnd.choice([2, 3, 4, 4]), 'random': rnd.choice([0, 1, 1, 2, 2, 3, 4])}[shape]
            for _ in range(nk):
                if budget <= 0:
                    break
                c = add(p)
                if c is not None:
                    budget -= 1
                    frontier.append(c)


class C20(Prop):
    id = 'C20'
    driver = 'drv_C20'
    model = 'C20'
    search_scale = 1
    level_text = ('Machine-checked Coq theorems, for all trees, all filters (arbitrary tree -> bool) and all size_t depth limits: the '
                  'work-list models of Section::findSections / Source::findSources equal level order (breadth first) and, as multisets, a '
                  'brute-force depth-limited traversal; each entity once; unlimited depth = all descendants; File::findSections / '
                  'Block::findSources = per-root concatenation = the set of the forest traversal (depth origins as in the code); findRelated = '
                  'its three-phase specification; referring* = pointwise link test; parentSource = the unique node with that child; '
                  'inheritedProperties = own ++ unshadowed linked. The hand-written model is tied to the code by replaying generated '
                  'file-building scripts and queries on the sanitizer-built library and on the extracted model; the oracle is the extracted '
                  'level-order / brute-force specification.')
    level_note = ('Trusted: Coq kernel; extraction; the two script interpreters; HDF5 creation-order indices and link deletion. Model '
                  'hand-written (no translator): correspondence is sampling (trees depth <= 5, branching <= 4). TypeFilter modelled as '
                  'string equality (types without regex metacharacters). Theorems about back references assume unique ids / a tree height '
                  'below 2^64 where stated. No axioms.')
    technique = 'Coq proof (nested induction fuel x remaining depth) over a hand-written work-list model + differential replay of file scripts'
    nontrivial_rule = ('one case = one generated file (1-3 section trees, 1-2 blocks with source trees; shapes random/chain/star/full/bushy/tiny; '
                       'names and types drawn from small pools so that several nodes share them; properties, links with overlapping property '
                       'names, metadata and source assignments shared between entities; deletions of subtrees followed by re-creation) plus '
                       '~25 queries over all entry points, the five filters (incl. values matching nothing) and depths 0..height+1 and max; a case is '
                       'non-trivial when at least one query returns a non-empty result; distinct = distinct script text. Every query is asked through a '
                       'generator-chosen handle route (@c creating handle, @e a second handle that looked at the entity while it was still '
                       'childless / property-less / array-less (`peek`), @f freshly fetched by name, @p fetched through the parent\'s peeked handle) '
                       'and in three history shapes: interleaved rw; build without any query -> reopen ReadOnly -> queries -> reopen rw -> more; '
                       'rw rounds -> ReadOnly -> rw. The model answers do not depend on route or mode. '
                       'About 30 % of the queries go to the further public entry points (counted in the evidence under entry_points / '
                       'filter_constructors): sections(filter) / sources(filter) / dataArrays|tags|multiTags|blocks|properties(filter) enumerations '
                       '(a depth-1 search must equal them), the block-restricted referring*(const Block&) overloads incl. a none Block, '
                       'all-default findSections() / findSources(), File::findSections(max_depth), TypeFilter(str, false), TypeFilter(boost::regex), '
                       'MetadataFilter / SourceFilter as user filters; every fourth query batch ends with findRelated from every live section')
    assumptions = ['TypeFilter(str) / TypeFilter(boost::regex) are boost::regex_match, TypeFilter(str, false) is a case-insensitive boost::regex_search; modelled as '
                   'string equality resp. ASCII-case-insensitive substring test (generated types contain no regex metacharacters)',
                   'children are enumerated in HDF5 creation order (H5Lget_name_by_idx on the creation-order index), deleting a child keeps the '
                   'order of the others; H5Group::removeAllLinks removes every link to the deleted object (metadata/link/source links included)',
                   'ids are unique and UUID-shaped (C12); no source is named like an id',
                   'tree height below 2^64 (the unlimited default is SIZE_MAX)']
    trusted_base = ['hand-written model coq/Store/Search.v (statement-by-statement transcription of the C++ loops), tied only by the correspondence run',
                    'script replay helpers coq/Store/SearchState.v (extracted) and the ordinal bookkeeping of both drivers']

    # ---- comparison: "OK set k ..." on the specification side means: same elements, any order
    def compare(self, a, b):
        if b == 'ERR':
            return a.startswith('ERR')
        if b.startswith('OK set '):
            if not a.startswith('OK '):
                return False
            xa = a.split(' ')[1:]
            xb = b.split(' ')[2:]
            try:
                return xa[0] == xb[0] and sorted(int(x) for x in xa[1:]) == [int(x) for x in xb[1:]]
            except ValueError:
                return False
        return a == b

    @staticmethod
    def word(line):
        t = line.split(' ')
        return t[1] if t[0].startswith('@') and len(t) > 1 else t[0]

    def nontrivial(self, case, model_lines):
        for l, m in zip(case.lines, model_lines):
            w = self.word(l)
            if w.startswith(('find', 'rel', 'inh', 'ref', 'src', 'par', 'enum')) and w != 'src' and m.startswith('OK ') and not m.startswith('OK 0'):
                return True
        return False

    def signature(self, case, impl, spec):
        bad = [case.lines[i] for i, (a, b) in enumerate(zip(impl, spec)) if b != 'ANY' and not self.compare(a, b)]
        if not bad:
            return {'query': 'none'}
        t = bad[0].split(' ')
        ro = False
        for l in case.lines[:case.lines.index(bad[0])]:
            if l.startswith('reopen'):
                ro = l.endswith('ro')
        return {'query': self.word(bad[0]), 'route': t[0][1] if t[0].startswith('@') else '-', 'mode': 'ro' if ro else 'rw'}

    def describe(self, case, impl, spec):
        for i, (a, b) in enumerate(zip(impl, spec)):
            if b != 'ANY' and not self.compare(a, b):
                return 'line %d `%s`: implementation answers %r, the brute-force specification requires %r' % (i + 1, case.lines[i], a, b)
        return 'no difference'

    # ---- which public entry point a script line exercises (route audit); counted into the evidence
    FILTERS = {'all': 'AcceptAll', 'id': 'IdFilter', 'name': 'NameFilter', 'type': 'TypeFilter(str)', 'ids': 'IdsFilter',
               'typei': 'TypeFilter(str, exact=false)', 'typere': 'TypeFilter(boost::regex)', 'meta': 'MetadataFilter',
               'hassrc': 'SourceFilter<Source>', 'srcf': 'SourceFilter', 'default': None, 'nofilter': None}

    def entry_point(self, line):
        t = line.split(' ')
        route = None
        if t[0].startswith('@'):
            route = t[0][1]; t = t[1:]
        w = t[0]
        ep = flt = None
        own = {'S': 'Section', 'R': 'Source', 'B': 'Block', 'f': 'File'}
        if w in ('findsec', 'findsrc'):
            o = own[t[1][0]]
            fn = 'findSections' if w == 'findsec' else 'findSources'
            if t[3] == 'default' or (t[3] == 'nofilter' and t[2] == 'max'):
                ep = '%s::%s()' % (o, fn)
            elif t[3] == 'nofilter':
                ep = 'File::findSections(max_depth)'
            else:
                ep = '%s::%s(filter%s)' % (o, fn, '' if t[2] == 'max' else ', max_depth'); flt = t[3]
        elif w == 'related':
            ep = 'Section::findRelated(filter)'; flt = t[2]
        elif w == 'enum':
            ep = '%s::%s(filter)' % (own[t[1][0]], 'sections' if t[1][0] in 'Sf' else 'sources'); flt = t[2]
        elif w in ('enuma', 'enumt', 'enumm'):
            ep = 'Block::%s(filter)' % {'enuma': 'dataArrays', 'enumt': 'tags', 'enumm': 'multiTags'}[w]; flt = t[2]
        elif w == 'enumb':
            ep = 'File::blocks(filter)'; flt = t[1]
        elif w == 'enump':
            ep = 'Section::properties(filter)'; flt = t[2]
        elif w.endswith('_in'):
            ep = 'Section::%s(%s)' % ({'refarrays_in': 'referringDataArrays', 'reftags_in': 'referringTags', 'refmtags_in': 'referringMultiTags',
                                       'refsources_in': 'referringSources'}[w], 'none Block' if t[2] == 'none' else 'const Block&')
        elif w in ('refarrays', 'reftags', 'refmtags', 'refsources', 'refblocks'):
            ep = 'Section::%s()' % {'refarrays': 'referringDataArrays', 'reftags': 'referringTags', 'refmtags': 'referringMultiTags',
                                    'refsources': 'referringSources', 'refblocks': 'referringBlocks'}[w]
        elif w in ('srcarrays', 'srctags', 'srcmtags'):
            ep = 'Source::%s()' % {'srcarrays': 'referringDataArrays', 'srctags': 'referringTags', 'srcmtags': 'referringMultiTags'}[w]
        elif w == 'parent':
            ep = 'Source::parentSource()'
        elif w == 'inherited':
            ep = 'Section::inheritedProperties()'
        return ep, (self.FILTERS.get(flt) if flt else None), route

    def extra_checks(self, ctx):
        eps, fls, rts, modes = {}, {}, {}, {'rw': 0, 'ro': 0}
        for c in self.generate(ctx['seed'], ctx['tier'], 1):
            ro = False
            for l in c.lines:
                if l.startswith('reopen'):
                    ro = l.endswith('ro')
                ep, fl, rt = self.entry_point(l)
                if ep:
                    eps[ep] = eps.get(ep, 0) + 1
                    modes['ro' if ro else 'rw'] += 1
                    if fl:
                        fls[fl] = fls.get(fl, 0) + 1
                    if rt:
                        rts['@' + rt] = rts.get('@' + rt, 0) + 1
        ctx['ev']['entry_points'] = dict(sorted(eps.items()))
        ctx['ev']['filter_constructors'] = dict(sorted(fls.items()))
        ctx['ev']['handle_routes'] = dict(sorted(rts.items()))
        ctx['ev']['queries_by_open_mode'] = modes
        return []

    # ---- generator
    def one_case(self, rnd, shape, nq):
        L = ['new']
        S = Forest(); R = Forest()
        nblocks = rnd.choice([1, 1, 2])
        hist = rnd.choice(['plain', 'plain', 'rofirst', 'rofirst', 'mixed'])
        pk = rnd.choice([0.0, 0.3, 0.6]) if hist != 'rofirst' else rnd.choice([0.0, 0.0, 0.4])
        peeked = {'S': set(), 'R': set(), 'B': set()}

        def peek(kind, k, prob=None):
            if k not in peeked[kind] and rnd.random() < (pk if prob is None else prob):
                L.append('peek %s%d' % (kind, k))
                peeked[kind].add(k)

        for b in range(nblocks):
            L.append('block')
            peek('B', b)                     # before the block has any source / array / tag / multi-tag
        grow(rnd, S, L, lambda p, n, t: 'sec %d %s %s' % (p, hx(n), hx(t)), shape, rnd.choice([1, 1, 2, 3]), rnd.choice([12, 25, 40]),
             peek=lambda k: peek('S', k))
        for b in range(nblocks):
            sshape = rnd.choice(SHAPES)
            grow(rnd, R, L, lambda p, n, t, b=b: 'src %d %d %s %s' % (b, p, hx(n), hx(t)), sshape, rnd.choice([0, 1, 2, 2]), rnd.choice([6, 12, 20]),
                 block=b, peek=lambda k: peek('R', k))
        # properties and links
        props = {}
        nprop = [0]
        for k in S.live():
            if rnd.random() < 0.35:
                names = rnd.sample(PNAMES, rnd.choice([1, 2, 3]))
                props[k] = names
                for n in names:
                    L.append('prop %d %s' % (k, hx(n))); nprop[0] += 1
        withprops = list(props)
        linked = []
        for k in S.live():
            if rnd.random() < 0.25 and len(S.live()) > 1:
                tgt = rnd.choice(withprops) if withprops and rnd.random() < 0.7 else rnd.choice(S.live())
                L.append('link %d %d' % (k, tgt))
                linked.append(k)
        # entities
        ents = []     # (ref, block)
        cnt = {'A': 0, 'T': 0, 'M': 0}
        for b in range(nblocks):
            for kind, word in (('A', 'array'), ('T', 'tag'), ('M', 'mtag')):
                for _ in range(rnd.choice([0, 1, 2, 3])):
                    L.append('%s %d' % (word, b))
                    ents.append(('%s%d' % (kind, cnt[kind]), b))
                    cnt[kind] += 1
        holders = [e for e, _ in ents] + ['B%d' % b for b in range(nblocks)] + ['R%d' % k for k in R.live()]
        popular = rnd.sample(S.live(), min(len(S.live()), 3))
        meta = {}
        for h in holders:
            if rnd.random() < 0.6:
                s = rnd.choice(popular) if rnd.random() < 0.7 else rnd.choice(S.live())
                L.append('meta %s %d' % (h, s))
                meta[h] = s
                if rnd.random() < 0.1:                      # re-point: the last link wins
                    s = rnd.choice(S.live())
                    L.append('meta %s %d' % (h, s))
                    meta[h] = s
        attached = set()
        for e, b in ents:
            mine = [k for k in R.live() if R.block[k] == b]
            for _ in range(rnd.choice([0, 1, 1, 2, 3])):
                if mine:
                    s = rnd.choice(mine)
                    L.append('addsrc %s %d' % (e, s))        # a repeated pair is refused by HDF5 (both sides ERR)
                    attached.add((e, s))
            other = [k for k in R.live() if R.block[k] != b]
            if other and rnd.random() < 0.08:
                L.append('addsrc %s %d' % (e, rnd.choice(other)))   # foreign block: runtime_error

        def filt(F, kindch):
            r = rnd.random()
            allk = list(range(len(F.parent)))
            live = F.live()
            x = rnd.random()
            if x < 0.10:       # TypeFilter(str, exact=false): case-insensitive substring
                pool = [F.type[k] for k in live] if live and rnd.random() < 0.5 else []
                return 'typei ' + hx(rnd.choice(pool + ['t', 'T', '1', 'T2', 'xT', 't1', 'zz', '2']))
            if x < 0.16:       # TypeFilter(boost::regex)
                pool = [F.type[k] for k in live] if live and rnd.random() < 0.85 else TYPES + ['t', 't11']
                return 'typere ' + hx(rnd.choice(pool))
            if kindch == 'R' and x < 0.26:   # MetadataFilter<Source> / SourceFilter<Source> handed in by the user
                if rnd.random() < 0.6:
                    c = holders_of('R')
                    return 'meta S%d' % (rnd.choice(c) if c and rnd.random() < 0.7 else rnd.randrange(max(1, len(S.parent))))
                return 'hassrc ' + (('R%d' % rnd.choice(allk)) if allk and rnd.random() < 0.9 else rnd.choice(['X', 'N']))
            if r < 0.28 or not allk:
                return 'all'
            if r < 0.46:
                x = rnd.random()
                if x < 0.6 and live:
                    return 'id %s%d' % (kindch, rnd.choice(live))
                if x < 0.8:
                    return 'id %s%d' % (kindch, rnd.choice(allk))          # may be a deleted one: matches nothing
                return 'id ' + rnd.choice(['X', 'N', ('R' if kindch == 'S' else 'S') + '0', kindch + '999'])
            if r < 0.66:
                pool = [F.name[k] for k in live] if live and rnd.random() < 0.85 else NAMES + ['zz']
                return 'name ' + hx(rnd.choice(pool))
            if r < 0.84:
                pool = [F.type[k] for k in live] if live and rnd.random() < 0.85 else TYPES + ['t', 't11']
                return 'type ' + hx(rnd.choice(pool))
            n = rnd.choice([0, 1, 2, 3, 5, 8])
            refs = []
            for _ in range(n):
                x = rnd.random()
                refs.append('%s%d' % (kindch, rnd.choice(live)) if x < 0.6 and live else
                            '%s%d' % (kindch, rnd.choice(allk)) if x < 0.85 else rnd.choice(['X', 'N']))
            return ('ids %d %s' % (n, ' '.join(refs))) if n else 'ids 0'

        def depth_for(h):
            r = rnd.random()
            if r < 0.22:
                return 'max'
            if r < 0.40:
                return str(rnd.choice([max(h - 1, 0), h, h + 1]))      # around the height: last level in / out
            return str(rnd.randint(0, h + 1))

        def tall(F, cand):
            """prefer start nodes with something below them"""
            w = [(1 + F.height_below(k)) ** 2 for k in cand]
            return rnd.choices(cand, weights=w)[0]

        def holders_of(prefix):
            """live sections that an entity of the given kind points to (last meta wins)"""
            return sorted({s for h, s in meta.items() if h[0] == prefix and S.alive[s] and (prefix != 'R' or R.alive[int(h[1:])])})

        def routed(kind, k, q):
            """the handle route the query is asked through; the answer must not depend on it"""
            r = rnd.random()
            if k in peeked[kind] and r < 0.55:
                return '@e ' + q
            if r < 0.60:
                return '@c ' + q
            if r < 0.82:
                return '@f ' + q
            return '@p ' + q

        def efilt(kind):
            x = rnd.random()
            if x < 0.2:
                return 'all'
            if x < 0.45:
                return 'id %s%d' % (kind, rnd.randrange(cnt[kind] + 1) if kind != 'B' else rnd.randrange(nblocks + 1))
            if x < 0.75 or kind == 'B':
                c = holders_of(kind)
                return 'meta S%d' % (rnd.choice(c) if c and rnd.random() < 0.7 else rnd.randrange(max(1, len(S.parent))))
            c = sorted({s for e, s in attached if e[0] == kind})
            return 'srcf R%d' % (rnd.choice(c) if c and rnd.random() < 0.7 else rnd.randrange(max(1, len(R.parent))))

        def route_query():
            """entry points of the route audit: filtered enumerations, block-restricted overloads, all-default calls"""
            r = rnd.random()
            sl, rl = S.live(), R.live()
            if r < 0.16 and sl:
                k = tall(S, sl)
                return routed('S', k, 'enum S%d %s' % (k, filt(S, 'S')))
            if r < 0.22:
                return 'enum file ' + filt(S, 'S')
            if r < 0.34 and rl:
                k = tall(R, rl)
                return routed('R', k, 'enum R%d %s' % (k, filt(R, 'R')))
            if r < 0.42:
                b = rnd.randrange(nblocks)
                return routed('B', b, 'enum B%d %s' % (b, filt(R, 'R')))
            if r < 0.56:
                b = rnd.randrange(nblocks)
                w, kind = rnd.choice([('enuma', 'A'), ('enumt', 'T'), ('enumm', 'M')])
                return routed('B', b, '%s B%d %s' % (w, b, efilt(kind)))
            if r < 0.60:
                return 'enumb ' + efilt('B')
            if r < 0.68 and sl:
                c = [k for k in props if S.alive[k]]
                k = rnd.choice(c) if c and rnd.random() < 0.8 else rnd.choice(sl)
                x = rnd.random()
                f = 'all' if x < 0.2 else 'name ' + hx(rnd.choice(PNAMES + ['zz'])) if x < 0.65 else 'id P%d' % rnd.randrange(nprop[0] + 1)
                return routed('S', k, 'enump %d %s' % (k, f))
            if r < 0.86 and sl:
                word, prefix = rnd.choice([('refarrays_in', 'A'), ('reftags_in', 'T'), ('refmtags_in', 'M'), ('refsources_in', 'R')])
                c = holders_of(prefix)
                k = rnd.choice(c) if c and rnd.random() < 0.8 else rnd.choice(sl)
                b = 'none' if rnd.random() < 0.2 else 'B%d' % rnd.randrange(nblocks)
                return routed('S', k, '%s %d %s' % (word, k, b))
            x = rnd.random()
            if x < 0.3 and sl:
                k = tall(S, sl)
                return routed('S', k, 'findsec S%d max default' % k)
            if x < 0.45:
                return 'findsec file max default'
            if x < 0.6:
                h = max([1 + S.height_below(k) for k in sl if S.parent[k] < 0] + [0])
                return 'findsec file %s nofilter' % depth_for(h)
            if x < 0.85 and rl:
                k = tall(R, rl)
                return routed('R', k, 'findsrc R%d max default' % k)
            b = rnd.randrange(nblocks)
            return routed('B', b, 'findsrc B%d max default' % b)

        def query():
            r = rnd.random()
            if r < 0.30:
                return route_query()
            r = rnd.random()
            sl, rl = S.live(), R.live()
            if r < 0.22 and sl:
                k = tall(S, sl)
                return routed('S', k, 'findsec S%d %s %s' % (k, depth_for(S.height_below(k)), filt(S, 'S')))
            if r < 0.32:
                h = max([1 + S.height_below(k) for k in sl if S.parent[k] < 0] + [0])
                return 'findsec file %s %s' % (depth_for(h), filt(S, 'S'))
            if r < 0.44 and rl:
                k = tall(R, rl)
                return routed('R', k, 'findsrc R%d %s %s' % (k, depth_for(R.height_below(k)), filt(R, 'R')))
            if r < 0.52:
                b = rnd.randrange(nblocks)
                h = max([R.height_below(k) for k in rl if R.parent[k] < 0 and R.block[k] == b] + [0])
                return routed('B', b, 'findsrc B%d %s %s' % (b, depth_for(h), filt(R, 'R')))
            if r < 0.64 and sl:
                k = rnd.choice(sl)
                return routed('S', k, 'related %d %s' % (k, filt(S, 'S')))
            if r < 0.72 and sl:
                c = [k for k in linked if S.alive[k]]
                k = rnd.choice(c) if c and rnd.random() < 0.5 else rnd.choice(sl)
                return routed('S', k, 'inherited %d' % k)
            if r < 0.84 and sl:
                word, prefix = rnd.choice([('refblocks', 'B'), ('refarrays', 'A'), ('reftags', 'T'), ('refmtags', 'M'), ('refsources', 'R')])
                c = holders_of(prefix)
                k = rnd.choice(c) if c and rnd.random() < 0.75 else rnd.choice(sl)
                return routed('S', k, '%s %d' % (word, k))
            if r < 0.96 and rl:
                word, prefix = rnd.choice([('srcarrays', 'A'), ('srctags', 'T'), ('srcmtags', 'M')])
                c = sorted({s for e, s in attached if e[0] == prefix and R.alive[s]})
                k = rnd.choice(c) if c and rnd.random() < 0.75 else rnd.choice(rl)
                return routed('R', k, '%s %d' % (word, k))
            if rl:
                k = rnd.choice(rl)
                return routed('R', k, 'parent %d' % k)
            return 'findsec file max all'

        def delete_some():
            for _ in range(rnd.choice([1, 1, 2, 3])):
                if rnd.random() < 0.6 and S.live():
                    k = rnd.choice(S.live()); L.append('delsec %d' % k); S.kill(k)
                elif R.live():
                    k = rnd.choice(R.live()); L.append('delsrc %d' % k); R.kill(k)

        def late_growth(quiet):
            """something is created late, often after a second handle of its container has looked at the still
            empty container; unless `quiet`, the container is asked right away through one of the routes"""
            x = rnd.random()
            if x < 0.35 and S.live():
                p = rnd.choice(S.live() + [-1])
                free = [n for n in NAMES if n not in S.sibling_names(p)]
                if free and (p < 0 or S.depth[p] < 4) and len([c for c in (S.kids[p] if p >= 0 else []) if S.alive[c]]) < 4:
                    if p >= 0:
                        peek('S', p, 0.6)
                    n, t = rnd.choice(free), rnd.choice(TYPES)
                    k = S.add(p, n, t); L.append('sec %d %s %s' % (p, hx(n), hx(t)))
                    peek('S', k)
                    if p >= 0 and not quiet:
                        L.append(routed('S', p, 'findsec S%d %s all' % (p, rnd.choice(['1', 'max']))))
            elif x < 0.55 and R.live():
                p = rnd.choice(R.live())
                free = [n for n in NAMES if n not in R.sibling_names(p)]
                if free and R.depth[p] < 4 and len([c for c in R.kids[p] if R.alive[c]]) < 4:
                    peek('R', p, 0.6)
                    n, t = rnd.choice(free), rnd.choice(TYPES)
                    k = R.add(p, n, t, R.block[p]); L.append('src %d %d %s %s' % (R.block[p], p, hx(n), hx(t)))
                    peek('R', k)
                    if not quiet:
                        L.append(routed('R', p, 'findsrc R%d %s all' % (p, rnd.choice(['1', 'max']))))
            elif x < 0.75 and S.live():
                k = rnd.choice(S.live())
                have = props.get(k, [])
                free = [n for n in PNAMES if n not in have]
                if free:
                    peek('S', k, 0.6)
                    n = rnd.choice(free)
                    props.setdefault(k, []).append(n)
                    L.append('prop %d %s' % (k, hx(n))); nprop[0] += 1
                    if not quiet:
                        L.append(routed('S', k, 'inherited %d' % k))
            else:
                b = rnd.randrange(nblocks)
                peek('B', b, 0.5)
                kind, word = rnd.choice([('A', 'array'), ('T', 'tag'), ('M', 'mtag')])
                L.append('%s %d' % (word, b))
                e = '%s%d' % (kind, cnt[kind]); cnt[kind] += 1
                ents.append((e, b))
                mine = [k for k in R.live() if R.block[k] == b]
                if mine and rnd.random() < 0.8:
                    s = rnd.choice(mine)
                    peek('R', s, 0.4)                      # hangs on the block's peeked handle if there is one
                    L.append('addsrc %s %d' % (e, s)); attached.add((e, s))
                    if not quiet:
                        L.append(routed('R', s, '%s %d' % ({'A': 'srcarrays', 'T': 'srctags', 'M': 'srcmtags'}[kind], s)))
                if S.live() and rnd.random() < 0.5:
                    s = rnd.choice(S.live())
                    L.append('meta %s %d' % (e, s)); meta[e] = s

        def ask(n):
            for _ in range(n):
                L.append(query())
            if rnd.random() < 0.25:               # findRelated from every live section with one filter
                f = filt(S, 'S')
                for k in S.live():
                    L.append(routed('S', k, 'related %d %s' % (k, f)))
            deadS = [k for k in range(len(S.parent)) if not S.alive[k]]
            deadR = [k for k in range(len(R.parent)) if not R.alive[k]]
            if deadS and rnd.random() < 0.3:      # queries on deleted entities: refused on both sides
                L.append(rnd.choice(['findsec S%d max all', 'inherited %d', 'refarrays %d', 'related %d all']) % rnd.choice(deadS))
            if deadR and rnd.random() < 0.3:
                L.append(rnd.choice(['findsrc R%d max all', 'parent %d', 'srcarrays %d']) % rnd.choice(deadR))

        def reopen(mode):
            L.append('reopen ' + mode)
            for v in peeked.values():
                v.clear()

        def rw_rounds(rounds, per_round):
            for rd in range(rounds):
                if rd > 0 or rnd.random() < 0.5:
                    delete_some()
                for _ in range(rnd.choice([0, 1, 2, 3])):
                    late_growth(False)
                ask(per_round)
                deadS = [k for k in range(len(S.parent)) if not S.alive[k]]
                if deadS and rnd.random() < 0.2:   # operations on deleted entities: refused on both sides
                    L.append(rnd.choice(['link 0 %d', 'meta B0 %d']) % rnd.choice(deadS))

        if hist == 'rofirst':
            # build without a single query; the read-only session is the first observation of the file
            if rnd.random() < 0.4:
                delete_some()
            for _ in range(rnd.choice([0, 1, 2])):
                late_growth(True)
            reopen('ro')
            ask(nq // 2)
            reopen('rw')
            rw_rounds(rnd.choice([1, 2]), nq // 3)
        elif hist == 'mixed':
            rw_rounds(rnd.choice([1, 2]), nq // 3)
            reopen('ro')
            for k in rnd.sample(S.live(), min(2, len(S.live()))):
                peek('S', k, 0.5)
            ask(nq // 3)
            reopen('rw')
            rw_rounds(1, nq // 3)
        else:
            rounds = rnd.choice([1, 2, 2, 3])
            rw_rounds(rounds, max(1, nq // rounds))
        return Case(L, shape + '-' + hist)

    def generate(self, seed, tier, scale=1):
        rnd = random.Random(seed)
        n = (300 if tier == 'quick' else 10000) * scale
        cases = []
        for i in range(n):
            shape = SHAPES[i % len(SHAPES)] if i < 4 * len(SHAPES) else rnd.choice(SHAPES)
            cases.append(self.one_case(rnd, shape, 25))
        # malformed stream: duplicate sibling names, operations on unknown ordinals, empty file
        cases.append(Case(['new', 'findsec file max all', 'findsec file 0 all', 'block', 'findsrc B0 max all', 'findsrc B0 0 all',
                           'findsec S0 max all', 'parent 0', 'sec 5 %s %s' % (hx('a'), hx('t1'))], 'malformed'))
        cases.append(Case(['new', 'block', 'sec -1 %s %s' % (hx('a'), hx('t1')), 'sec -1 %s %s' % (hx('a'), hx('t2')),
                           'sec 0 %s %s' % (hx('a'), hx('t1')), 'sec 0 %s %s' % (hx('a'), hx('t1')), 'sec 1 %s %s' % (hx('b'), hx('t1')),
                           'prop 0 %s' % hx('p'), 'prop 0 %s' % hx('p'), 'src 0 -1 %s %s' % (hx('a'), hx('t1')),
                           'src 0 -1 %s %s' % (hx('a'), hx('t1')), 'src 1 -1 %s %s' % (hx('a'), hx('t1')), 'array 0', 'array 3',
                           'addsrc A0 0', 'addsrc A0 0', 'addsrc A0 1', 'meta A0 1', 'meta A0 0', 'meta A0 2', 'refarrays 0', 'refarrays 2',
                           'findsec file max all', 'inherited 0', 'srcarrays 0'], 'malformed'))
        return cases


PROP = C20()
