"""C11 — after close or flush the file on disk is complete and released.
Model coq/FileIO/Close.v (+ Modes.v, Script.v, Tree.v), proofs CloseProofs.v; implementation driver
harness/drv_C11.cpp (shared interpreter harness/fileio_*.hpp) with the kill harness (`killrun`)."""
import random
from engine import Prop, Case
import engine
import fileio_gen as G

COMPS = ['none', 'deflate']


class C11(Prop):
    id = 'C11'
    driver = 'drv_C11'
    model = 'C11'
    level = 'proof'
    search_scale = 2            # widened search after a broken proof / correspondence: bounded volume per seed
    level_text = ('Machine-checked Coq theorems about (1) the HDF5 identifier table of the open file with handle copies as reference '
                  'counts and FileHDF5::close transcribed literally (close the three root groups, list the group/dataset/datatype ids, '
                  'close each H5Iget_ref times, close the file id): after EVERY history of handle operations - any number of live handles '
                  'of any kind, copied any number of times - the invariant "attribute ids are open only inside a call, one file id with '
                  'one reference" holds and close() leaves no id of the file with a positive count; every later call through a stale '
                  'handle fails and changes nothing while handle-cached getters answer; closing each id only once, or an attribute id '
                  'open across calls, is refuted by witnesses; (2) durability over the sessions of C09: flush; reads; kill; reopen and '
                  'close; kill; reopen observe what was observed before (ReadOnly, ReadWrite; Overwrite reopens empty), and the '
                  'provided-clause is shown necessary (a mutation after the last flush is lost).  PARTIAL: that the kernel and HDF5 put '
                  'the flushed bytes on disk is exercised by fault enumeration (a child process runs the history and is SIGKILLed after '
                  'every flush / close; this process reopens in all three modes and compares the complete tree), not proved.')
    level_note = ('Assumed: HDF5 reference counting of ids (valid while positive, freed at zero, never re-used), H5Fget_obj_ids lists the '
                  'open group/dataset/datatype ids, the file is released when its file id and all object ids are gone (fclose degree of the '
                  'sec2 driver), H5Fflush(GLOBAL)/release write the in-memory image.  One open file per process is modelled (a second '
                  'FileHDF5 on the same path shares HDF5\'s file object and is closed with it).  Which getters are answered from the handle '
                  '(File::isOpen/version/fileMode/compression/flush()=false/close(), Dimension::index/dimensionType, Section::parent, '
                  'DataView::dataExtent) is read off the source by hand (harness/fileio_stale.hpp).  A kill with unflushed modifications '
                  'is outside the property; the model keeps the last flushed image there and claims nothing.')
    technique = ('Coq proof over a reference-count model of FileHDF5::close and a cache/disk model of flush, close, kill + correspondence on '
                 'histories with 0..40 live handles of 19 kinds, open-object counts, same-process Overwrite, every stale call, and a '
                 'fork/SIGKILL fault-enumeration harness')
    nontrivial_rule = ('histories: create content (rich block with every entity kind + random small operations), acquire/drop 0..40 handles '
                       'of each of 19 kinds (File copies, Block, DataArray, Set/Sampled/Range/alias/DataFrame/generic Dimension, Tag, MultiTag, '
                       'Feature, Group, Source, Section, sub-Section, Property, DataView, DataFrame), flush at random points, close, call '
                       'every enumerated method on the stale handles, Overwrite the same path in the same process, further sessions; then '
                       'killrun: one child per flush/close of the history, killed there, reopened ro/rw/ow from this process (after a close: '
                       'also reopened read-write while the writer is still alive).  Non-trivial = the model reaches an OK outcome; '
                       'distinct = distinct case text')
    assumptions = ['HDF5 id reference counting and file release as described in coq/FileIO/Close.v',
                   'H5Fflush(GLOBAL) and closing make the on-disk image equal the in-memory one (exercised by the kill harness)',
                   'SIGKILL of the writing process models "killed without running any exit handler"; the page cache of the same kernel survives (no power loss)']
    trusted_base = ['hand-written model coq/FileIO/Close.v (FileHDF5::close over H5Object) and Modes.v, tied by the correspondence run',
                    'stale-call enumeration harness/fileio_stale.hpp (hand-enumerated from include/nix/*.hpp; classes touch/cached read off the source)',
                    'kill harness in harness/fileio_driver.hpp (fork, replay, SIGKILL, reopen)']

    repo = '/repo'

    def run_check(self, tier, seed, repo='/repo'):
        self.repo = repo
        return engine.run_check(self, tier, seed, repo)

    # mutators that overwrite an EXISTING attribute (or create objects): every HDF5 write of theirs is checked, none loops
    RO_ATTEMPTS = ['Block.type', 'Block.definition', 'Block.forceUpdatedAt', 'File.forceUpdatedAt', 'File.forceId', 'DataArray.type',
                   'DataArray.label.overwrite', 'DataArray.unit.overwrite', 'DataArray.expansionOrigin.overwrite', 'Section.type',
                   'Section.repository.overwrite', 'Property.unit.overwrite', 'Property.uncertainty.overwrite', 'Tag.type',
                   'MultiTag.definition', 'Group.type', 'Source.definition', 'Feature.linkType', 'SampledDimension.label.overwrite',
                   'SampledDimension.samplingInterval', 'RangeDimension.unit.overwrite', 'SetDimension.label.overwrite',
                   'DataFrame.type', 'File.createBlock', 'Block.createDataArray', 'Section.createProperty.value',
                   'DataArray.setData.value', 'Property.values.overwrite', 'Tag.position.overwrite']

    def generate(self, seed, tier, scale=1):
        rnd = random.Random(seed)
        uc = 1 if G.unlink_checked(self.repo)[0] else 0
        thorough = tier != 'quick' or scale > 1
        stale = G.stale_calls()
        by_kind = {}
        for (k, n, c) in stale:
            by_kind.setdefault(k, []).append((n, c))
        nhist = (36 if not thorough else 300) * scale
        cases = []
        rr = 0                                      # round robin over the stale calls so that every one is used early
        for hi in range(nhist):
            lines = ['fs ' + rnd.choice(['missing', 'missing', 'lib', 'nonh5'])]
            first_mode = 'ow' if lines[0] == 'fs nonh5' else rnd.choice(['rw', 'ow'])
            lines.append('open %s %s 0' % (first_mode, rnd.choice(COMPS)))
            lines.append('rich r')
            st = {'blocks': {}, 'secs': {}, 'rich': True}
            held = {k: 0 for k in G.KINDS}
            big = rnd.random() < 0.25               # some histories with the maximal populations

            def some_holds(nk):
                out = []
                for k in rnd.sample(G.KINDS, nk):
                    n = rnd.choice([0, 1, 2, 3, 5, 40]) if not big else rnd.choice([40, 40, 17, 1])
                    if hi % 7 == 3 and k != 'file':
                        n = 0                       # histories with no entity handle alive at close
                    out.append('hold %s %d' % (k, n))
                    held[k] += n
                return out

            for _ in range(rnd.randint(1, 4)):
                k = rnd.random()
                if k < 0.45:
                    lines += G.random_content(rnd, rnd.randint(1, 5), st)
                elif k < 0.8:
                    lines += some_holds(rnd.randint(1, 6))
                elif k < 0.9:
                    kk = rnd.choice(G.KINDS)
                    n = rnd.choice([1, 2, 40])
                    lines.append('drop %s %d' % (kk, n))
                    held[kk] = max(0, held[kk] - n)
                else:
                    lines += ['battery']
                if rnd.random() < 0.5:
                    lines.append('flush')
                    if rnd.random() < 0.3:
                        lines += rnd.choice([['dump'], ['battery'], ['flush']])
            if hi % 5 == 0:
                lines += some_holds(len(G.KINDS))   # every kind alive at close
            lines += ['snap', 'dump', 'close']
            # calls on the stale handles
            kinds_held = [k for k in G.KINDS if held[k] > 0]
            picks = []
            if kinds_held:
                want = 60 if not thorough else 120
                flat = [(k, n, c) for k in kinds_held for (n, c) in by_kind.get(k, [])]
                if flat:
                    for i in range(min(want, len(flat))):
                        picks.append(flat[(rr + i * 7) % len(flat)])
                    rr += want
                    picks = sorted(set(picks))
            for (k, n, c) in picks:
                lines.append('stale %s %s %s' % (n, c, k))
            # a kind nobody holds: the driver and the model must both say NOHANDLE
            free = [k for k in G.KINDS if held[k] == 0 and k in by_kind]
            if free:
                k = rnd.choice(free)
                n, c = rnd.choice(by_kind[k])
                lines.append('stale %s %s %s' % (n, c, k))
            # a READ-ONLY session on the same file (same process, the stale handles of the first session still alive):
            # live handles of its own, refused mutators, then close -> released, its handles stale
            if hi % 2 == 0:
                held_ro = {}
                lines.append('open ro %s 0' % rnd.choice(COMPS + ['auto']))
                lines.append('cmp')
                for k in rnd.sample(G.KINDS, rnd.randint(1, 8) if hi % 6 else len(G.KINDS)):
                    n = rnd.choice([1, 2, 3, 40])
                    lines.append('hold %s %d' % (k, n))
                    held_ro[k] = n
                for m in rnd.sample(self.RO_ATTEMPTS, rnd.randint(1, 6)):
                    lines.append('mutin %s %d' % (m, uc))
                lines += rnd.choice([[], ['battery'], ['flush'], ['blk nope', 'flush']])
                lines += ['cmp', 'close']
                flat = [(k, n, c) for k in held_ro for (n, c) in by_kind.get(k, [])]
                for i in range(min(40, len(flat))):
                    k, n, c = flat[(rr + i * 5) % len(flat)]
                    lines.append('stale %s %s %s' % (n, c, k))
                rr += 13
            # same process: reopen (the stale handles are still alive)
            r = rnd.random()
            if r < 0.4:
                lines += ['open ow %s 0' % rnd.choice(COMPS), 'dump'] + G.random_content(rnd, rnd.randint(0, 3)) + rnd.choice([[], ['flush']]) + ['close']
            elif r < 0.8:
                st2 = dict(st)
                lines += ['open rw %s 0' % rnd.choice(COMPS), 'cmp'] + G.random_content(rnd, rnd.randint(0, 3), st2) + rnd.choice([[], ['flush']]) + ['close']
            else:
                lines += ['open ro none 0', 'cmp', 'flush', 'close']
            if rnd.random() < 0.5:
                lines += ['drop %s 40' % rnd.choice(G.KINDS)]           # dropping stale handles is harmless
                lines += ['open ro none 0', 'dump', 'close']
            lines.append('killrun')
            cases.append(Case(lines, 'history'))
        # minimal histories
        cases.append(Case(['fs missing', 'open rw none 0', 'flush', 'close', 'killrun'], 'minimal'))
        cases.append(Case(['fs missing', 'open ow deflate 0', 'blk a', 'flush', 'blk b', 'flush', 'close', 'open ro none 0', 'close', 'killrun'], 'minimal'))
        cases.append(Case(['fs lib', 'open ro none 0', 'flush', 'close', 'close', 'flush', 'killrun'], 'minimal'))
        # the smallest read-only sessions: a refused overwrite / one live handle, then reopen for writing
        cases.append(Case(['fs missing', 'open rw none 0', 'rich r', 'close', 'open ro none 0', 'mutin Block.type %d' % uc, 'close',
                           'open rw none 0', 'dump', 'close', 'open ow none 0', 'close', 'killrun'], 'minimal'))
        cases.append(Case(['fs missing', 'open rw none 0', 'rich r', 'close', 'open ro none 0', 'hold block 1', 'close',
                           'stale Block.type touch block', 'open rw none 0', 'dump', 'close', 'open ow none 0', 'close', 'killrun'], 'minimal'))
        return cases

    def signature(self, case, impl, spec):
        for line, a, b in zip(case.lines, impl, spec):
            if b != 'ANY' and not self.compare(a, b):
                t = line.split(' ')
                if t[0] == 'stale':
                    return {'cmd': 'stale', 'call': t[1], 'impl': (a or '').split(' ')[-1]}
                if t[0] == 'killrun':
                    return {'cmd': 'killrun'}
                return {'cmd': t[0], 'impl': a}
        return {'cmd': case.lines[0].split(' ')[0]}

    def describe(self, case, impl, spec):
        bad = [(l, a, b) for l, a, b in zip(case.lines, impl, spec) if b != 'ANY' and not self.compare(a, b)]
        return '; '.join('`%s`: implementation %r, specification %r' % x for x in bad[:6])

    def extra_checks(self, ctx):
        stale = G.stale_calls()
        ctx['ev']['stale_calls_enumerated'] = len(stale)
        ctx['ev']['stale_calls_cached'] = sorted(n for (k, n, c) in stale if c == 'cached')
        ctx['ev']['handle_kinds'] = G.KINDS
        return []


PROP = C11()
