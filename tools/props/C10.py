"""C10 — format-version gate.  Translator-generated operators + exhaustive correspondence."""
import random, itertools
from engine import Prop, Case

INT_MIN, INT_MAX = -2147483648, 2147483647


class C10(Prop):
    id = 'C10'
    driver = 'drv_C10'
    model = 'C10'
    exhaustive = True
    level_text = ('Machine-checked Coq theorems (strict total lexicographic order, equality consistency, derived operators, '
                  'canRead/canWrite specifications, the read-only and read-write gate, Force) about definitions that are regenerated '
                  'from include/nix/Version.hpp on every run; the hand-written checkHeader/open model is tied by an exhaustive '
                  'correspondence run (version cube x modes x Force x header defects) against the sanitizer-built library, judged by '
                  'an extracted oracle proved equal to the gate.')
    level_note = ('Trusted: Coq kernel; the clang-AST translator; ExtrOcamlBasic extraction and the OCaml/C++ driver glue; HDF5 attribute '
                  'I/O. C++ int components modelled as Z (comparisons only). No axioms (closed under the global context).')
    technique = 'Coq proof over translator-generated FormatVersion operators + exhaustive correspondence of the open gate'
    nontrivial_rule = ('ops: all ordered pairs of triples over a 6^3 grid (components -1,0,1,2,3,INT_MAX) plus extreme values; '
                       'open: the full cube [-1..3]^3 around the library version plus INT_MIN/INT_MAX components x 3 modes x Force '
                       'on/off, plus every header defect; a case is non-trivial when the model reaches an OK outcome; '
                       'distinct = distinct case text')
    assumptions = ['C++ int version components are modelled as unbounded Z (only comparisons are performed on them)',
                   'HDF5 attribute I/O of the header is assumed to return what was stored (exercised by the exhaustive cube)']
    trusted_base = ['translator tools/translate/cxx2coq.py (FormatVersion methods, HDF5_FF_VERSION, FILE_FORMAT regenerated every run)',
                    'hand-written checkHeader/open_file in coq/FileIO/Version.v, tied by the exhaustive correspondence run']

    def generate(self, seed, tier, scale=1):
        rnd = random.Random(seed)
        cases = []
        grid = [-1, 0, 1, 2, 3, INT_MAX]
        trip = list(itertools.product(grid, repeat=3))
        if tier == 'quick' and scale == 1:
            # every pair over the 4^3 sub-grid around the library version + a random sample of the 6^3 grid
            sub = list(itertools.product([0, 1, 2, 3], repeat=3))
            for a in sub:
                for b in sub:
                    cases.append(Case('ops %d %d %d %d %d %d' % (a + b), 'ops'))
            for _ in range(3000):
                a, b = rnd.choice(trip), rnd.choice(trip)
                cases.append(Case('ops %d %d %d %d %d %d' % (a + b), 'ops'))
        else:
            for a in trip:
                for b in trip:
                    cases.append(Case('ops %d %d %d %d %d %d' % (a + b), 'ops'))
        for a in [(INT_MIN, 0, 0), (INT_MAX, INT_MAX, INT_MAX), (1, 2, 0), (1, 2, INT_MIN)]:
            for i in (0, 1, 2, 3, 7):
                cases.append(Case('idx %d %d %d %d' % (a + (i,)), 'idx'))
            cases.append(Case('ctor 3 %d %d %d' % a, 'ctor'))
        for bad in ('ctor 0', 'ctor 1 5', 'ctor 2 1 2', 'ctor 4 1 2 0 0', 'ctor 5 1 2 3 4 5'):
            cases.append(Case(bad, 'ctor'))
        comps = [-1, 0, 1, 2, 3]
        cube = list(itertools.product(comps, repeat=3))
        ext = [(INT_MIN, 2, 0), (INT_MAX, 2, 0), (1, INT_MIN, 0), (1, INT_MAX, 0), (1, 2, INT_MIN), (1, 2, INT_MAX),
               (INT_MAX, INT_MAX, INT_MAX), (INT_MIN, INT_MIN, INT_MIN)]
        for v in cube + ext:
            for mode in ('rw', 'ro', 'ow'):
                for force in (0, 1):
                    cases.append(Case('open %d %d %d %s %d none' % (v + (mode, force)), 'open'))
        for d in ('noformat', 'badformat', 'noversion', 'noid', 'ver2', 'ver4', 'plainh5', 'nonh5'):
            for v in [(1, 2, 0), (1, 1, 0), (1, 1, 1), (2, 0, 0)]:
                for mode in ('rw', 'ro', 'ow'):
                    for force in (0, 1):
                        cases.append(Case('open %d %d %d %s %d %s' % (v + (mode, force, d)), 'open-defect'))
        # header defects that are ALMOST right: format strings around "nix", a missing id across the versions around 1.2.0
        def hx(b):
            return 's:' + b.hex()
        for fmt in (b'nix', b'nixx', b'nix2', b'nixio', b'nix ', b' nix', b'NIX', b'Nix', b'ni', b'n', b'', b'xnix', b'nix\xc3\xa4', b'hdf5'):
            for v in [(1, 2, 0), (1, 1, 0), (1, 0, 0)]:
                for mode in ('rw', 'ro', 'ow'):
                    for force in (0, 1):
                        cases.append(Case('open %d %d %d %s %d fmt=%s' % (v + (mode, force, hx(fmt))), 'open-format'))
        for v in [(1, 2, 0), (1, 2, 1), (1, 2, 5), (1, 2, INT_MAX), (1, 1, 0), (1, 1, 9), (1, 0, 0), (1, 2, -1), (1, 3, 0), (0, 9, 9), (2, 0, 0)]:
            for mode in ('rw', 'ro', 'ow'):
                for force in (0, 1):
                    cases.append(Case('open %d %d %d %s %d noid' % (v + (mode, force)), 'open-noid'))
        if scale > 1:
            for _ in range(2000 * scale):
                a = tuple(rnd.choice([rnd.randint(-5, 5), rnd.choice([INT_MIN, INT_MAX, 0, 1, 2])]) for _ in range(3))
                b = tuple(rnd.choice([rnd.randint(-5, 5), rnd.choice([INT_MIN, INT_MAX, 0, 1, 2])]) for _ in range(3))
                cases.append(Case('ops %d %d %d %d %d %d' % (a + b), 'ops-random'))
        return cases

    def signature(self, case, impl, spec):
        t = case.lines[0].split(' ')
        return {'cmd': t[0], 'args': ' '.join(t[1:])}


PROP = C10()
