"""C05 — Tag retrieval returns exactly the tagged region.
Model coq/Access/Retrieval.v (dataAccess.cpp statement for statement over the generated index conversions),
specification coq/Access/RetrievalSpec.v (brute force over the axis coordinates), theorems
coq/Access/RetrievalProofs.v; correspondence through the public API on arrays filled with their own flat index."""
import random
from engine import Prop, Case
import retr_gen as G


class C05(Prop):
    id = 'C05'
    driver = 'drv_C05'
    model = 'C05'
    search_scale = 3
    search_budget_s = 300
    technique = ('Coq proof about a hand-written model of src/util/dataAccess.cpp that calls the translator-generated index '
                 'conversions (Flocq binary64) + correspondence through the public API on arrays filled with their own flat index, '
                 'judged by an extracted brute-force specification (linear scan over the axis coordinates)')
    level_text = ('Machine-checked Coq theorems (coq/Properties/Properties_C05.v), unbounded in rank, shape and number of position '
                  'entries, no hypothesis left about the index conversions (discharged by the C07 theorems sampled / set / data-frame / '
                  'range _index_spec): for the repaired behaviour taggedData(Tag) returns Ok(offset, count) exactly when every '
                  'per-dimension index set {i | p <= x_i <= p(+)e} (< for Exclusive; the first x_i >= p for an absent or zero extent; every '
                  'index for a dimension the tag does not specify) is non-empty and inside the data, and then [offset, offset+count) IS '
                  'that set in every dimension (tagged_exact); otherwise the result is nix::OutOfBounds, never data and never another '
                  'outcome (tagged_oob, tagged_total); extra position entries are ignored, missing ones give the full dimension '
                  '(Inclusive mode; the Exclusive case is refuted by a witness - open finding pinned by testFlexibleTagging); feature '
                  'data follows the link type; the extracted brute-force oracle equals the Prop statement (oracle_region / oracle_refuse / '
                  'spec_ids_region) and the repaired model answers what the oracle answers on its whole domain (tag_meets_oracle). '
                  'The proofs use only the rule specification of the conversions and monotone axes - they are about how retrieval '
                  'composes the conversions. The last obligation current_is_repaired stays open until the fix: commits land.')
    level_note = ('Trusted: Coq kernel, Flocq, stdlib real-number axioms, translator, extraction and driver glue; the model of '
                  'dataAccess.cpp is hand-written and tied by the correspondence run (getOffsetAndCount vectors, shapes and element ids '
                  'of the views actually returned, exception classes). Unit scaling is restricted to atomic SI units of power 1 '
                  '(prefix factors from the generated table); x86-64 SSE2 doubles. The model mirrors the tree through one switch per '
                  'known defect (record behaviour); RETR_MODEL=today|repaired|ideal or RETR_FLAGS=<switches> select another behaviour '
                  'for replays against patched copies.')
    nontrivial_rule = ('a case is one array set-up (rank 1..3, every combination of sampled / range / set / data-frame descriptors) with a '
                       'tag whose entries are aimed at the coordinates (on, one ulp beside, between, outside; extent absent, zero, '
                       'negative, sub-ulp, reaching a coordinate exactly, one ulp short / long, beyond the data), fewer / equal / more '
                       'entries than dimensions, units none / equal / scaled / not scalable, followed by getOffsetAndCount, taggedData '
                       'and featureData queries in all three modes; non-trivial = the model returned data for at least one query')
    assumptions = ['coordinates of a sampled axis are the doubles positionAt() computes: fl(fl(i*dt)+offset); the end of a region is '
                   'position (+) extent in binary64, scaled by the unit factor exactly as the code scales it',
                   'the specification judges arrays whose descriptors cover the data (ticks / labels / rows >= extent, strictly '
                   'ascending finite ticks, interval > 0) and requests whose units scale (same SI base unit); everything else is '
                   'replayed model-vs-implementation only',
                   'units: atomic SI units of power 1 and "none"; splitUnit on them = table split (C18); libm pow is not involved '
                   '(no power string)',
                   'set / data-frame positions below 2^52 (the conversion refuses larger ones)']
    trusted_base = ['hand model coq/Access/Retrieval.v of src/util/dataAccess.cpp, src/Tag.cpp, src/DataView.cpp (constructor), tied by correspondence',
                    'translator tools/translate/cxx2coq.py for getSampledIndex / getSetIndex / getDataFrameIndex; hand model of getIndex (C07)',
                    'HDF5 hyperslab read of a DataView delivers the elements of the box offset/count (checked by the ids returned)']

    def canon(self, line):
        # out-of-bounds is the class the property names; std::out_of_range (NDSize::operator[]) counts as such
        return line.replace('ERR std::out_of_range', 'ERR nix::OutOfBounds')

    # -------------------------------------------------------------- generator
    def one_case(self, rnd, kinds, flavour):
        rank = len(kinds)
        consistent = flavour != 'inconsistent'
        big = rank == 1 and rnd.random() < 0.15
        shape = G.random_shape(rnd, rank, big)
        ref = G.make_array(rnd, '0', kinds, shape, consistent)
        # how many position entries
        npos = rnd.choice([rank, rank, rank, max(0, rank - 1), max(0, rank - 1), rank + 1, max(0, rank - 2)])
        if flavour == 'pad':
            npos = rnd.randrange(0, rank) if rank > 1 else 0
        ext_mode = rnd.choice(['absent', 'present', 'present', 'present', 'zero'])
        unit_style = rnd.choice(['none', 'none', 'same', 'scaled', 'scaled', 'bad']) if flavour != 'units' else rnd.choice(['same', 'scaled', 'bad'])
        if flavour == 'inconsistent':
            unit_style = 'none'
        pos, ext, units, tags = [], [], [], []
        for k in range(npos):
            if k < rank:
                p, e, u, tg = G.entry_for(rnd, ref.dims[k], shape[k], ext_mode, unit_style if rnd.random() < 0.8 else 'none')
            else:
                p, e, u, tg = rnd.uniform(-2, 5), (None if ext_mode == 'absent' else rnd.uniform(0, 2)), 'none', 'extra'
            pos.append(p)
            ext.append(e)
            units.append(u)
            tags.append(tg)
        if all(u == 'none' for u in units) and rnd.random() < 0.7:
            units = []
        elif units and rnd.random() < 0.2:
            units = units[:rnd.randrange(1, len(units) + 1)]      # fewer units than positions
        elif units and rnd.random() < 0.1:
            units = units + ['none']
        ext_l = [] if ext_mode == 'absent' else [e if e is not None else 0.0 for e in ext]
        if ext_l and flavour == 'malformed':
            ext_l = ext_l[:-1] if len(ext_l) > 1 else ext_l + [1.0]
        lines = ['reset', ref.line()]
        feats = []
        nfeat = rnd.choice([0, 1, 1, 2, 3]) if flavour != 'plain' else 0
        for j in range(nfeat):
            link = rnd.choice(G.LINKS)
            fa = G.feature_array(rnd, str(1 + j), ref, link)
            if link == 'tagged' and rnd.random() < 0.6:
                # same descriptors as the reference so that the region is meaningful
                fa = G.Arr(str(1 + j), list(ref.shape), ref.dims)
            lines.append(fa.line())
            feats.append((fa, link))
        units = G.blanked(rnd, units, self._routes)
        lines.append('tag %d %s %d %s %d %s' % (len(pos), ' '.join(G.enc(p) for p in pos), len(ext_l), ' '.join(G.enc(e) for e in ext_l),
                                                len(units), ' '.join(G.encs(u) for u in units)))
        lines[-1] = ' '.join(lines[-1].split())
        if flavour != 'noref':
            lines.append('ref 0')
        for fa, link in feats:
            lines.append('feat %s %s' % (fa.aid, link))
        modes = G.MODES if rnd.random() < 0.6 else [rnd.choice(G.MODES)]
        for m in modes:
            lines.append('offcnt 0 %s' % m)
        rc = self._routes
        for m in modes:
            if flavour != 'noref' and rnd.random() < 0.5:
                lines.append(G.routed(rnd, 'tagged', [0], m, None, rc))      # the same request through another entry point
            else:
                lines.append('tagged 0 %s' % m)
        if flavour != 'noref' and rnd.random() < 0.12:
            lines += G.all_routes(rnd, 'tagged', [0], rc)                     # ... through EVERY entry point
        if rnd.random() < 0.3:
            lines.append('taggeda 0 %s' % rnd.choice(G.MODES))
        if rnd.random() < 0.15:
            lines.append('tagged %d %s' % (rnd.choice([1, 2, 7]), rnd.choice(G.MODES)))      # reference index out of range
        for j in range(len(feats)):
            for m in (modes if rnd.random() < 0.5 else [rnd.choice(G.MODES)]):
                if rnd.random() < 0.5:
                    lines.append(G.routed(rnd, 'feature', [j], m, None, rc))
                else:
                    lines.append('feature %d %s' % (j, m))
            if rnd.random() < 0.12:
                lines += G.all_routes(rnd, 'feature', [j], rc)
        if rnd.random() < 0.5:
            lines += G.direct_queries(rnd, ref, rc)
        if flavour not in ('noref',) and kinds != ['A'] and rnd.random() < 0.35:
            lines.append('wtagged 0 %s' % rnd.choice(G.MODES))          # the region written through the view and read back
            rc['wtagged'] = rc.get('wtagged', 0) + 1
        if rnd.random() < 0.2:
            lines.append('feature %d %s' % (len(feats) + rnd.choice([0, 1, 3]), rnd.choice(G.MODES)))   # feature index out of range
        tag = '%s:%d%s' % (flavour, rank, ''.join(kinds))
        return Case(lines, tag)

    _routes = {}

    def extra_checks(self, ctx):
        # which public entry points exist and how many query lines of this run went through each
        ctx['ev']['entry_points'] = {k: G.ROUTES[k] for k in ('tagged', 'feature')}
        ctx['ev']['entry_points_plain'] = {k: G.PLAIN_ROUTES[k] for k in ('offcnt', 'taggeda')}
        ctx['ev']['entry_points_direct'] = {k: G.DIRECT[k] for k in ('dimunit', 'indata', 'pti1', 'ptiv', 'wtagged', 'units-with-blanks', 'FC-dimension')}
        ctx['ev']['query_lines_per_route'] = dict(sorted(self._routes.items()))
        return []

    def generate(self, seed, tier, scale=1):
        rnd = random.Random(seed)
        self._routes = {}
        combos = G.all_kind_combos()          # 4 + 16 + 64
        quick = tier == 'quick'
        per = (18 if quick else 760) * scale
        cases = []
        flavours = ['std', 'std', 'std', 'std', 'pad', 'pad', 'units', 'plain', 'inconsistent', 'malformed', 'noref']
        for kinds in combos:
            reps = per * (6 if len(kinds) == 1 else 3 if len(kinds) == 2 else 1)
            for r in range(reps):
                cases.append(self.one_case(rnd, list(kinds), flavours[r % len(flavours)] if r < len(flavours) else rnd.choice(flavours)))
        return cases

    def nontrivial(self, case, model_lines):
        """the model returned data (not an error) for at least one QUERY line; set-up lines do not count"""
        return any(m.startswith('OK') and l.split(' ')[0] not in G.SETUP for l, m in zip(case.lines, model_lines))

    def signature(self, case, impl, spec):
        return G.signature('tag', case, impl, spec, self.compare)


PROP = C05()
