"""Shared by C03 and C08 (and meant for C04 / C02 / C12): generators of history scripts in the language of
harness/hist_common.hpp + ocaml/hist_common.ml, the comparison of answer lines and the signature of a failure.

A generator keeps a SHADOW of the file (which ordinals exist, where, under which name, alive or not) only to
aim its choices; the shadow is a guess (it assumes that a well-formed create succeeds) and is never used to
judge anything."""
import random, re
from engine import Case


def hx(s):
    if isinstance(s, str):
        s = s.encode()
    return 's:' + s.hex()


UUID1 = '12345678-1234-1234-1234-123456789abc'
UUID2 = 'abcdefgh-ijkl-mnop-qrst-uvwxyz012345'     # only the shape of a uuid
PLAIN = ['a', 'b', 'c', 'alpha', 'Alpha', 'ALPHA', 'a b', ' ', '..', 'a ', ' a', 'café', '日本', 'x' * 200,
         '...', 'a.b', 'link', 'metadata', 'data', 'sources', 'name']
UUIDISH = [UUID1, UUID2, UUID1.upper()]
BADNAMES = ['', 'a/b', '.', '/']
TYPES = ['t', 'T', 'nix.type']
DTYPES_OK = ['Double', 'Int32', 'Int64', 'UInt8', 'Float', 'Bool', 'String', 'Int16', 'UInt64']
VTYPES = ['Bool', 'Int32', 'UInt32', 'Int64', 'UInt64', 'Double', 'String']
D1 = 'd:3ff0000000000000'
D2 = 'd:4000000000000000'
LT = ['tagged', 'untagged', 'indexed']

# which child kinds a parent kind has
CHILD = {'F': 'BS', 'S': 'SP', 'B': 'ADTMGR', 'R': 'R', 'T': 'X', 'M': 'X'}
HOLDER = {'ref': 'TM', 'src': 'ADTMG', 'ga': 'G', 'gd': 'G', 'gt': 'G', 'gm': 'G'}
SLKIND = {'ref': 'A', 'src': 'R', 'ga': 'A', 'gd': 'D', 'gt': 'T', 'gm': 'M'}


class Shadow:
    def __init__(self, rnd):
        self.rnd = rnd
        self.lines = ['new']
        self.cls = {}            # line index -> label of the invalid-argument class
        self.e = []              # ordinal -> dict(K, p, name(str or None), tok, alive, block)

    # ---- bookkeeping ----
    def emit(self, line, cls=None):
        if cls:
            self.cls[len(self.lines)] = cls
        self.lines.append(line)

    def ptok(self, p):
        return 'F' if p < 0 else str(p)

    def block_of(self, k):
        while k >= 0 and self.e[k]['K'] != 'B':
            k = self.e[k]['p']
        return k

    def live(self, K, p=None, block=None):
        out = []
        for k, d in enumerate(self.e):
            if d['alive'] and d['K'] in K and (p is None or d['p'] == p) and (block is None or self.block_of(k) == block):
                out.append(k)
        return out

    def dead(self, K):
        return [k for k, d in enumerate(self.e) if not d['alive'] and d['ok'] and d['K'] in K and
                (d['p'] < 0 or self.e[d['p']]['alive'])]

    def names_in(self, p, K):
        return {d['name'] for d in self.e if d['alive'] and d['p'] == p and d['K'] == K}

    def kill(self, k):
        self.e[k]['alive'] = False
        for c, d in enumerate(self.e):
            if d['alive'] and d['p'] == k:
                self.kill(c)

    def parents_for(self, K):
        """live parents that can hold a child of kind K (-1 = file)"""
        ps = []
        if K in 'BS':
            ps.append(-1)
        for pk in 'SBRTM':
            if K in CHILD[pk]:
                ps += self.live(pk)
        if K == 'S' or K == 'R':
            pass
        return ps

    # ---- names ----
    def name_token(self, name):
        return hx(name)

    def pick_new_name(self, p, K, weird=0.35):
        rnd = self.rnd
        used = self.names_in(p, K)
        r = rnd.random()
        if r < weird * 0.4:
            pool = UUIDISH
        elif r < weird:
            pool = PLAIN[3:]
        else:
            pool = PLAIN[:8] + ['n%d' % i for i in range(6)]
        free = [n for n in pool if n not in used]
        if not free:
            free = ['z%d' % len(self.e)]
        return rnd.choice(free)

    # ---- creation ----
    def mk(self, p, K, name, typ, extra='', ok=True, cls=None, nametok=None):
        k = len(self.e)
        tok = nametok if nametok is not None else hx(name)
        self.e.append({'K': K, 'p': p, 'name': name, 'alive': ok, 'ok': ok, 'extra': extra})
        self.emit(('mk %s %s %s %s %s' % (self.ptok(p), K, tok, hx(typ), extra)).strip(), cls)
        return k

    def extra_for(self, p, K):
        """well-formed extra arguments of a create of kind K under parent p (None when impossible)"""
        rnd = self.rnd
        if K in 'BSGR':
            return ''
        if K == 'A':
            rank = rnd.choice([1, 1, 1, 2, 3])
            return '%s %d %s' % (rnd.choice(DTYPES_OK), rank, ' '.join(str(rnd.choice([0, 1, 2, 3, 5])) for _ in range(rank)))
        if K == 'D':
            n = rnd.choice([1, 1, 2, 3])
            cols = []
            for i in range(n):
                cols.append('%s %s %s' % (hx('c%d' % i), rnd.choice(VTYPES), hx(rnd.choice(['', 'mV', 's']))))
            return '%d %s' % (n, ' '.join(cols))
        if K == 'T':
            n = rnd.choice([0, 1, 1, 2])
            return ('%d %s' % (n, ' '.join(rnd.choice([D1, D2]) for _ in range(n)))).strip()
        if K == 'M':
            arrs = self.live('A', p=p)
            if not arrs:
                return None
            return str(rnd.choice(arrs))
        if K == 'P':
            if rnd.random() < 0.5:
                return 't ' + rnd.choice(VTYPES)
            n = rnd.choice([1, 1, 2, 4])
            t = rnd.choice(VTYPES)
            return 'v %d %s' % (n, ' '.join([t] * n))
        if K == 'X':
            arrs = self.live('A', block=self.block_of(p))
            if not arrs:
                return None
            a = rnd.choice(arrs)
            if rnd.random() < 0.6:
                return 'h %d %s' % (a, rnd.choice(LT))
            return 's %s:%d %s' % (rnd.choice('ni'), a, rnd.choice(LT))
        return None

    def create(self, K, p=None, name=None, chk=True):
        """a well-formed create of kind K (random live parent when p is None); returns the ordinal or None"""
        rnd = self.rnd
        if p is None:
            ps = self.parents_for(K)
            if not ps:
                return None
            p = rnd.choice(ps)
        extra = self.extra_for(p, K)
        if extra is None:
            return None
        if K == 'X':
            k = self.mk(p, K, '', '', extra)
            self.e[k]['name'] = None
            self.emit_raw_fix_feature(k)
        else:
            if name is None:
                name = self.pick_new_name(p, K)
            ok = name not in self.names_in(p, K)
            k = self.mk(p, K, name, rnd.choice(TYPES), extra, ok=ok)
        if chk:
            self.emit('chk %s %s' % (self.ptok(p), K))
        return k

    def emit_raw_fix_feature(self, k):
        # features carry empty name / type tokens: "mk <p> X s: s: h <ref> <lt>"
        pass

    # ---- population ----
    def populate(self, size=1.0, chk=False):
        rnd = self.rnd
        nb = rnd.choice([1, 1, 2])
        for _ in range(nb):
            b = self.create('B', chk=chk)
            for _ in range(rnd.randint(1, max(1, int(3 * size)))):
                self.create('A', b, chk=chk)
            for _ in range(rnd.randint(0, max(1, int(2 * size)))):
                self.create('D', b, chk=chk)
            for _ in range(rnd.randint(1, max(1, int(2 * size)))):
                t = self.create('T', b, chk=chk)
                if t is not None and rnd.random() < 0.6:
                    self.create('X', t, chk=chk)
            for _ in range(rnd.randint(0, max(1, int(2 * size)))):
                m = self.create('M', b, chk=chk)
                if m is not None and rnd.random() < 0.5:
                    self.create('X', m, chk=chk)
            for _ in range(rnd.randint(0, max(1, int(2 * size)))):
                self.create('G', b, chk=chk)
            for _ in range(rnd.randint(1, max(1, int(2 * size)))):
                r = self.create('R', b, chk=chk)
                if r is not None and rnd.random() < 0.6:
                    c = self.create('R', r, chk=chk)
                    if c is not None and rnd.random() < 0.4:
                        self.create('R', c, chk=chk)
        for _ in range(rnd.randint(1, max(1, int(2 * size)))):
            s = self.create('S', -1, chk=chk)
            if s is not None:
                if rnd.random() < 0.7:
                    self.create('P', s, chk=chk)
                if rnd.random() < 0.6:
                    c = self.create('S', s, chk=chk)
                    if c is not None and rnd.random() < 0.5:
                        self.create('P', c, chk=chk)
        # some links
        for _ in range(int(6 * size)):
            self.valid_link_step(chk=chk)

    def valid_link_step(self, chk=True):
        """one well-formed add / set of a link"""
        rnd = self.rnd
        what = rnd.choice(['ref', 'src', 'ga', 'gd', 'gt', 'gm', 'meta', 'link', 'ext'])
        if what in HOLDER:
            hs = self.live(HOLDER[what])
            if not hs:
                return False
            h = rnd.choice(hs)
            b = self.block_of(h)
            ts = self.live(SLKIND[what], block=b)
            if not ts:
                return False
            t = rnd.choice(ts)
            r = rnd.random()
            if r < 0.6 or (what == 'src'):
                if what == 'src' and r >= 0.6:
                    self.emit('ladds %d %s i:%d' % (h, what, t))
                else:
                    self.emit('ladd %d %s %d' % (h, what, t))
            else:
                self.emit('ladds %d %s %s:%d' % (h, what, rnd.choice('ni'), t))
            if chk:
                self.emit('lchk %d %s' % (h, what))
            return True
        if what == 'meta':
            hs = self.live('BRADTMG')
            ss = self.live('S')
            if not hs or not ss:
                return False
            h, s = rnd.choice(hs), rnd.choice(ss)
            self.emit(('setmeta %d %d' % (h, s)) if rnd.random() < 0.6 else ('setmetas %d i:%d' % (h, s)))
            return True
        if what == 'link':
            ss = self.live('S')
            if len(ss) < 2:
                return False
            a, b = rnd.sample(ss, 2)
            self.emit(('setlink %d %d' % (a, b)) if rnd.random() < 0.6 else ('setlinks %d i:%d' % (a, b)))
            return True
        return False

    # ---- lookup keys ----
    def key_for(self, k):
        """a string naming ordinal k: by name or by id"""
        nm = self.e[k]['name']
        if self.e[k]['K'] == 'X' or not nm or '/' in nm or self.rnd.random() < 0.5:
            return 'i:%d' % k
        return 'n:%d' % k

    def random_key(self):
        rnd = self.rnd
        r = rnd.random()
        if self.e and r < 0.5:
            k = rnd.randrange(len(self.e))
            # lookup keys are non-empty (features have no name) and contain no slash (that would be an HDF5 path)
            nm = self.e[k]['name']
            return '%s:%d' % ('i' if self.e[k]['K'] == 'X' or not nm or '/' in nm else rnd.choice('ni'), k)
        if r < 0.7:
            return hx(rnd.choice(UUIDISH))
        return hx(rnd.choice(PLAIN))

    def containers(self):
        """all (parent, kind) containers of live parents"""
        out = [(-1, 'B'), (-1, 'S')]
        for k, d in enumerate(self.e):
            if d['alive'] and d['K'] in CHILD:
                for K in CHILD[d['K']]:
                    out.append((k, K))
        return out

    def lcontainers(self):
        out = []
        for k, d in enumerate(self.e):
            if d['alive']:
                for sl, ks in HOLDER.items():
                    if d['K'] in ks:
                        out.append((k, sl))
        return out

    def chk_all(self):
        for p, K in self.containers():
            self.emit('chk %s %s' % (self.ptok(p), K))
        for h, sl in self.lcontainers():
            self.emit('lchk %d %s' % (h, sl))


# ------------------------------------------------------------------------------------------------
# C03: interleaved create / delete / re-create over every container kind
# ------------------------------------------------------------------------------------------------
def gen_c03_case(rnd, steps, flavour):
    sh = Shadow(rnd)
    sh.populate(size=rnd.choice([0.5, 1.0, 1.5]), chk=(flavour == 'chk-every-step'))
    kinds = 'BSPADTMGRX'
    for _ in range(steps):
        r = rnd.random()
        if r < 0.30:
            # create, sometimes under a name that is taken, looks like a uuid, or IS the id of an entity
            K = rnd.choice(kinds)
            ps = sh.parents_for(K)
            if not ps:
                continue
            p = rnd.choice(ps)
            q = rnd.random()
            if K != 'X' and q < 0.15 and sh.names_in(p, K):
                name = rnd.choice(sorted(sh.names_in(p, K), key=lambda x: (x is None, x)))
                if name is None:
                    continue
                extra = sh.extra_for(p, K)
                if extra is None:
                    continue
                sh.mk(p, K, name, 't', extra, ok=False, cls='dup-name')
                sh.emit('chk %s %s' % (sh.ptok(p), K))
            elif K != 'X' and q < 0.25 and sh.e:
                # the id of an existing entity as a name
                other = rnd.randrange(len(sh.e))
                extra = sh.extra_for(p, K)
                if extra is None:
                    continue
                same = sh.e[other]['alive'] and sh.e[other]['p'] == p and sh.e[other]['K'] == K
                k = sh.mk(p, K, '#id%d' % other, 't', extra, ok=not same, nametok='i:%d' % other)
                sh.emit('chk %s %s' % (sh.ptok(p), K))
            elif K != 'X' and q < 0.32:
                extra = sh.extra_for(p, K)
                if extra is None:
                    continue
                sh.mk(p, K, rnd.choice(BADNAMES), 't', extra, ok=False, cls='bad-name')
                sh.emit('chk %s %s' % (sh.ptok(p), K))
            else:
                sh.create(K, p)
        elif r < 0.52:
            # delete by name / id / handle / arbitrary key
            cs = [(p, K) for (p, K) in sh.containers() if sh.live(K, p=p)]
            if not cs:
                continue
            p, K = rnd.choice(cs)
            k = rnd.choice(sh.live(K, p=p))
            q = rnd.random()
            if q < 0.45:
                sh.emit('del %s %s %s' % (sh.ptok(p), K, sh.key_for(k)))
                sh.kill(k)
            elif q < 0.78:
                sh.emit('delh %s %s %d' % (sh.ptok(p), K, k))
                sh.kill(k)
            elif q < 0.85:
                # by the handle of an entity of this kind that lives somewhere else: nothing may be deleted
                others = [x for x in sh.live(K) if sh.e[x]['p'] != p]
                if others:
                    sh.emit('delh %s %s %d' % (sh.ptok(p), K, rnd.choice(others)))
            else:
                sh.emit('del %s %s %s' % (sh.ptok(p), K, sh.random_key()))
            sh.emit('chk %s %s' % (sh.ptok(p), K))
            if rnd.random() < 0.5:
                ls = sh.lcontainers()
                if ls:
                    h, sl = rnd.choice(ls)
                    sh.emit('lchk %d %s' % (h, sl))
        elif r < 0.70:
            # links: add / remove / replace-all
            ls = sh.lcontainers()
            if not ls:
                continue
            h, sl = rnd.choice(ls)
            b = sh.block_of(h)
            ts = sh.live(SLKIND[sl], block=b)
            q = rnd.random()
            if q < 0.5 and ts:
                t = rnd.choice(ts)
                if rnd.random() < 0.6:
                    sh.emit('ladd %d %s %d' % (h, sl, t))
                else:
                    sh.emit('ladds %d %s %s:%d' % (h, sl, 'i' if sl == 'src' else rnd.choice('ni'), t))
            elif q < 0.8 and ts:
                t = rnd.choice(ts)
                if rnd.random() < 0.5:
                    sh.emit('lrm %d %s %d' % (h, sl, t))
                else:
                    sh.emit('lrms %d %s %s:%d' % (h, sl, 'i' if sl == 'src' else rnd.choice('ni'), t))
            elif ts:
                n = rnd.randint(0, min(3, len(ts)))
                sel = rnd.sample(ts, n)
                sh.emit('hobs %d' % h)
                sh.emit('lset %d %s %d %s' % (h, sl, n, ' '.join(map(str, sel))))
                sh.emit('hobs %d' % h)
            sh.emit('lchk %d %s' % (h, sl))
        elif r < 0.85:
            # raw lookups with every sort of key
            if rnd.random() < 0.6:
                p, K = rnd.choice(sh.containers())
                c = rnd.choice(['has', 'get', 'geti', 'cnt', 'ls', 'hash'])
                if c in ('has', 'get'):
                    sh.emit('%s %s %s %s' % (c, sh.ptok(p), K, sh.random_key()))
                elif c == 'geti':
                    sh.emit('geti %s %s %d' % (sh.ptok(p), K, rnd.choice([0, 0, 1, 2, 5])))
                elif c == 'hash':
                    cand = [k for k, d in enumerate(sh.e) if d['K'] == K and (d['alive'] or d['p'] < 0 or sh.e[d['p']]['alive'])]
                    sh.emit('hash %s %s %s' % (sh.ptok(p), K, rnd.choice(cand) if cand and rnd.random() < 0.9 else '-'))
                else:
                    sh.emit('%s %s %s' % (c, sh.ptok(p), K))
            else:
                ls = sh.lcontainers()
                if not ls:
                    continue
                h, sl = rnd.choice(ls)
                c = rnd.choice(['lhass', 'lget', 'lgeti', 'lcnt', 'lls', 'lhas'])
                if c in ('lhass', 'lget'):
                    sh.emit('%s %d %s %s' % (c, h, sl, sh.random_key()))
                elif c == 'lgeti':
                    sh.emit('lgeti %d %s %d' % (h, sl, rnd.choice([0, 0, 1, 3])))
                elif c == 'lhas':
                    cand = [k for k, d in enumerate(sh.e) if d['K'] == SLKIND[sl] and (d['alive'] or d['p'] < 0 or sh.e[d['p']]['alive'])]
                    sh.emit('lhas %d %s %s' % (h, sl, rnd.choice(cand) if cand and rnd.random() < 0.9 else '-'))
                else:
                    sh.emit('%s %d %s' % (c, h, sl))
        elif r < 0.90:
            sh.valid_link_step()
        elif r < 0.94:
            sh.emit('reopen')
            for d in sh.e:
                if not d['alive']:
                    d['ok'] = False      # dead handles are none handles after a reopen
            if rnd.random() < 0.5:
                sh.chk_all()
        else:
            ks = sh.live('BSRADTMG')
            if ks:
                k = rnd.choice(ks)
                sh.emit(rnd.choice(['settype %d %s' % (k, hx('t2')), 'setdef %d %s' % (k, hx('some definition')), 'setdef %d -' % k]))
    if flavour != 'no-final-reopen':
        sh.emit('reopen')
    sh.chk_all()
    return Case(sh.lines, 'c03-' + flavour, {'cls': sh.cls})


# ------------------------------------------------------------------------------------------------
# C03: every link container kind, members addressed by name string / id string / handle, for ordinary names,
# uuid-shaped names and names that are the id of another entity (seeded change C03-B: a group member with a
# uuid-shaped NAME removed BY NAME STRING stayed in the group)
# ------------------------------------------------------------------------------------------------
LINK_CONTAINERS = [('T', 'ref'), ('M', 'ref'), ('A', 'src'), ('D', 'src'), ('T', 'src'), ('M', 'src'), ('G', 'src'),
                   ('G', 'ga'), ('G', 'gd'), ('G', 'gt'), ('G', 'gm')]


def gen_c03_link_case(rnd, HK, sl):
    """one holder of kind HK, slot sl; three targets (plain name, uuid-shaped name, name = the id of another entity);
    every target is added, queried and removed in each of the three ways"""
    sh = Shadow(rnd)
    b = sh.mk(-1, 'B', 'blk', 't')
    a0 = sh.mk(b, 'A', 'pos', 't', 'Double 1 3')                      # positions of the multi-tags
    K = SLKIND[sl]
    uu = [rnd.choice(UUIDISH), '0f8fad5b-d9cb-469f-a165-70867728950e', 'zzzzzzzz-zzzz-zzzz-zzzz-zzzzzzzzzzzz']
    rnd.shuffle(uu)

    def mk_target(name, nametok=None):
        if K == 'A':
            return sh.mk(b, 'A', name, 't', 'Double 1 3', nametok=nametok)
        if K == 'D':
            return sh.mk(b, 'D', name, 't', '1 %s Int32 s:' % hx('c'), nametok=nametok)
        if K == 'T':
            return sh.mk(b, 'T', name, 't', '1 ' + D1, nametok=nametok)
        if K == 'M':
            return sh.mk(b, 'M', name, 't', str(a0), nametok=nametok)
        return sh.mk(b, 'R', name, 't', nametok=nametok)

    targets = [mk_target(rnd.choice(['plain m', 'alpha', 'a b', '..', 'café'])), mk_target(uu[0]), mk_target(uu[1]),
               mk_target('#id', nametok='i:%d' % b), mk_target(rnd.choice(['Plain M', 'plain m ', 'x' * 40]))]
    if K == 'R':
        # a nested source with the name of a root source, and one with a uuid-shaped name
        targets.append(sh.mk(targets[0], 'R', uu[2], 't'))
    if HK == 'A':
        h = sh.mk(b, 'A', 'holder', 't', 'Double 1 3')
    elif HK == 'D':
        h = sh.mk(b, 'D', 'holder', 't', '1 %s Int32 s:' % hx('c'))
    elif HK == 'T':
        h = sh.mk(b, 'T', 'holder', 't', '1 ' + D1)
    elif HK == 'M':
        h = sh.mk(b, 'M', 'holder', 't', str(a0))
    else:
        h = sh.mk(b, 'G', 'holder', 't')
    ways = ['h', 'n', 'i']

    def add(t, way):
        sh.emit('ladd %d %s %d' % (h, sl, t) if way == 'h' else 'ladds %d %s %s:%d' % (h, sl, way, t))

    def rm(t, way):
        sh.emit('lrm %d %s %d' % (h, sl, t) if way == 'h' else 'lrms %d %s %s:%d' % (h, sl, way, t))

    def queries(t):
        for w in ('n', 'i'):
            sh.emit('lhass %d %s %s:%d' % (h, sl, w, t))
            sh.emit('lget %d %s %s:%d' % (h, sl, w, t))
        sh.emit('lhas %d %s %d' % (h, sl, t))

    # everything in, then out one by one in every way
    for j, t in enumerate(targets):
        add(t, ways[j % 3])
        if sl == 'src' and ways[j % 3] == 'n':
            add(t, 'i')                       # entity sources can only be attached by id
    sh.emit('lchk %d %s' % (h, sl))
    for rmway in ways:
        order = list(targets)
        rnd.shuffle(order)
        for j, t in enumerate(order):
            queries(t)
            rm(t, rmway)
            sh.emit('lchk %d %s' % (h, sl))
            queries(t)
            if rnd.random() < 0.3:
                sh.emit('reopen')
                sh.emit('lchk %d %s' % (h, sl))
        # back in, by another way
        for j, t in enumerate(targets):
            add(t, ways[(j + 1 + ways.index(rmway)) % 3])
            if sl == 'src':
                add(t, 'i')
        sh.emit('lchk %d %s' % (h, sl))
        sh.emit('reopen')
        sh.emit('lchk %d %s' % (h, sl))
    return Case(sh.lines, 'c03-links-%s-%s' % (HK, sl), {'cls': sh.cls})


def gen_c03_link_cases(rnd):
    return [gen_c03_link_case(rnd, HK, sl) for (HK, sl) in LINK_CONTAINERS]


def gen_uuid_cases(rnd, n):
    """looksLikeUUID on strings around the shape 8-4-4-4-12"""
    out = []
    base = UUID1
    cands = [base, base[:-1], base + '0', base.replace('-', '_'), '-' * 36, 'x' * 36, '', base[:8] + 'x' + base[9:],
             base[:13] + 'x' + base[14:], base[:18] + 'x' + base[19:], base[:23] + 'x' + base[24:], 'a-b-c-d-e']
    for c in cands:
        out.append(Case(['uuid ' + hx(c)], 'uuid-shape'))
    for _ in range(n):
        s = list(base)
        for _ in range(rnd.randint(0, 3)):
            s[rnd.randrange(36)] = rnd.choice('-x0')
        if rnd.random() < 0.2:
            s = s[:rnd.randint(30, 36)]
        out.append(Case(['uuid ' + hx(''.join(s))], 'uuid-shape'))
    return out


# ------------------------------------------------------------------------------------------------
# C08: the malformed stream
# ------------------------------------------------------------------------------------------------
def _foreign(sh, K, b):
    """a live entity of kind K that is not in block b"""
    return [k for k in sh.live(K) if sh.block_of(k) != b]


def malformed_step(sh):
    """emit one call that the API must reject (with the label of its class); returns False when the state
    offers no opportunity for the class drawn"""
    rnd = sh.rnd
    c = rnd.choice(['create-name', 'create-name', 'create-dup', 'create-dup', 'create-type', 'array', 'array', 'frame', 'frame', 'frame', 'mtag', 'mtag',
                    'sdata', 'sdata', 'adata', 'adata', 'adata', 'mkfrom', 'mkfrom', 'wrowbad', 'wrowbad', 'dimcol',
                    'prop', 'prop', 'feature', 'ladd', 'ladd', 'ladds', 'lset', 'lset', 'meta', 'meta', 'link', 'pos', 'ext', 'ext',
                    'data', 'type', 'def', 'units', 'extent', 'values', 'values', 'index', 'lindex'])
    if c in ('create-name', 'create-dup', 'create-type'):
        K = rnd.choice('BSPADTMGR')
        ps = sh.parents_for(K)
        if not ps:
            return False
        p = rnd.choice(ps)
        extra = sh.extra_for(p, K)
        if extra is None:
            return False
        if c == 'create-name':
            bad = rnd.choice(BADNAMES)
            sh.mk(p, K, bad, 't', extra, ok=False, cls={'': 'empty-name', 'a/b': 'slash-name', '/': 'slash-name', '.': 'dot-name'}[bad])
        elif c == 'create-dup':
            names = [n for n in sh.names_in(p, K) if n is not None]
            if not names:
                return False
            k0 = rnd.choice([k for k in sh.live(K, p=p)])
            if rnd.random() < 0.7:
                sh.mk(p, K, sh.e[k0]['name'], rnd.choice(['t', 'other']), extra, ok=False, cls='dup-name', nametok='n:%d' % k0)
            else:
                sh.mk(p, K, '#id', 't', extra, ok=False, cls='dup-id-as-name', nametok='i:%d' % k0)
        else:
            if K == 'P':
                return False
            sh.mk(p, K, sh.pick_new_name(p, K, 0.1), '', extra, ok=False, cls='empty-type')
        return True
    if c == 'array':
        bs = sh.live('B')
        if not bs:
            return False
        b = rnd.choice(bs)
        q = rnd.random()
        if q < 0.35:
            sh.mk(b, 'A', sh.pick_new_name(b, 'A', 0.1), 't', '%s 1 3' % rnd.choice(['Nothing', 'Char']), ok=False, cls='unsupported-dtype')
        elif q < 0.6:
            sh.mk(b, 'A', sh.pick_new_name(b, 'A', 0.1), 't', 'Double 0', ok=False, cls='rank-0')
        else:
            # more dimensions than HDF5 supports (H5S_MAX_RANK = 32).  Ranks 10..32 are left out: whether the chunking
            # nix guesses for them is accepted by HDF5 depends on overflow in the guess (16, 30, 31, 32 x extent 1 are
            # refused, 24 is not) and is outside this model; notes/proposed-fixes/C08-4-createDataArray-rank-above-32.patch
            r = rnd.choice([33, 33, 34, 40, 64])
            sh.mk(b, 'A', sh.pick_new_name(b, 'A', 0.1), 't', '%s %d %s' % (rnd.choice(['Double', 'Int32', 'String']), r,
                  ' '.join(str(rnd.choice([1, 1, 2])) for _ in range(r))), ok=False, cls='rank-above-32')
        return True
    if c == 'mkfrom':
        # the header template createDataArray(name, type, data, data_type): data that cannot be converted into data_type
        bs = sh.live('B')
        if not bs:
            return False
        b = rnd.choice(bs)
        numeric = ['Double', 'Float', 'Int32', 'Int64', 'UInt8']
        if rnd.random() < 0.3:
            mem = rnd.choice(numeric + ['String'])
            dt = rnd.choice(['-', mem] if mem == 'String' else ['-', 'Double', 'Int16', 'UInt64', mem])
            sh.mk(b, 'A', sh.pick_new_name(b, 'A', 0.1), 't', 'from %s %d %s' % (mem, rnd.choice([1, 3, 5]), dt))      # accepted
        q = rnd.random()
        if q < 0.4:
            sh.mk(b, 'A', sh.pick_new_name(b, 'A', 0.1), 't', 'from %s %d String' % (rnd.choice(numeric), rnd.choice([1, 3, 5])), ok=False, cls='create-from-data-type')
        elif q < 0.7:
            sh.mk(b, 'A', sh.pick_new_name(b, 'A', 0.1), 't', 'from String %d %s' % (rnd.choice([1, 3]), rnd.choice(['Double', 'Int32', 'Bool'])), ok=False, cls='create-from-data-type')
        elif q < 0.85:
            sh.mk(b, 'A', sh.pick_new_name(b, 'A', 0.1), 't', 'from %s 2 Bool' % rnd.choice(numeric), ok=False, cls='create-from-data-type')
        else:
            sh.mk(b, 'A', sh.pick_new_name(b, 'A', 0.1), 't', 'from Double 3 %s' % rnd.choice(['Char', 'Nothing'.replace('Nothing', 'Char')]), ok=False, cls='unsupported-dtype')
        return True
    if c == 'wrowbad':
        # DataFrame::writeRow that has to be refused, on a frame with rows and cells to lose
        bs = sh.live('B')
        if not bs:
            return False
        b = rnd.choice(bs)
        cols = rnd.choice(['2 %s Int32 s: %s Double s:6d56' % (hx('c0'), hx('c1')), '2 %s String s: %s Int64 s:' % (hx('c0'), hx('c1')),
                           '1 %s Double s:' % hx('c0'), '3 %s UInt32 s: %s String s: %s Bool s:' % (hx('c0'), hx('c1'), hx('c2'))])
        d = sh.mk(b, 'D', sh.pick_new_name(b, 'D', 0.0), 't', cols)
        rows = rnd.choice([1, 2, 4])
        sh.emit('frows %d %d' % (d, rows))
        for r in range(rows):
            if rnd.random() < 0.7:
                sh.emit('wrow %d %d %d' % (d, r, rnd.randrange(1000)))
        how = rnd.choice(['row', 'row', 'type', 'type', 'many'])
        row = rows + rnd.choice([0, 0, 1, 7]) if how == 'row' else rnd.randrange(rows)
        sh.emit('wrowbad %d %d %s' % (d, row, how), 'frame-write-' + how)
        return True
    if c == 'dimcol':
        # appendDataFrameDimension(frame, column_index) with an index past the columns
        bs = sh.live('B')
        if not bs:
            return False
        b = rnd.choice(bs)
        d = sh.mk(b, 'D', sh.pick_new_name(b, 'D', 0.0), 't', '2 %s Int32 s: %s Double s:' % (hx('c0'), hx('c1')))
        a = sh.mk(b, 'A', sh.pick_new_name(b, 'A', 0.0), 't', 'Double 1 3')
        if rnd.random() < 0.5:
            sh.emit('dim %d frame %d %d' % (a, d, rnd.choice([0, 1])))
        sh.emit('dim %d frame %d %d' % (a, d, rnd.choice([2, 2, 3, 9])), 'dim-column-index')
        return True
    if c in ('sdata', 'adata'):
        # whole-array setData(value) / appendData with elements that cannot be converted into the array's element type
        # (String against numeric in both directions, anything but Bool into Bool), on a fresh array that has data to lose
        bs = sh.live('B')
        if not bs:
            return False
        b = rnd.choice(bs)
        ft = rnd.choice(['Double', 'Int32', 'UInt8', 'Float', 'Int64', 'String', 'String', 'Bool'])
        rank = 1 if c == 'sdata' else rnd.choice([1, 1, 2])
        dims = [rnd.choice([1, 2, 3]) for _ in range(rank)]
        a = sh.mk(b, 'A', sh.pick_new_name(b, 'A', 0.0), 't', '%s %d %s' % (ft, rank, ' '.join(map(str, dims))))
        numeric = ['Double', 'Int32'] if c == 'adata' else ['Double', 'Float', 'Int32', 'Int64', 'UInt8']
        good = ['String'] if ft == 'String' else (['Bool'] if ft == 'Bool' else numeric + (['Bool'] if c == 'adata' else []))
        bad = numeric if ft in ('String', 'Bool') else ['String']
        if ft == 'Bool':
            bad = bad + ['String']
        if ft == 'String' and c == 'adata':
            bad = bad + ['Bool']
        if c == 'sdata':
            if ft != 'Bool' and rnd.random() < 0.4:
                sh.emit('sdata %d %s %d' % (a, rnd.choice(good), rnd.choice([1, 4, 5])))          # accepted: resizes
            sh.emit('sdata %d %s %d' % (a, rnd.choice(bad), rnd.choice([1, 4, 5, 7])), 'setdata-element-type')
        else:
            axis = rnd.randrange(rank)
            cnt = list(dims)
            cnt[axis] = rnd.choice([1, 2, 3])
            if rnd.random() < 0.4:
                sh.emit('adata %d %s %d %d %s' % (a, rnd.choice(good), axis, rank, ' '.join(map(str, cnt))))   # accepted: grows
                dims[axis] += cnt[axis]
            q = rnd.random()
            if q < 0.7:
                sh.emit('adata %d %s %d %d %s' % (a, rnd.choice(bad), axis, rank, ' '.join(map(str, cnt))), 'append-element-type')
            elif q < 0.8:
                sh.emit('adata %d %s %d %d %s' % (a, rnd.choice(good), rank + rnd.choice([0, 1]), rank, ' '.join(map(str, cnt))), 'append-axis')
            elif q < 0.9:
                sh.emit('adata %d %s %d %d %s' % (a, rnd.choice(good), axis, rank + 1, ' '.join(map(str, cnt + [1]))), 'append-rank')
            elif rank > 1:
                other = (axis + 1) % rank
                cnt[other] += 1
                sh.emit('adata %d %s %d %d %s' % (a, rnd.choice(good + bad), axis, rank, ' '.join(map(str, cnt))), 'append-shape')
        return True
    if c == 'frame':
        bs = sh.live('B')
        if not bs:
            return False
        b = rnd.choice(bs)
        q = rnd.choice(['empty-cols', 'col-type', 'col-nothing', 'dup-col', 'col-noname', 'col-noname'])
        extra = {'empty-cols': '0',
                 'col-noname': rnd.choice(['1 s: Double s:', '2 %s Int32 s: s: Double s:6d56' % hx('c0'), '3 %s Int32 s: %s String s: s: Double s:' % (hx('c0'), hx('c1')),
                                           '2 s: Int32 s: %s Double s:' % hx('c1')]),
                 'col-type': '2 %s Int32 s: %s %s s:' % (hx('c0'), hx('c1'), rnd.choice(['Int8', 'Float', 'Char', 'UInt16'])),
                 'col-nothing': '2 %s Int32 s: %s Nothing s:' % (hx('c0'), hx('c1')),
                 'dup-col': '2 %s Int32 s: %s Double s:' % (hx('c0'), hx('c0'))}[q]
        sh.mk(b, 'D', sh.pick_new_name(b, 'D', 0.1), 't', extra, ok=False, cls='frame-' + q)
        return True
    if c == 'mtag':
        bs = sh.live('B')
        if not bs:
            return False
        b = rnd.choice(bs)
        q = rnd.choice(['none', 'deleted', 'foreign', 'foreign'])
        if q == 'none':
            sh.mk(b, 'M', sh.pick_new_name(b, 'M', 0.1), 't', '-', ok=False, cls='mtag-none-positions')
        elif q == 'deleted':
            ds = sh.dead('A')
            if not ds:
                return False
            sh.mk(b, 'M', sh.pick_new_name(b, 'M', 0.1), 't', str(rnd.choice(ds)), ok=False, cls='mtag-deleted-positions')
        else:
            fs = _foreign(sh, 'A', b)
            if not fs:
                return False
            sh.mk(b, 'M', sh.pick_new_name(b, 'M', 0.1), 't', str(rnd.choice(fs)), ok=False, cls='mtag-foreign-positions')
        return True
    if c == 'prop':
        ss = sh.live('S')
        if not ss:
            return False
        s = rnd.choice(ss)
        q = rnd.choice(['type', 'type', 'mixed', 'novalues'])
        if q == 'type':
            sh.mk(s, 'P', sh.pick_new_name(s, 'P', 0.1), '', 't ' + rnd.choice(['Int8', 'Char', 'Nothing', 'Float', 'UInt16', 'Opaque']), ok=False,
                  cls='prop-unsupported-type')
        elif q == 'mixed':
            sh.mk(s, 'P', sh.pick_new_name(s, 'P', 0.1), '', 'v 3 Int64 Int64 String', ok=False, cls='prop-mixed-values')
        else:
            sh.mk(s, 'P', sh.pick_new_name(s, 'P', 0.1), '', 'v 0', ok=False, cls='prop-no-values')
        return True
    if c == 'feature':
        ts = sh.live('TM')
        if not ts:
            return False
        t = rnd.choice(ts)
        b = sh.block_of(t)
        q = rnd.choice(['none', 'deleted', 'foreign', 'unknown'])
        if q == 'none':
            sh.mk(t, 'X', '', '', 'h - tagged', ok=False, cls='feature-none-data')
        elif q == 'deleted':
            ds = sh.dead('A')
            if not ds:
                return False
            sh.mk(t, 'X', '', '', 'h %d tagged' % rnd.choice(ds), ok=False, cls='feature-deleted-data')
        elif q == 'foreign':
            fs = _foreign(sh, 'A', b)
            if not fs:
                return False
            sh.mk(t, 'X', '', '', 'h %d indexed' % rnd.choice(fs), ok=False, cls='feature-foreign-data')
        else:
            sh.mk(t, 'X', '', '', 's %s untagged' % hx('no such array'), ok=False, cls='feature-unknown-data')
        sh.e[-1]['name'] = None
        return True
    if c in ('ladd', 'ladds', 'lset'):
        ls = sh.lcontainers()
        if not ls:
            return False
        h, sl = rnd.choice(ls)
        b = sh.block_of(h)
        K = SLKIND[sl]
        if c == 'ladd':
            q = rnd.choice(['none', 'deleted', 'foreign', 'duplicate'])
            if q == 'none':
                sh.emit('ladd %d %s -' % (h, sl), 'link-none')
            elif q == 'deleted':
                ds = sh.dead(K)
                if not ds:
                    return False
                sh.emit('ladd %d %s %d' % (h, sl, rnd.choice(ds)), 'link-deleted')
            elif q == 'foreign':
                fs = _foreign(sh, K, b)
                if not fs:
                    return False
                sh.emit('ladd %d %s %d' % (h, sl, rnd.choice(fs)), 'link-foreign')
            else:
                ts = sh.live(K, block=b)
                if not ts:
                    return False
                t = rnd.choice(ts)
                sh.emit('ladd %d %s %d' % (h, sl, t))
                sh.emit('ladd %d %s %d' % (h, sl, t), 'link-duplicate')
            return True
        if c == 'ladds':
            q = rnd.choice(['unknown', 'empty', 'foreign'])
            if q == 'unknown':
                sh.emit('ladds %d %s %s' % (h, sl, hx(rnd.choice(['nosuch', UUID1]))), 'link-unknown-key')
            elif q == 'empty':
                sh.emit('ladds %d %s s:' % (h, sl), 'link-empty-key')
            else:
                fs = _foreign(sh, K, b)
                if not fs:
                    return False
                sh.emit('ladds %d %s i:%d' % (h, sl, rnd.choice(fs)), 'link-foreign')
            return True
        # replace-all with one bad element, after the container got something to lose
        ts = sh.live(K, block=b)
        if not ts:
            return False
        sh.emit('ladd %d %s %d' % (h, sl, rnd.choice(ts)))
        good = rnd.sample(ts, min(len(ts), rnd.randint(0, 2)))
        q = rnd.choice(['none', 'foreign', 'duplicate', 'deleted'])
        if q == 'none':
            items = good + ['-']
        elif q == 'foreign':
            fs = _foreign(sh, K, b)
            if not fs or sl == 'src':
                return True
            items = good + [rnd.choice(fs)]
        elif q == 'deleted':
            ds = sh.dead(K)
            if not ds or sl == 'src':
                return True
            items = good + [rnd.choice(ds)]
        else:
            if not good:
                good = [ts[0]]
            items = good + [good[0]]
        sh.emit('lset %d %s %d %s' % (h, sl, len(items), ' '.join(map(str, items))), 'replace-all-' + q)
        return True
    if c in ('meta', 'link'):
        hs = sh.live('BRADTMG' if c == 'meta' else 'S')
        ss = sh.live('S')
        if not hs or not ss:
            return False
        h = rnd.choice(hs)
        cmd = 'setmeta' if c == 'meta' else 'setlink'
        # give it a link to lose first
        sh.emit('%s %d %d' % (cmd, h, rnd.choice(ss)))
        q = rnd.choice(['unknown-id', 'unknown-id', 'empty', 'deleted', 'name-not-id'])
        if q == 'unknown-id':
            sh.emit('%ss %d %s' % (cmd, h, hx(UUID1)), c + '-unknown-id')
        elif q == 'empty':
            sh.emit('%ss %d s:' % (cmd, h), c + '-empty-id')
        elif q == 'name-not-id':
            sh.emit('%ss %d n:%d' % (cmd, h, rnd.choice(ss)), c + '-name-for-id')
        else:
            ds = sh.dead('S')
            if not ds:
                return False
            sh.emit('%s %d %d' % (cmd, h, rnd.choice(ds)), c + '-deleted-section')
        return True
    if c in ('pos', 'ext'):
        ms = sh.live('M')
        if not ms:
            return False
        m = rnd.choice(ms)
        b = sh.block_of(m)
        cmd = 'setpos' if c == 'pos' else 'setext'
        q = rnd.choice(['none', 'deleted', 'foreign', 'unknown', 'empty'] + (['shape', 'shape', 'shape'] if c == 'ext' else []))
        if q == 'none':
            if c == 'ext':
                return False        # extents(none) is a legal unset
            sh.emit('%s %d -' % (cmd, m), c + '-none')
        elif q == 'deleted':
            ds = sh.dead('A')
            if not ds:
                return False
            sh.emit('%s %d %d' % (cmd, m, rnd.choice(ds)), c + '-deleted')
        elif q == 'foreign':
            fs = _foreign(sh, 'A', b)
            if not fs:
                return False
            sh.emit('%s %d %d' % (cmd, m, rnd.choice(fs)), c + '-foreign')
        elif q == 'unknown':
            sh.emit('%ss %d %s' % (cmd, m, hx('nosuch')), c + '-unknown')
        elif q == 'empty':
            sh.emit('%ss %d s:' % (cmd, m), c + '-empty')
        else:
            # positions and a fitting extents array first, then one of another shape
            p1 = sh.mk(b, 'A', sh.pick_new_name(b, 'A', 0.0), 't', 'Double 2 3 2')
            e1 = sh.mk(b, 'A', sh.pick_new_name(b, 'A', 0.0), 't', 'Double 2 3 2')
            e2 = sh.mk(b, 'A', sh.pick_new_name(b, 'A', 0.0), 't', rnd.choice(['Double 2 3 3', 'Double 1 3', 'Double 2 2 3']))
            sh.emit('setpos %d %d' % (m, p1))
            sh.emit('setext %d %d' % (m, e1))
            sh.emit(('setext %d %d' % (m, e2)) if rnd.random() < 0.5 else ('setexts %d %s:%d' % (m, rnd.choice('ni'), e2)), 'ext-shape-mismatch')
        return True
    if c == 'data':
        xs = sh.live('X')
        if not xs:
            return False
        x = rnd.choice(xs)
        b = sh.block_of(x)
        q = rnd.choice(['none', 'deleted', 'foreign', 'unknown', 'empty'])
        if q == 'none':
            sh.emit('setdata %d -' % x, 'data-none')
        elif q == 'deleted':
            ds = sh.dead('A')
            if not ds:
                return False
            sh.emit('setdata %d %d' % (x, rnd.choice(ds)), 'data-deleted')
        elif q == 'foreign':
            fs = _foreign(sh, 'A', b)
            if not fs:
                return False
            sh.emit('setdata %d %d' % (x, rnd.choice(fs)), 'data-foreign')
        elif q == 'unknown':
            sh.emit('setdatas %d %s' % (x, hx('nosuch')), 'data-unknown')
        else:
            sh.emit('setdatas %d s:' % x, 'data-empty')
        return True
    if c == 'type':
        ks = sh.live('BSRADTMG')
        if not ks:
            return False
        sh.emit('settype %d s:' % rnd.choice(ks), 'empty-type')
        return True
    if c == 'def':
        ks = sh.live('BSRADTMGP')
        if not ks:
            return False
        k = rnd.choice(ks)
        sh.emit('setdef %d %s' % (k, hx('a definition')))
        sh.emit('setdef %d s:' % k, 'empty-definition')
        return True
    if c == 'units':
        ks = sh.live('TM')
        if not ks:
            return False
        k = rnd.choice(ks)
        sh.emit('setunits %d 2 %s %s' % (k, hx('mV'), hx('s')))
        sh.emit('setunits %d 2 %s %s' % (k, hx('ms'), hx(rnd.choice(['notaunit', 'foo', 'V V']))), 'non-si-unit')
        return True
    if c == 'extent':
        ks = sh.live('A')
        if not ks:
            return False
        sh.emit('setextent %d %s' % (rnd.choice(ks), rnd.choice(['0', '4 1 1 1 1', '5 1 2 3 4 5'])), 'extent-rank')
        return True
    if c == 'values':
        ps = sh.live('P')
        if not ps:
            ss = sh.live('S')
            if not ss:
                return False
            sh.mk(ss[0], 'P', sh.pick_new_name(ss[0], 'P', 0.0), '', 'v 2 Int64 Int64')
            ps = sh.live('P')
        p = rnd.choice(ps)
        if rnd.random() < 0.6:
            sh.emit('setvals %d 3 Int64 Int64 String' % p if rnd.random() < 0.5 else 'setvals %d 5 Double Double Int32 Double Double' % p,
                    'values-mixed')
            # the same with a first value of each type, so that one of them matches the property's type
            for t in rnd.sample(VTYPES, 3):
                other = 'String' if t != 'String' else 'Int64'
                sh.emit('setvals %d 3 %s %s %s' % (p, t, t, other), 'values-mixed')
        else:
            for t in rnd.sample(VTYPES, 2):
                sh.emit('setvals %d 1 %s' % (p, t), 'values-wrong-type')
        return True
    if c == 'index':
        p, K = rnd.choice(sh.containers())
        n = len(sh.live(K, p=p))
        sh.emit('geti %s %s %d' % (sh.ptok(p), K, n + rnd.choice([0, 0, 1, 7])), 'index-past-end')
        return True
    if c == 'lindex':
        ls = sh.lcontainers()
        if not ls:
            return False
        h, sl = rnd.choice(ls)
        sh.emit('lgeti %d %s %d' % (h, sl, rnd.choice([3, 9, 50])), 'index-past-end')
        return True
    return False


def valid_mutation(sh):
    """one well-formed state change, to move the file to another reachable state"""
    rnd = sh.rnd
    r = rnd.random()
    if r < 0.08:
        # other routes to the same effect: explicit compression, the none_t unsetters, Feature::linkType
        q = rnd.random()
        bs = sh.live('B')
        if q < 0.3 and bs:
            b = rnd.choice(bs)
            if rnd.random() < 0.5:
                sh.mk(b, 'A', sh.pick_new_name(b, 'A', 0.1), 't', 'Double 2 2 3 z')
            else:
                sh.mk(b, 'D', sh.pick_new_name(b, 'D', 0.1), 't', '2 %s Int32 s: %s Double s: z' % (hx('c0'), hx('c1')))
        elif q < 0.6:
            ks = sh.live('X')
            if ks:
                sh.emit('setlt %d %s' % (rnd.choice(ks), rnd.choice(LT)))
        else:
            unlink_step(sh)
        return
    if r < 0.4:
        sh.create(rnd.choice('BSPADTMGRX'), chk=False)
    elif r < 0.6:
        cs = [(p, K) for (p, K) in sh.containers() if sh.live(K, p=p)]
        if cs:
            p, K = rnd.choice(cs)
            k = rnd.choice(sh.live(K, p=p))
            if rnd.random() < 0.5:
                sh.emit('del %s %s %s' % (sh.ptok(p), K, sh.key_for(k)))
            else:
                sh.emit('delh %s %s %d' % (sh.ptok(p), K, k))
            sh.kill(k)
    elif r < 0.95:
        sh.valid_link_step(chk=False)
    else:
        sh.emit('reopen')
        for d in sh.e:
            if not d['alive']:
                d['ok'] = False


def gen_c08_case(rnd, steps):
    sh = Shadow(rnd)
    sh.populate(size=rnd.choice([0.7, 1.0, 1.5]))
    # make sure that there is a second block, something deleted, and something foreign
    if len(sh.live('B')) < 2:
        b = sh.create('B', chk=False)
        sh.create('A', b, chk=False)
        sh.create('R', b, chk=False)
    for b in sh.live('B'):
        a = sh.create('A', b, chk=False)
        if a is not None and rnd.random() < 0.7:
            sh.emit('delh %d A %d' % (b, a))
            sh.kill(a)
    if rnd.random() < 0.6:
        s = sh.create('S', -1, chk=False)
        if s is not None:
            sh.emit('delh F S %d' % s)
            sh.kill(s)
    done = 0
    tries = 0
    while done < steps and tries < steps * 6:
        tries += 1
        if rnd.random() < 0.3:
            valid_mutation(sh)
        elif malformed_step(sh):
            done += 1
    return Case(sh.lines, 'c08-malformed', {'cls': sh.cls})


# ------------------------------------------------------------------------------------------------
# C04 / C02: rich graphs (every kind, nesting depth <= 4, one target linked from many holders of different kinds)
# ------------------------------------------------------------------------------------------------
def build_graph(sh, size=1.0, reopen_at=None):
    """populate `sh` with a dense link graph; returns nothing (the shadow knows what exists).
    reopen_at: emit `reopen` after that many link steps (links made before and after a reopen)"""
    rnd = sh.rnd
    steps = [0]

    def link(line):
        sh.emit(line)
        steps[0] += 1
        if reopen_at is not None and steps[0] == reopen_at:
            sh.emit('reopen')

    nb = 1 if size < 1.0 else rnd.choice([1, 2])
    secs = []
    # the section tree first (metadata targets): roots, a chain of depth up to 4, properties
    for r in range(rnd.choice([1, 2])):
        s = sh.create('S', -1, chk=False)
        secs.append(s)
        cur = s
        for depth in range(rnd.randint(1, 3)):
            c = sh.create('S', cur, chk=False)
            secs.append(c)
            if rnd.random() < 0.6:
                sh.create('P', c, chk=False)
            if rnd.random() < 0.4:
                secs.append(sh.create('S', cur, chk=False))      # a sibling
            cur = c
        sh.create('P', s, chk=False)
    secs = [s for s in secs if s is not None]
    for b_i in range(nb):
        b = sh.create('B', chk=False)
        arrs = []
        for i in range(max(3, int(4 * size))):
            k = sh.mk(b, 'A', sh.pick_new_name(b, 'A', 0.15), rnd.choice(TYPES), '%s 1 3' % rnd.choice(['Double', 'Int32', 'Double', 'Float']))
            arrs.append(k)
        frames = [sh.create('D', b, chk=False) for _ in range(rnd.choice([1, 2]))]
        tags = [sh.create('T', b, chk=False) for _ in range(2)]
        mtags = []
        for _ in range(rnd.choice([1, 2])):
            mtags.append(sh.mk(b, 'M', sh.pick_new_name(b, 'M', 0.1), 't', str(rnd.choice(arrs))))
        groups = [sh.create('G', b, chk=False) for _ in range(rnd.choice([1, 2]))]
        # sources: a chain of depth up to 4 with siblings
        srcs = []
        for r in range(rnd.choice([1, 2])):
            cur = sh.create('R', b, chk=False)
            srcs.append(cur)
            for depth in range(rnd.randint(1, 3)):
                c = sh.create('R', cur, chk=False)
                srcs.append(c)
                if rnd.random() < 0.4:
                    srcs.append(sh.create('R', cur, chk=False))
                cur = c
        srcs = [s for s in srcs if s is not None]
        # hubs: one array, one frame, one source, one section linked from every kind of holder
        hub_a = rnd.choice(arrs)
        for t in tags + mtags:
            link('ladd %d ref %d' % (t, hub_a) if rnd.random() < 0.6 else 'ladds %d ref %s:%d' % (t, rnd.choice('ni'), hub_a))
        for t in tags + mtags:
            if rnd.random() < 0.7:
                x = sh.mk(t, 'X', '', '', 'h %d %s' % (hub_a, rnd.choice(LT)))
                sh.e[x]['name'] = None
        for m in mtags:
            if rnd.random() < 0.7:
                link('setext %d %d' % (m, hub_a))
            if rnd.random() < 0.4:
                link('setpos %d %d' % (m, hub_a))
        for g in groups:
            link('ladd %d ga %d' % (g, hub_a))
        hub_d = rnd.choice(frames)
        for g in groups:
            link('ladd %d gd %d' % (g, hub_d))
        dim_arrs = rnd.sample(arrs, min(len(arrs), 2))
        for a in dim_arrs:
            link('dim %d frame %d' % (a, hub_d))
            if rnd.random() < 0.5:
                link('dim %d %s' % (a, rnd.choice(['set', 'sampled', 'range'])))
            if rnd.random() < 0.4:
                link('dim %d frame %d' % (a, hub_d))          # two descriptors, one frame
        for a in arrs:
            if a not in dim_arrs and rnd.random() < 0.5:
                link('dim %d alias' % a)
        hub_r = rnd.choice(srcs)
        for h in [rnd.choice(arrs), rnd.choice(frames), rnd.choice(tags), rnd.choice(mtags), rnd.choice(groups)]:
            link('ladd %d src %d' % (h, hub_r) if rnd.random() < 0.6 else 'ladds %d src i:%d' % (h, hub_r))
        hub_s = rnd.choice(secs)
        for h in [b, rnd.choice(srcs), rnd.choice(arrs), rnd.choice(frames), rnd.choice(tags), rnd.choice(mtags), rnd.choice(groups)]:
            link('setmeta %d %d' % (h, hub_s) if rnd.random() < 0.6 else 'setmetas %d i:%d' % (h, hub_s))
        for g in groups:
            for t in tags:
                if rnd.random() < 0.5:
                    link('ladd %d gt %d' % (g, t))
            for m in mtags:
                if rnd.random() < 0.5:
                    link('ladd %d gm %d' % (g, m))
        for s in secs:
            if s != hub_s and rnd.random() < 0.5:
                link('setlink %d %d' % (s, hub_s))
        if rnd.random() < 0.4:
            link('setlink %d %d' % (hub_s, hub_s))                  # a section linked to itself
        # more links at random
        for _ in range(int(6 * size)):
            n0 = len(sh.lines)
            sh.valid_link_step(chk=False)
            if len(sh.lines) > n0:
                steps[0] += 1
                if reopen_at is not None and steps[0] == reopen_at:
                    sh.emit('reopen')


def delete_lines(sh, k, how):
    """the delete call for ordinal k: how in name / id / handle"""
    d = sh.e[k]
    p = sh.ptok(d['p'])
    nm = d['name']
    if how == 'name' and (d['K'] == 'X' or not nm or '/' in nm):
        how = 'id'
    if how == 'name':
        return 'del %s %s n:%d' % (p, d['K'], k)
    if how == 'id':
        return 'del %s %s i:%d' % (p, d['K'], k)
    return 'delh %s %s %d' % (p, d['K'], k)


def after_delete_queries(sh, k, n=3):
    """a few reads around the deleted entity: its container, some holders, has by id / stale handle"""
    rnd = sh.rnd
    d = sh.e[k]
    out = ['chk %s %s' % (sh.ptok(d['p']), d['K']), 'has %s %s i:%d' % (sh.ptok(d['p']), d['K'], k)]
    ls = sh.lcontainers()
    for h, sl in rnd.sample(ls, min(n, len(ls))):
        out.append('lchk %d %s' % (h, sl))
    for x in sh.live('TM')[:2]:
        out.append('chk %d X' % x)
    return out


def gen_c04_cases(rnd, ngraphs, per_graph, every=False):
    """per graph: the prefix that builds it, then one case per chosen (entity, way of naming it)"""
    cases = []
    for g in range(ngraphs):
        seed = rnd.randrange(1 << 30)
        proto = Shadow(random.Random(seed))
        build_graph(proto, size=rnd.choice([0.7, 1.0, 1.3]), reopen_at=rnd.choice([None, 3, 8, 15]))
        if rnd.random() < 0.5:
            proto.emit('reopen')
        live = proto.live('BSPADTMGRX')
        if every:
            choices = [(k, how) for k in live for how in ('name', 'id', 'handle')]
        else:
            # a sample that covers the kinds
            bykind = {}
            for k in live:
                bykind.setdefault(proto.e[k]['K'], []).append(k)
            choices = []
            kinds = sorted(bykind)
            rnd.shuffle(kinds)
            for K in kinds[:per_graph]:
                choices.append((rnd.choice(bykind[K]), rnd.choice(['name', 'id', 'handle'])))
        for k, how in choices:
            import copy
            sh = copy.deepcopy(proto)
            sh.rnd = random.Random(seed ^ (k * 7919))
            sh.emit(delete_lines(sh, k, how))
            sh.kill(k)
            for l in after_delete_queries(sh, k):
                sh.emit(l)
            if sh.rnd.random() < 0.5:
                sh.emit('reopen')
                sh.emit('observe')
            cases.append(Case(sh.lines, 'c04-one-%s-%s' % (proto.e[k]['K'], how), {'cls': sh.cls}))
    return cases


def gen_c04_sequence(rnd, steps):
    """a graph, then a sequence of deletes of every kind interleaved with new links, re-creations and reopens"""
    sh = Shadow(rnd)
    build_graph(sh, size=rnd.choice([0.7, 1.0]), reopen_at=rnd.choice([None, 5, 12]))
    # some links are taken back through the none_t overloads before anything is deleted
    for cmd, kinds in (('setmeta', 'BRADTMG'), ('setlink', 'S'), ('setext', 'M')):
        ks = sh.live(kinds)
        if ks and rnd.random() < 0.5:
            sh.emit('%s %d none' % (cmd, rnd.choice(ks)))
    for _ in range(steps):
        r = rnd.random()
        live = sh.live('BSPADTMGRX')
        if not live:
            break
        if r < 0.6:
            # prefer holders and hubs early: weight by kind
            k = rnd.choice(live)
            sh.emit(delete_lines(sh, k, rnd.choice(['name', 'id', 'handle'])))
            sh.kill(k)
            if rnd.random() < 0.4:
                for l in after_delete_queries(sh, k, 2):
                    sh.emit(l)
        elif r < 0.75:
            sh.valid_link_step(chk=False)
        elif r < 0.8:
            unlink_step(sh)                      # includes the none_t overloads of metadata / link / extents
        elif r < 0.9:
            sh.create(rnd.choice('ADTMGRSX'), chk=False)
        else:
            sh.emit('reopen')
            for d in sh.e:
                if not d['alive']:
                    d['ok'] = False
    sh.emit('observe')
    return Case(sh.lines, 'c04-sequence', {'cls': sh.cls})


# ------------------------------------------------------------------------------------------------
# C02: histories of create / modify / link / unlink / delete over all kinds, with flush and the reopen kinds
# ------------------------------------------------------------------------------------------------
SI_UNITS = ['mV', 's', 'Hz', 'ms', 'kg', 'A']
DVALS = ['d:3ff0000000000000', 'd:4000000000000000', 'd:bff8000000000000', 'd:3fb999999999999a', 'd:0000000000000000', 'd:40c3880000000000']


def modify_step(sh, st):
    """one well-formed change of an attribute, of data or of a descriptor (st: side table of the generator:
    rows of frames, descriptor count of arrays, value type of properties)"""
    rnd = sh.rnd
    c = rnd.choice(['type', 'def', 'def', 'label', 'unit', 'origin', 'poly', 'wdata', 'wdata', 'dim', 'dim', 'dimset', 'deldims',
                    'frows', 'wrow', 'wrow', 'punit', 'puncert', 'pvals', 'repo', 'tpos', 'text', 'units', 'created', 'created', 'extent',
                    'setlt', 'setlt', 'touchupd', 'touchupd', 'posq', 'colq', 'sdata', 'adata'])
    if c == 'setlt':
        ks = sh.live('X')
        if ks:
            sh.emit('setlt %d %s' % (rnd.choice(ks), rnd.choice(LT)))
        return
    if c == 'touchupd':
        ks = sh.live('BSRADTMGPX')
        if ks:
            sh.emit('touchupd %d %s' % (rnd.choice(ks), rnd.choice(['set', 'force'])))
        return
    if c == 'posq':
        ks = sh.live('M')
        if ks:
            sh.emit('posq %d' % rnd.choice(ks))
        return
    if c == 'colq':
        colq_line(sh)
        return
    if c in ('sdata', 'adata'):
        # accepted whole-array writes / appends through the templates (numeric data into a fresh numeric array)
        bs = sh.live('B')
        if bs:
            b = rnd.choice(bs)
            a = sh.mk(b, 'A', sh.pick_new_name(b, 'A', 0.0), 't', '%s 1 2' % rnd.choice(['Double', 'Int32', 'Float']))
            sh.emit('sdata %d %s %d' % (a, rnd.choice(['Double', 'Int32', 'UInt8']), rnd.choice([1, 3, 6])) if c == 'sdata'
                    else 'adata %d %s 0 1 %d' % (a, rnd.choice(['Double', 'Int32', 'Bool']), rnd.choice([1, 2, 4])))
        return
    if c == 'type':
        ks = sh.live('BSRADTMG')
        if ks:
            sh.emit('settype %d %s' % (rnd.choice(ks), hx(rnd.choice(['t2', 'nix.other', 'x y']))))
    elif c == 'def':
        ks = sh.live('BSRADTMGP')
        if ks:
            sh.emit(rnd.choice(['setdef %d %s' % (rnd.choice(ks), hx(rnd.choice(['a definition', 'déf', 'x']))), 'setdef %d -' % rnd.choice(ks)]))
    elif c in ('label', 'unit', 'origin', 'poly', 'wdata', 'dim', 'dimset', 'deldims', 'extent'):
        ks = sh.live('A')
        if not ks:
            return
        a = rnd.choice(ks)
        if c == 'label':
            sh.emit('setlabel %d %s' % (a, hx(rnd.choice(['voltage', 'l', 'zeit']))) if rnd.random() < 0.8 else 'setlabel %d -' % a)
        elif c == 'unit':
            sh.emit('setunit %d %s' % (a, hx(rnd.choice(SI_UNITS))) if rnd.random() < 0.8 else 'setunit %d -' % a)
        elif c == 'origin':
            sh.emit('setorigin %d %s' % (a, rnd.choice(DVALS)) if rnd.random() < 0.8 else 'setorigin %d -' % a)
        elif c == 'poly':
            n = rnd.choice([1, 2, 3])
            sh.emit('setpoly %d %d %s' % (a, n, ' '.join(rnd.choice(DVALS) for _ in range(n))))
        elif c == 'wdata':
            sh.emit('wdata %d %d' % (a, rnd.randrange(1000)))
        elif c == 'dim':
            q = rnd.random()
            if q < 0.2:
                sh.emit('dim %d alias' % a)
            elif q < 0.4:
                fs = sh.live('D', block=sh.block_of(a))
                if fs:
                    sh.emit('dim %d frame %d' % (a, rnd.choice(fs)))
            else:
                sh.emit('dim %d %s' % (a, rnd.choice(['set', 'range', 'sampled'])))
            st['dims'][a] = st['dims'].get(a, 0) + 1          # a guess: an invalid append changes nothing and dimset is tolerant
        elif c == 'dimset':
            sh.emit('dimset %d %d %d' % (a, rnd.choice([1, 1, 2, 3]), rnd.randrange(1000)))
        elif c == 'deldims':
            if rnd.random() < 0.3:
                sh.emit('deldims %d' % a)
                st['dims'][a] = 0
        else:
            pass
    elif c in ('frows', 'wrow'):
        ks = sh.live('D')
        if not ks:
            return
        d = rnd.choice(ks)
        if c == 'frows' or st['rows'].get(d, 0) == 0:
            n = rnd.choice([1, 2, 3, 5])
            sh.emit('frows %d %d' % (d, n))
            st['rows'][d] = n
        else:
            sh.emit('wrow %d %d %d' % (d, rnd.randrange(st['rows'][d]), rnd.randrange(1000)))
    elif c in ('punit', 'puncert', 'pvals'):
        ks = sh.live('P')
        if not ks:
            return
        p = rnd.choice(ks)
        if c == 'punit':
            sh.emit('punit %d %s' % (p, hx(rnd.choice(SI_UNITS + ['spikes']))) if rnd.random() < 0.8 else 'punit %d -' % p)
        elif c == 'puncert':
            sh.emit('puncert %d %s' % (p, rnd.choice(DVALS)) if rnd.random() < 0.8 else 'puncert %d -' % p)
        else:
            ty = st['ptype'].get(p)
            if ty:
                n = rnd.choice([0, 1, 2, 4])
                sh.emit(('setvals %d %d %s' % (p, n, ' '.join([ty] * n))).strip())
    elif c == 'repo':
        ks = sh.live('S')
        if ks:
            sh.emit('setrepo %d %s' % (rnd.choice(ks), hx('http://example.org/terms')) if rnd.random() < 0.8 else 'setrepo %d -' % rnd.choice(ks))
    elif c in ('tpos', 'text'):
        ks = sh.live('T')
        if ks:
            n = rnd.choice([1, 2, 3])
            vals = ' '.join(rnd.choice(DVALS) for _ in range(n))
            if c == 'tpos':
                sh.emit('settpos %d %d %s' % (rnd.choice(ks), n, vals))
            else:
                sh.emit('settext %d %d %s' % (rnd.choice(ks), n, vals) if rnd.random() < 0.8 else 'settext %d -' % rnd.choice(ks))
    elif c == 'units':
        ks = sh.live('TM')
        if ks:
            n = rnd.choice([1, 2])
            sh.emit('setunits %d %d %s' % (rnd.choice(ks), n, ' '.join(hx(rnd.choice(SI_UNITS)) for _ in range(n))) if rnd.random() < 0.8
                    else 'setunits %d -' % rnd.choice(ks))
    elif c == 'created':
        ks = sh.live('BSRADTMGPX')
        if rnd.random() < 0.25:
            sh.emit('forcecreated F %d' % (1000000000 + rnd.randrange(400000000)))
        elif ks:
            sh.emit('forcecreated %d %d' % (rnd.choice(ks), 1000000000 + rnd.randrange(400000000)))


def colq_line(sh):
    """DataFrame::colIndex(names) / colName(indices): the frame's own columns in some order, sometimes an unknown one"""
    rnd = sh.rnd
    ks = sh.live('D')
    if not ks:
        return
    d = rnd.choice(ks)
    ex = (sh.e[d].get('extra') or '').split(' ')
    try:
        n = int(ex[0])
    except ValueError:
        return
    names = [ex[1 + 3 * i] for i in range(n) if 1 + 3 * i < len(ex)]
    pick = [rnd.choice(names) for _ in range(rnd.randint(0, 3))] if names else []
    if rnd.random() < 0.15:
        pick.append(hx('nosuchcolumn'))
    idx = [rnd.randrange(n) for _ in range(rnd.randint(0, 3))] if n else []
    if rnd.random() < 0.15:
        idx.append(n + rnd.choice([0, 1, 5]))
    sh.emit(('colq %d %d %s %d %s' % (d, len(pick), ' '.join(pick), len(idx), ' '.join(map(str, idx)))).replace('  ', ' ').strip())


def unlink_step(sh):
    rnd = sh.rnd
    what = rnd.choice(['lrm', 'lrm', 'lset', 'meta', 'link', 'ext', 'meta-none', 'link-none', 'ext-none'])
    if what.endswith('-none'):
        # the none_t overloads
        ks = sh.live({'meta-none': 'BRADTMG', 'link-none': 'S', 'ext-none': 'M'}[what])
        if ks:
            sh.emit('%s %d none' % ({'meta-none': 'setmeta', 'link-none': 'setlink', 'ext-none': 'setext'}[what], rnd.choice(ks)))
        return
    if what in ('lrm', 'lset'):
        ls = sh.lcontainers()
        if not ls:
            return
        h, sl = rnd.choice(ls)
        ts = sh.live(SLKIND[sl], block=sh.block_of(h))
        if not ts:
            return
        if what == 'lrm':
            t = rnd.choice(ts)
            sh.emit('lrm %d %s %d' % (h, sl, t) if rnd.random() < 0.5 else 'lrms %d %s i:%d' % (h, sl, t))
        else:
            n = rnd.randint(0, min(3, len(ts)))
            sh.emit(('lset %d %s %d %s' % (h, sl, n, ' '.join(map(str, rnd.sample(ts, n))))).strip())
    elif what == 'meta':
        ks = sh.live('BRADTMG')
        if ks:
            sh.emit('setmeta %d -' % rnd.choice(ks))
    elif what == 'link':
        ks = sh.live('S')
        if ks:
            sh.emit('setlink %d -' % rnd.choice(ks))
    else:
        ks = sh.live('M')
        if ks:
            sh.emit('setext %d -' % rnd.choice(ks))


REOPENS = ['reopen rw', 'reopen ro', 'reopen other', 'reopen otherw', 'reopen def']


def ro_prepare(sh):
    """in the read-write session: an array with expansion origin, label, unit and a sampled descriptor (interval, offset,
    label, unit all written), and a property with uncertainty and unit — attributes that EXIST, so that the refused
    setters of the read-only session are overwrites; returns (array, property) ordinals or None"""
    rnd = sh.rnd
    bs = sh.live('B')
    ss = sh.live('S')
    a = p = None
    if bs:
        b = rnd.choice(bs)
        a = sh.mk(b, 'A', sh.pick_new_name(b, 'A', 0.1), 't', rnd.choice(['Double 1 4', 'Int32 2 2 3', 'Float 1 2']))
        sh.emit('dim %d sampled' % a)
        sh.emit('dimset %d 1 %d' % (a, rnd.randrange(1000)))
        sh.emit('setorigin %d %s' % (a, rnd.choice(DVALS)))
        sh.emit('setlabel %d %s' % (a, hx('volt')))
        sh.emit('setunit %d %s' % (a, hx('mV')))
        sh.emit('setdef %d %s' % (a, hx('an array')))
    if ss:
        s = rnd.choice(ss)
        p = sh.mk(s, 'P', sh.pick_new_name(s, 'P', 0.1), '', 'v 2 Double Double')
        sh.emit('puncert %d %s' % (p, rnd.choice(DVALS)))
        sh.emit('punit %d %s' % (p, hx('mV')))
        sh.emit('setdef %d %s' % (p, hx('a property')))
    return a, p


def ro_refused(sh, a, p):
    """modifications in the read-only session: every one is refused (the model answers ERR, no trace); the numeric
    overwrites come first and in random order (HDF5 replaces its cached attribute before the write fails)"""
    rnd = sh.rnd
    calls = []
    if a is not None:
        calls += ['setorigin %d %s' % (a, 'd:4022000000000000'),
                  'dimset %d 1 %d' % (a, 2 * rnd.randrange(500) * 32 + rnd.randrange(32)),            # interval first
                  'dimset %d 1 %d' % (a, (2 * rnd.randrange(500) + 1) * 32 + rnd.randrange(32)),      # offset first
                  'setlabel %d %s' % (a, hx('other')), 'setunit %d %s' % (a, hx('s')), 'setdef %d %s' % (a, hx('changed')),
                  'settype %d %s' % (a, hx('t9')), 'forcecreated %d 1111111111' % a, 'setorigin %d -' % a, 'setlabel %d -' % a]
    if p is not None:
        calls += ['puncert %d %s' % (p, 'd:4022000000000000'), 'punit %d %s' % (p, hx('s')), 'setdef %d %s' % (p, hx('changed')),
                  'puncert %d -' % p]
    ks = sh.live('BSRADTMG')
    for _ in range(2):
        if ks:
            k = rnd.choice(ks)
            calls.append(rnd.choice(['settype %d %s' % (k, hx('t8')), 'setdef %d %s' % (k, hx('never')), 'setdef %d -' % k]))
    ss = sh.live('S')
    if ss:
        calls.append('setrepo %d %s' % (rnd.choice(ss), hx('http://refused')))
    calls.append('forcecreated F 1222222222')
    rnd.shuffle(calls)
    for c in calls[:rnd.randint(min(3, len(calls)), len(calls))]:
        sh.emit(c, 'read-only')


def ro_phase(sh, refused=True):
    """a read-only session: refused modifications and queries, then back to read-write through every kind of reopen"""
    rnd = sh.rnd
    a = p = None
    if refused:
        a, p = ro_prepare(sh)
    sh.emit('reopen ro')
    if refused:
        ro_refused(sh, a, p)
    for _ in range(rnd.randint(0, 3)):
        if rnd.random() < 0.5:
            pp, K = rnd.choice(sh.containers())
            sh.emit('chk %s %s' % (sh.ptok(pp), K))
        else:
            ls = sh.lcontainers()
            if ls:
                h, sl = rnd.choice(ls)
                sh.emit('lchk %d %s' % (h, sl))
    q = rnd.random()
    if q < 0.35:
        sh.emit('reopen ro')              # the session after the refused calls against a fresh read-only one
        if refused and rnd.random() < 0.5:
            ro_refused(sh, a, p)
    elif q < 0.6:
        sh.emit('reopen other')           # ... against another process
    sh.emit('reopen rw')
    # the read-write session goes on: the prepared attributes can be written now
    if refused and a is not None and rnd.random() < 0.7:
        sh.emit('setorigin %d %s' % (a, rnd.choice(DVALS)))
        sh.emit('dimset %d 1 %d' % (a, rnd.randrange(1000)))
    if refused and p is not None and rnd.random() < 0.7:
        sh.emit('puncert %d %s' % (p, rnd.choice(DVALS)))


def after_reopen(sh):
    for d in sh.e:
        if not d['alive']:
            d['ok'] = False


def gen_c02_case(rnd, steps, every_k, flavour):
    sh = Shadow(rnd)
    st = {'rows': {}, 'dims': {}, 'ptype': {}}
    build_graph(sh, size=rnd.choice([0.7, 1.0]), reopen_at=None)
    # the value types of the properties created so far (from their mk lines)
    k = 0
    for l in sh.lines:
        t = l.split(' ')
        if t[0] == 'mk':
            if t[2] == 'P' and len(t) > 6:
                st['ptype'][k] = t[6] if t[5] == 't' else (t[7] if len(t) > 7 else None)
            k += 1
    since = 0
    for i in range(steps):
        r = rnd.random()
        n0 = len(sh.lines)
        if r < 0.18:
            K = rnd.choice('BSPADTMGRX')
            k0 = sh.create(K, chk=False)
            if k0 is not None and K == 'P':
                t = sh.lines[-1].split(' ')
                st['ptype'][k0] = t[6] if t[5] == 't' else (t[7] if len(t) > 7 else None)
        elif r < 0.55:
            modify_step(sh, st)
        elif r < 0.72:
            sh.valid_link_step(chk=False)
        elif r < 0.78:
            unlink_step(sh)
        elif r < 0.82:
            kept_handle_step(sh)
        elif r < 0.92:
            live = sh.live('BSPADTMGRX')
            if live:
                k0 = rnd.choice(live)
                sh.emit(delete_lines(sh, k0, rnd.choice(['name', 'id', 'handle'])))
                sh.kill(k0)
        elif r < 0.96:
            sh.emit('flush')
        else:
            sh.emit('observe')
        since += len(sh.lines) - n0
        if every_k and since >= every_k:
            since = 0
            kind = rnd.choice(REOPENS) if flavour == 'mixed' else flavour
            if kind == 'reopen ro':
                ro_phase(sh)
            else:
                sh.emit(kind)
            after_reopen(sh)
    # at the end: all kinds
    if rnd.random() < 0.5:
        sh.emit('flush')
    sh.emit('reopen rw')
    ro_phase(sh)
    sh.emit('reopen other')
    sh.emit('reopen otherw')
    sh.emit('observe')
    return Case(sh.lines, 'c02-' + (flavour.replace('reopen ', '') if every_k else 'end-only'), {'cls': sh.cls})


# ------------------------------------------------------------------------------------------------
# routes: further public entry points to the same requests (notes/route-audit.md)
# ------------------------------------------------------------------------------------------------
ROUTES = {
    'lsf': 'X::ys(filter) with a non-default filter on a child container: File::blocks/sections, Block::dataArrays/dataFrames/tags/'
           'multiTags/groups/sources, Section::sections/properties, Source::sources, Tag/MultiTag::features '
           '(util::NameFilter, a negated NameFilter lambda, IdFilter, TypeFilter, MetadataFilter, SourceFilter)',
    'llsf': 'Tag/MultiTag::references(filter), EntityWithSources::sources(filter), Group::dataArrays/dataFrames/tags/multiTags(filter)',
    'dimsf': 'DataArray::dimensions(filter) against getDimension(1..n)',
    'posq': 'MultiTag::hasPositions, MultiTag::positionCount',
    'colq': 'DataFrame::colIndex(vector<string>), DataFrame::colName(vector<unsigned>)',
    'setlt': 'Feature::linkType(LinkType)',
    'touchupd': 'Entity::setUpdatedAt / forceUpdatedAt / updatedAt on live entities (updated_at is part of the raw dump of C02)',
    'setmeta none': 'EntityWithMetadata::metadata(none_t)', 'setlink none': 'Section::link(none_t)', 'setext none': 'MultiTag::extents(none_t)',
    'mk A from': 'template Block::createDataArray(name, type, data, data_type)',
    'mk A z': 'Block::createDataArray(..., Compression)', 'mk D z': 'Block::createDataFrame(..., Compression)',
    'dim frame col': 'DataArray::appendDataFrameDimension(frame, column_index)',
    'reopen def': 'File::open(path) with every argument defaulted',
    'wrowbad': 'DataFrame::writeRow refused (row past the end, unconvertible value, too many values), judged on the raw dump',
    'sdata': 'template DataSet::setData(value)', 'adata': 'DataArray::appendData(dtype, ptr, count, axis)',
    'hobs': 'every getter of an entity through the handle the driver kept (the one that made the calls), against fresh handles',
    'quiet': 'blind build: no getter is called between create and the first reopen',
    'File.updatedAt/location': 'File::updatedAt, File::location (raw dump of C02 at every reopen)',
}


def route_of(line):
    t = line.split(' ')
    c = t[0]
    if c in ('lsf', 'llsf'):
        return '%s %s %s' % (c, t[2], t[3])
    if c in ('dimsf', 'posq', 'colq', 'setlt', 'touchupd', 'sdata', 'adata', 'hobs'):
        return c
    if c in ('setmeta', 'setlink', 'setext') and len(t) > 2 and t[2] == 'none':
        return c + ' none'
    if c == 'mk' and len(t) > 5 and t[2] == 'A' and t[5] == 'from':
        return 'mk A from'
    if c == 'mk' and t[-1] == 'z' and t[2] in 'AD':
        return 'mk %s z' % t[2]
    if c == 'dim' and len(t) > 4 and t[2] == 'frame':
        return 'dim frame col'
    if c == 'reopen' and len(t) > 1 and t[1] == 'def':
        return 'reopen def'
    if c == 'wrowbad':
        return 'wrowbad ' + t[3]
    if c == 'quiet' and t[1] == 'on':
        return 'quiet'
    return None


def count_routes(cases):
    out = {}
    for cs in cases:
        for l in cs.lines:
            r = route_of(l)
            if r:
                out[r] = out.get(r, 0) + 1
    return dict(sorted(out.items()))


FILTERS_FOR = {'B': ['name', 'notname', 'id', 'type', 'meta'], 'S': ['name', 'notname', 'id', 'type'], 'R': ['name', 'notname', 'id', 'type', 'meta'],
               'P': ['name', 'notname', 'id'], 'X': ['id'], 'A': ['name', 'notname', 'id', 'type', 'meta', 'src'],
               'D': ['name', 'notname', 'id', 'type', 'meta', 'src'], 'T': ['name', 'notname', 'id', 'type', 'meta', 'src'],
               'M': ['name', 'notname', 'id', 'type', 'meta', 'src'], 'G': ['name', 'notname', 'id', 'type', 'meta', 'src']}


def filter_arg(sh, K, fk, members):
    """an argument for filter kind fk on entities of kind K: mostly one that selects a member, sometimes one that selects nothing"""
    rnd = sh.rnd
    if fk in ('meta', 'src'):
        pool = sh.live('S' if fk == 'meta' else 'R')
        dead = sh.dead('S' if fk == 'meta' else 'R')
        r = rnd.random()
        if pool and r < 0.8:
            return str(rnd.choice(pool))
        if dead and r < 0.9:
            return str(rnd.choice(dead))
        return '-'
    if fk == 'type':
        return hx(rnd.choice(TYPES + ['t2', 'nix', 'nix.typ', 'nixXtype', '.*']))
    if members and rnd.random() < 0.75:
        k = rnd.choice(members)
        if fk == 'id':
            return 'i:%d' % k
        nm = sh.e[k]['name']
        return 'n:%d' % k if nm is not None else hx('x')
    if fk == 'id':
        return rnd.choice(['i:%d' % rnd.randrange(max(1, len(sh.e))), hx(UUID1)])
    return sh.random_key() if rnd.random() < 0.5 else hx(rnd.choice(PLAIN))


def filter_queries(sh, n):
    """n filtered enumerations over child containers, link containers and descriptor lists"""
    rnd = sh.rnd
    for _ in range(n):
        r = rnd.random()
        if r < 0.55:
            p, K = rnd.choice(sh.containers())
            fk = rnd.choice(FILTERS_FOR[K])
            sh.emit('lsf %s %s %s %s' % (sh.ptok(p), K, fk, filter_arg(sh, K, fk, sh.live(K, p=p))))
        elif r < 0.9:
            ls = sh.lcontainers()
            if not ls:
                continue
            h, sl = rnd.choice(ls)
            K = SLKIND[sl]
            fk = rnd.choice(FILTERS_FOR[K])
            sh.emit('llsf %d %s %s %s' % (h, sl, fk, filter_arg(sh, K, fk, sh.live(K, block=sh.block_of(h)))))
        else:
            ks = sh.live('A')
            if ks:
                sh.emit('dimsf %d %s' % (rnd.choice(ks), rnd.choice(['set', 'range', 'sampled', 'alias', 'frame'])))


def gen_c03_filter_case(rnd):
    """a dense graph (many members per container, metadata and source links), then filtered enumerations of every kind,
    interleaved with deletes, unlinks and a reopen"""
    sh = Shadow(rnd)
    build_graph(sh, size=rnd.choice([0.7, 1.0, 1.3]), reopen_at=rnd.choice([None, 6]))
    # every container once with every filter kind it supports
    for p, K in sh.containers():
        for fk in FILTERS_FOR[K]:
            if rnd.random() < 0.5:
                sh.emit('lsf %s %s %s %s' % (sh.ptok(p), K, fk, filter_arg(sh, K, fk, sh.live(K, p=p))))
    for h, sl in sh.lcontainers():
        K = SLKIND[sl]
        fk = rnd.choice(FILTERS_FOR[K])
        sh.emit('llsf %d %s %s %s' % (h, sl, fk, filter_arg(sh, K, fk, sh.live(K, block=sh.block_of(h)))))
    for a in sh.live('A'):
        if rnd.random() < 0.5:
            sh.emit('dimsf %d %s' % (a, rnd.choice(['set', 'range', 'sampled', 'alias', 'frame'])))
    for _ in range(rnd.randint(3, 8)):
        r = rnd.random()
        live = sh.live('BSPADTMGRX')
        if r < 0.4 and live:
            k = rnd.choice(live)
            sh.emit(delete_lines(sh, k, rnd.choice(['name', 'id', 'handle'])))
            sh.kill(k)
        elif r < 0.6:
            unlink_step(sh)
        elif r < 0.8:
            sh.valid_link_step(chk=False)
        else:
            sh.emit('reopen')
            after_reopen(sh)
        filter_queries(sh, rnd.randint(2, 6))
    sh.emit('reopen')
    after_reopen(sh)
    filter_queries(sh, 8)
    return Case(sh.lines, 'c03-filters', {'cls': sh.cls})


# ------------------------------------------------------------------------------------------------
# C02: blind build — the tree is built without a single observation; the first look is a reopen
# ------------------------------------------------------------------------------------------------
def gen_c02_blind_case(rnd, first):
    """`first`: the reopen kind that looks at the file first (ro / other / rw / otherw / def).  Entities with every optional
    sub-container left untouched (arrays without descriptors, tags without references or features, sections without
    properties, sources without children, empty blocks and groups) next to populated ones."""
    sh = Shadow(rnd)
    st = {'rows': {}, 'dims': {}, 'ptype': {}}
    sh.emit('quiet on')
    sh.mk(-1, 'B', 'empty block', 't')
    s0 = sh.mk(-1, 'S', 'bare section', 't')
    s1 = sh.mk(-1, 'S', sh.pick_new_name(-1, 'S', 0.2), 't')
    s2 = sh.mk(s1, 'S', 'child', 't')
    sh.mk(s1, 'P', 'p', '', 'v 2 Double Double')
    if rnd.random() < 0.5:
        sh.mk(s2, 'P', 'q', '', 't String')
    b = sh.mk(-1, 'B', sh.pick_new_name(-1, 'B', 0.2), 't')
    a_pos = sh.mk(b, 'A', 'positions', 't', 'Double 1 3')                 # never asked for its descriptors
    a_bare = sh.mk(b, 'A', sh.pick_new_name(b, 'A', 0.2), 't', '%s 2 2 3' % rnd.choice(['Int32', 'Double', 'String']))
    a_dim = sh.mk(b, 'A', sh.pick_new_name(b, 'A', 0.2), 't', 'Double 1 4')
    d = sh.mk(b, 'D', 'frame', 't', '2 %s Int32 s: %s Double s:6d56' % (hx('c0'), hx('c1')))
    t_bare = sh.mk(b, 'T', 'bare tag', 't', '1 ' + D1)
    t_full = sh.mk(b, 'T', sh.pick_new_name(b, 'T', 0.2), 't', '2 %s %s' % (D1, D2))
    m_bare = sh.mk(b, 'M', 'bare mtag', 't', str(a_pos))
    m_full = sh.mk(b, 'M', sh.pick_new_name(b, 'M', 0.2), 't', str(a_pos))
    g_bare = sh.mk(b, 'G', 'bare group', 't')
    g_full = sh.mk(b, 'G', sh.pick_new_name(b, 'G', 0.2), 't')
    r_bare = sh.mk(b, 'R', 'bare source', 't')
    r_full = sh.mk(b, 'R', sh.pick_new_name(b, 'R', 0.2), 't')
    r_kid = sh.mk(r_full, 'R', 'kid', 't')
    # content for the populated ones: only mutating calls
    lines = ['dim %d sampled' % a_dim, 'dim %d set' % a_dim, 'dim %d frame %d' % (a_dim, d), 'dimset %d 1 %d' % (a_dim, rnd.randrange(100)),
             'wdata %d %d' % (a_dim, rnd.randrange(100)), 'setlabel %d %s' % (a_dim, hx('volt')), 'setunit %d %s' % (a_dim, hx('mV')),
             'ladd %d ref %d' % (t_full, a_dim), 'ladds %d ref n:%d' % (m_full, a_bare), 'setext %d %d' % (m_full, a_pos),
             'ladd %d ga %d' % (g_full, a_dim), 'ladd %d gd %d' % (g_full, d), 'ladd %d gt %d' % (g_full, t_full), 'ladd %d gm %d' % (g_full, m_full),
             'ladd %d src %d' % (a_dim, r_kid), 'ladd %d src %d' % (t_full, r_full), 'ladds %d src i:%d' % (g_full, r_kid),
             'setmeta %d %d' % (b, s1), 'setmeta %d %d' % (a_dim, s2), 'setmetas %d i:%d' % (t_full, s1), 'setlink %d %d' % (s2, s1),
             'frows %d 2' % d, 'setdef %d %s' % (a_bare, hx('definition')),
             'settext %d 2 %s %s' % (t_full, D1, D1), 'setunits %d 1 %s' % (m_full, hx('ms')), 'forcecreated %d 1000000123' % a_pos,
             'setrepo %d %s' % (s1, hx('http://x')), 'puncert %d %s' % (s2 + 1, DVALS[3])]
    rnd.shuffle(lines)
    for l in lines[:rnd.randint(len(lines) // 2, len(lines))]:
        sh.emit(l)
        if l.startswith('frows'):
            sh.emit('wrow %d %d %d' % (d, rnd.randrange(2), rnd.randrange(100)))
    x = sh.mk(t_full, 'X', '', '', 'h %d %s' % (a_dim, rnd.choice(LT)))
    sh.e[x]['name'] = None
    if rnd.random() < 0.5:
        x2 = sh.mk(m_full, 'X', '', '', 's n:%d %s' % (a_bare, rnd.choice(LT)))
        sh.e[x2]['name'] = None
    # the first look
    if first == 'ro':
        sh.emit('reopen ro')
    else:
        sh.emit('reopen ' + first)
    sh.emit('observe')
    for k in (a_pos, a_bare, t_bare, m_bare, g_bare, r_bare, s0):
        sh.emit('hobs %d' % k)
    sh.emit('dimsf %d set' % a_pos)
    sh.emit('posq %d' % m_bare)
    sh.emit('chk %d A' % b)
    sh.emit('lchk %d ref' % t_bare)
    sh.emit('chk %d X' % t_bare)
    sh.emit('chk %d P' % s0)
    sh.emit('chk %d R' % r_bare)
    filter_queries(sh, 4)
    if first in ('ro', 'other'):
        sh.emit('reopen ro' if rnd.random() < 0.3 else 'reopen other')
    sh.emit('reopen rw')
    sh.emit('observe')
    # the read-write session goes on with the entities that were bare
    for l in ['dim %d set' % a_pos, 'ladd %d ref %d' % (t_bare, a_pos), 'ladd %d ga %d' % (g_bare, a_bare), 'setmeta %d %d' % (r_bare, s0)]:
        if rnd.random() < 0.6:
            sh.emit(l)
    sh.emit('reopen other')
    sh.emit('observe')
    return Case(sh.lines, 'c02-blind-' + first, {'cls': sh.cls})


def kept_handle_step(sh):
    """a replace-all / clear call through the kept handle, looked at through that same handle, through fresh handles (the
    dump) and, by the caller, after a reopen: empty vectors in particular"""
    rnd = sh.rnd
    ls = sh.lcontainers()
    if not ls:
        return
    h, sl = rnd.choice(ls)
    ts = sh.live(SLKIND[sl], block=sh.block_of(h))
    if ts and rnd.random() < 0.7:
        t0 = rnd.choice(ts)
        sh.emit('ladd %d %s %d' % (h, sl, t0))              # the handle has touched its container
    sh.emit('hobs %d' % h)
    n = rnd.choice([0, 0, 0, 1, 2]) if ts else 0
    sel = rnd.sample(ts, min(n, len(ts)))
    sh.emit(('lset %d %s %d %s' % (h, sl, len(sel), ' '.join(map(str, sel)))).strip())
    sh.emit('hobs %d' % h)
    sh.emit('lchk %d %s' % (h, sl))
    q = rnd.random()
    ks = sh.live('A')
    if q < 0.3 and ks:
        a = rnd.choice(ks)
        sh.emit('hobs %d' % a)
        sh.emit('deldims %d' % a)
        sh.emit('hobs %d' % a)
    elif q < 0.5:
        ps = sh.live('P')
        if ps:
            p = rnd.choice(ps)
            sh.emit('hobs %d' % p)
            sh.emit('setvals %d 0' % p)
            sh.emit('hobs %d' % p)


def load_corpus(pid):
    """tools/corpus/<pid>/*.case: minimised witnesses, always run first.  `#@ <label>` labels the class of the
    invalid argument of the script line that follows it (used by the signature)."""
    import os
    d = os.path.join(os.path.dirname(os.path.dirname(os.path.abspath(__file__))), 'corpus', pid)
    out = []
    if os.path.isdir(d):
        for f in sorted(os.listdir(d)):
            lines, cls, pending = [], {}, None
            for l in open(os.path.join(d, f)):
                l = l.rstrip('\n')
                if l.startswith('#@ '):
                    pending = l[3:].strip()
                elif l.strip() and not l.startswith('#'):
                    if pending:
                        cls[len(lines)] = pending
                        pending = None
                    lines.append(l)
            if lines:
                out.append(Case(lines, 'corpus:' + f, {'cls': cls}))
    return out


# ------------------------------------------------------------------------------------------------
# comparison of answer lines, signatures
# ------------------------------------------------------------------------------------------------
TAIL = re.compile(r' t=([01]) h=([0-9a-f]{8})$')


def split_tail(a):
    m = TAIL.search(a)
    if not m:
        return a, None, None
    return a[:m.start()], m.group(1), m.group(2)


def compare(a, b):
    """a = implementation's answer, b = the model's or the specification's"""
    if a is None or b is None:
        return a == b
    if b == 'NOCRASH':
        return not a.startswith('CRASH')
    if b == 'NOTRACE':
        if a.startswith('CRASH'):
            return False
        return not (a.startswith('ERR') and split_tail(a)[1] == '1')
    if b == 'ERR t=0':
        return a.startswith('ERR') and split_tail(a)[1] in ('0', None)
    if b.startswith('UB'):
        return a.startswith('CRASH') or a.startswith('ERR')
    ha, ta, da = split_tail(a)
    hb, tb, db = split_tail(b)
    if tb is not None and (ta != tb or da != db):
        return False
    if ha.startswith('ERR') and hb.startswith('ERR'):
        return True          # Ok-versus-Err is compared strictly, the exception class is not
    return ha == hb


def first_failure(case, impl_lines, spec_lines):
    for i, (a, b) in enumerate(zip(impl_lines, spec_lines)):
        if b != 'ANY' and not compare(a, b):
            return i
    return None


def op_of(line):
    t = line.split(' ')
    c = t[0]
    if c == 'mk':
        extra = ''
        if t[2] == 'P' and len(t) > 5:
            extra = '-' + t[5]
        if t[2] == 'X' and len(t) > 5:
            extra = '-' + t[5]
        return 'mk ' + t[2] + extra
    if c in ('del', 'delh', 'has', 'hash', 'get', 'geti', 'cnt', 'ls', 'chk'):
        return c + ' ' + t[2]
    if c.startswith('l') and len(t) > 2:
        return c + ' ' + t[2]
    return c
