"""C01 — array data round trip.  Coq proof of the row-major array model against a pointwise history
specification + correspondence of whole histories on real files."""
import os, random, struct
from engine import Prop, Case

DTYPES = ['Bool', 'Int8', 'Int16', 'Int32', 'Int64', 'UInt8', 'UInt16', 'UInt32', 'UInt64', 'Float', 'Double', 'String']
NUMERIC = [d for d in DTYPES if d not in ('Bool', 'String')]
INT_RANGE = {'Int8': (-2 ** 7, 2 ** 7 - 1), 'Int16': (-2 ** 15, 2 ** 15 - 1), 'Int32': (-2 ** 31, 2 ** 31 - 1),
             'Int64': (-2 ** 63, 2 ** 63 - 1), 'UInt8': (0, 2 ** 8 - 1), 'UInt16': (0, 2 ** 16 - 1),
             'UInt32': (0, 2 ** 32 - 1), 'UInt64': (0, 2 ** 64 - 1)}
COMPR = ['none', 'deflate', 'fileauto']
EXTENTS = [1, 2, 3, 7]
CAP = 150            # elements per array (keeps the unary-nat model and the sanitizer build fast)


def dbl(x):
    return 'd:%016x' % struct.unpack('<Q', struct.pack('<d', x))[0]


def flt_bits(x):
    return struct.unpack('<I', struct.pack('<f', x))[0]


# doubles chosen for the case splits of the conversions and of applyPolynomial
DBL_SPECIAL = ['d:0000000000000000', 'd:8000000000000000', 'd:3ff0000000000000', 'd:bff0000000000000',
               'd:7ff0000000000000', 'd:fff0000000000000', 'd:7ff8000000000000',
               'd:0000000000000001', 'd:7fefffffffffffff', 'd:3ff8000000000000', 'd:c004000000000000',
               'd:41dfffffffc00000', 'd:41e0000000000000', 'd:c1e0000000000000', 'd:c1e0000000200000',
               'd:41efffffffe00000', 'd:41f0000000000000',
               'd:43e0000000000000', 'd:c3e0000000000000', 'd:43f0000000000000', 'd:43dfffffffffffff', 'd:43efffffffffffff',
               'd:47efffffe0000000', 'd:47efffffe0000001', 'd:47efffffefffffff', 'd:47effffff0000000', 'd:c7efffffe0000001',
               'd:36a0000000000000', 'd:3690000000000000', 'd:3690000000000001', 'd:380fffffffffffff',
               'd:405fc00000000000', 'd:4060000000000000', 'd:406fe00000000000', 'd:4070000000000000', 'd:c060200000000000',
               'd:40dfffc000000000', 'd:40e0000000000000', 'd:40efffe000000000', 'd:40f0000000000000']
FLT_SPECIAL = [0x00000000, 0x80000000, 0x3f800000, 0xbf800000, 0x7f800000, 0xff800000, 0x7fc00000, 0x00000001, 0x7f7fffff,
               0x3fc00000, 0xc0200000, 0x4f000000, 0xcf000000, 0x4effffff, 0x4f800000, 0x4f7fffff, 0x5f000000, 0xdf000000,
               0x5effffff, 0x5f800000, 0x5f7fffff, 0x42fe0000, 0x43000000, 0x437f0000, 0x43800000, 0x46fffe00, 0x47000000,
               0x477fff00, 0x47800000, 0x4b800000, 0x4b7fffff]


class Gen:
    def __init__(self, rnd):
        self.r = rnd

    def value(self, dt, nan_ok=True):
        r = self.r
        if dt == 'Bool':
            return str(r.randint(0, 1))
        if dt in INT_RANGE:
            lo, hi = INT_RANGE[dt]
            k = r.random()
            if k < 0.25:
                return str(r.choice([lo, hi, 0, 1, min(hi, 127), max(lo, -1), hi - 1, lo + 1 if lo < 0 else 2]))
            if k < 0.6:
                return str(r.randint(max(lo, -100), min(hi, 100)))
            return str(r.randint(lo, hi))
        if dt == 'Float':
            while True:
                b = r.choice(FLT_SPECIAL) if r.random() < 0.45 else (
                    flt_bits(float(r.randint(-300, 300)) / r.choice([1, 2, 4, 8])) if r.random() < 0.6 else r.getrandbits(32))
                if (b & 0x7f800000) == 0x7f800000 and (b & 0x7fffff):
                    if not nan_ok:
                        continue
                    b = 0x7fc00000
                return 'f:%08x' % b
        if dt == 'Double':
            while True:
                k = r.random()
                if k < 0.4:
                    s = r.choice(DBL_SPECIAL)
                elif k < 0.8:
                    s = dbl(float(r.randint(-3000, 3000)) / r.choice([1, 2, 4, 8, 3]))
                else:
                    s = 'd:%016x' % r.getrandbits(64)
                b = int(s[2:], 16)
                if (b & 0x7ff0000000000000) == 0x7ff0000000000000 and (b & 0xfffffffffffff):
                    if not nan_ok:
                        continue
                    s = 'd:7ff8000000000000'
                return s
        if dt == 'String':
            n = r.choice([0, 0, 1, 1, 2, 3, 6])
            return 's:' + ''.join('%02x' % r.choice([r.randint(1, 255), r.randint(0x61, 0x7a)]) for _ in range(n))
        raise ValueError(dt)

    def values(self, dt, n, nan_ok=True):
        return ' '.join(self.value(dt, nan_ok) for _ in range(n))


def prod(l):
    p = 1
    for x in l:
        p *= x
    return p


def fmt(l):
    return ' '.join(str(x) for x in l)


class History:
    """builds one mostly-valid history while tracking the extent the operations should produce"""

    def __init__(self, rnd, dt, compr, shape, nan_ok):
        self.r = rnd
        self.g = Gen(rnd)
        self.dt = dt
        self.shape = list(shape)
        self.ro = False
        self.nan_ok = nan_ok
        self.unwritten = prod(shape) > 0      # may some cell never have been written? (String: do not read those)
        self.npoly = 0                        # coefficients stored (0 = no polynomial applied)
        self.origin_set = False
        self.lines = ['create %s %s %s' % (dt, compr, fmt(shape))]
        self.kinds = set()

    def vals(self, n):
        return self.g.values(self.dt, n, self.nan_ok)

    def box(self):
        off, cnt = [], []
        for e in self.shape:
            if e == 0:
                off.append(0)
                cnt.append(0)
                continue
            c = self.r.choice([1, e, self.r.randint(1, e)])
            o = self.r.randint(0, e - c)
            off.append(o)
            cnt.append(c)
        return off, cnt

    def fill(self):
        """write every cell (String arrays are only read when nothing is unwritten)"""
        if self.ro:
            return False
        n = prod(self.shape)
        if self.r.random() < 0.5:
            self.lines.append('write ; %s ; %s' % (fmt(self.shape), self.vals(n)))
        else:
            self.lines.append('write %s ; %s ; %s' % (fmt([0] * len(self.shape)), fmt(self.shape), self.vals(n)))
        self.unwritten = False
        return True

    def safe_to_read(self):
        if self.dt != 'String' or not self.unwritten:
            return True
        return self.fill()

    def op_write(self):
        off, cnt = self.box()
        k = self.r.random()
        n = prod(cnt)
        if k < 0.08 and n == 1:
            self.lines.append('write %s ; ; %s' % (fmt(off), self.vals(1)))          # offset only: unit count
        elif k < 0.16:
            n = prod(self.shape)
            sh = self.shape if self.r.random() < 0.5 else [n]                        # whole array, memory shape free
            self.lines.append('write ; %s ; %s' % (fmt(sh), self.vals(n)))
            if not self.ro:
                self.unwritten = False
        elif k < 0.22:
            extra = self.r.randint(1, 2)                                              # longer than the rank: legal
            self.lines.append('write %s ; %s ; %s' % (fmt(off + [self.r.randint(0, 9)] * extra), fmt(cnt + [1] * extra), self.vals(n)))
        else:
            verb = 'rawwrite' if self.r.random() < 0.15 else 'write'      # setDataDirect: the same request without ioWrite
            self.lines.append('%s %s ; %s ; %s' % (verb, fmt(off), fmt(cnt), self.vals(n)))
            if cnt == self.shape and not self.ro:
                self.unwritten = False
        self.kinds.add('write')

    def read_line(self, off, cnt):
        k = self.r.random()
        body = '%s ; %s' % (fmt(off), fmt(cnt))
        if self.dt not in ('String',) and k < 0.22:
            to = self.r.choice(NUMERIC if self.dt != 'Bool' else NUMERIC + ['Bool'])
            self.kinds.add('readas')
            return '%s %s %s' % ('readas' if self.r.random() < 0.8 else 'rawas', to, body)
        if k < 0.32:
            self.kinds.add('raw')
            return 'raw ' + body
        self.kinds.add('read')
        return 'read ' + body

    def op_read(self):
        if not self.safe_to_read():
            return
        off, cnt = self.box()
        k = self.r.random()
        if k < 0.07 and prod(cnt) == 1:
            self.lines.append(self.read_line(off, []))
        elif k < 0.17:
            n = prod(self.shape)
            self.lines.append(self.read_line([], self.shape if self.r.random() < 0.5 else [n]))
        elif k < 0.23:
            extra = self.r.randint(1, 2)
            self.lines.append(self.read_line(off + [self.r.randint(0, 9)] * extra, cnt + [1] * extra))
        else:
            self.lines.append(self.read_line(off, cnt))

    def op_append(self):
        rank = len(self.shape)
        axis = self.r.randrange(rank)
        cnt = list(self.shape)
        cnt[axis] = self.r.choice([1, 1, 2, 3, 0])
        new = list(self.shape)
        new[axis] += cnt[axis]
        if prod(new) > CAP:
            return
        self.lines.append('append %d %s ; %s' % (axis, fmt(cnt), self.vals(prod(cnt))))
        if not self.ro:
            self.shape = new
        self.kinds.add('append')

    def op_extent(self):
        new = list(self.shape)
        for _ in range(self.r.choice([1, 1, 2])):
            a = self.r.randrange(len(new))
            new[a] = self.r.choice([max(0, new[a] - 1), new[a] + 1, self.r.choice(EXTENTS), new[a], 0 if self.r.random() < 0.2 else new[a] + 2])
        if prod(new) > CAP:
            return
        self.lines.append('extent ' + fmt(new))
        if not self.ro:
            if any(n > o for n, o in zip(new, self.shape)) and prod(new) > 0:
                self.unwritten = True
            self.shape = new
        self.kinds.add('extent')

    def op_writeall(self):
        rank = len(self.shape)
        new = [self.r.choice(EXTENTS) for _ in range(rank)]
        if self.r.random() < 0.5:
            new = list(self.shape)
        if prod(new) > CAP:
            return
        self.lines.append('writeall %s ; %s' % (fmt(new), self.vals(prod(new))))
        if not self.ro:
            self.shape = new
            self.unwritten = False
        self.kinds.add('writeall')

    def coeff(self):
        r = self.r
        if r.random() < 0.75:
            return dbl(r.choice([0.0, 1.0, -1.0, 2.0, 0.5, 3.0, -2.5, 0.1, 1e10, -1e-3, 100.0]))
        return r.choice(DBL_SPECIAL)

    def op_cal(self):
        r = self.r
        k = r.random()
        if k < 0.40:
            deg = r.choice([0, 1, 1, 2, 3])
            cs = ' '.join(self.coeff() for _ in range(deg + 1))
            if r.random() < 0.35:        # the overload with an explicit compression of the coefficient dataset
                self.lines.append('polyc %s %s' % (r.choice(['none', 'deflate', 'auto']), cs))
                self.kinds.add('polyc')
            else:
                self.lines.append('poly ' + cs)
            if not self.ro:
                self.npoly = deg + 1
        elif k < 0.45:
            self.lines.append('poly')                                # dataset with zero coefficients
            if not self.ro:
                self.npoly = 0
        elif k < 0.55:
            self.lines.append('poly none')
            if not self.ro:
                self.npoly = 0
        elif k < 0.90:
            self.lines.append('origin ' + self.coeff())     # read-only: refused, nothing changes
            if not self.ro:
                self.origin_set = True
            elif self.r.random() < 0.5:
                self.lines.append('cal')
        else:
            self.lines.append('origin none')
            if not self.ro:
                self.origin_set = False
        self.kinds.add('cal')
        if r.random() < 0.2:
            self.lines.append('cal')
        # a calibrated read right away, in the types the property names
        if self.dt != 'String' and r.random() < 0.8 and prod(self.shape) > 0:
            off, cnt = self.box()
            to = r.choice(['Double', 'Float', 'Int32', self.dt, self.dt if self.dt != 'Bool' else 'Int8'])
            self.lines.append('readas %s %s ; %s' % (to, fmt(off), fmt(cnt)))
            self.lines.append('raw %s ; %s' % (fmt(off), fmt(cnt)))
            self.kinds.add('calread')

    def op_reopen(self):
        if self.ro or self.r.random() < 0.65:
            self.lines.append('reopen rw')
            self.ro = False
        else:
            self.lines.append('reopen ro')
            self.ro = True
        self.kinds.add('reopen')

    def op_misc(self):
        k = self.r.random()
        if k < 0.5:
            self.lines.append('shape')
        elif self.dt != 'Bool' and self.safe_to_read():
            self.lines.append('readvec')
            self.kinds.add('readvec')

    def op_boundary(self):
        """argument-shape boundaries: every one has a definite answer in the model (no UB here)"""
        r = self.r
        rank = len(self.shape)
        k = r.randrange(13)
        a = r.randrange(rank)
        if k in (0, 1):        # offset + count = extent (legal) and extent + 1 (refused)
            off = [0] * rank
            cnt = list(self.shape)
            if self.shape[a] > 0:
                c = r.randint(1, self.shape[a])
                off[a] = self.shape[a] - c + (k == 1)
                cnt[a] = c
            else:
                cnt[a] = 1 if k == 1 else 0
            if k == 0 and not self.safe_to_read():
                return
            if r.random() < 0.5 or (self.dt == 'String' and self.unwritten):
                self.lines.append('write %s ; %s ; %s' % (fmt(off), fmt(cnt), self.vals(prod(cnt))))
            else:
                self.lines.append('read %s ; %s' % (fmt(off), fmt(cnt)))
        elif k == 2:           # count 0 in one dimension: nothing selected, even out of bounds
            off, cnt = self.box()
            cnt[a] = 0
            off[a] = r.choice([0, self.shape[a], self.shape[a] + 5])
            if r.random() < 0.5:
                self.lines.append('write %s ; %s ;' % (fmt(off), fmt(cnt)))
            else:
                self.lines.append('read %s ; %s' % (fmt(off), fmt(cnt)))
        elif k == 3:           # empty offset with a count of the wrong size
            n = prod(self.shape)
            self.lines.append('read ; %d' % (n + 1))
            self.lines.append('write ; %d ; %s' % (n + 1, self.vals(n + 1)))
        elif k == 4:           # scalar read of everything (legal only for one element)
            if self.safe_to_read():
                self.lines.append('read ;')
        elif k == 5:           # longer than the rank with a trailing entry that is not 1: element counts differ
            off, cnt = self.box()
            if self.safe_to_read():
                self.lines.append('read %s ; %s' % (fmt(off + [0]), fmt(cnt + [2])))
        elif k == 6:           # offset out of range, unit count
            off = [r.randint(0, max(0, e - 1)) for e in self.shape]
            off[a] = self.shape[a]
            self.lines.append('read %s ;' % fmt(off))
        elif k == 7:           # extent with the wrong rank
            self.lines.append('extent ' + fmt(self.shape + [1]))
            if rank > 1:
                self.lines.append('extent ' + fmt(self.shape[:-1]))
        elif k == 8:           # append: axis out of range, wrong rank, wrong cross-section (code order of the checks)
            cnt = list(self.shape)
            cnt[a] = 1
            which = r.randrange(3)
            if which == 0:
                self.lines.append('append %d %s ; %s' % (rank + r.randint(0, 2), fmt(cnt), self.vals(prod(cnt))))
            elif which == 1:
                c2 = cnt + [1]
                self.lines.append('append %d %s ; %s' % (a, fmt(c2), self.vals(prod(c2))))
            elif rank > 1:
                b = (a + 1) % rank
                cnt[b] += 1
                self.lines.append('append %d %s ; %s' % (a, fmt(cnt), self.vals(prod(cnt))))
        elif k == 9:           # whole-array set with the wrong rank
            sh = self.shape + [1]
            self.lines.append('writeall %s ; %s' % (fmt(sh), self.vals(prod(sh))))
        elif k == 10:          # type classes that do not convert
            if self.dt == 'String':
                self.lines.append('readas %s ; %s' % (r.choice(['Int32', 'Double', 'Bool']), fmt(self.shape)))
            else:       # also under calibration: refused before anything is read
                self.lines.append('readas %s ; %s' % (r.choice(['String', 'Bool'] if self.dt != 'Bool' else ['String']), fmt(self.shape)))
        elif k == 12:          # count / offset SHORTER than the rank: refused (InvalidRank), whatever else is wrong
            if rank >= 2:
                off, cnt = self.box()
                n = r.randint(1, rank - 1)
                which = r.randrange(4)
                if which == 0:
                    self.lines.append('read %s ; %s' % (fmt(off[:n]), fmt(cnt[:n])))
                elif which == 1:
                    self.lines.append('read %s ;' % fmt(off[:n]))
                elif which == 2:
                    self.lines.append('read %s ; %s' % (fmt(off), fmt(cnt[:n])))
                else:
                    self.lines.append('write %s ; %s ; %s' % (fmt(off[:n]), fmt(cnt[:n]), self.vals(prod(cnt[:n]))))
                    if self.safe_to_read():
                        self.lines.append('read ; %s' % fmt(self.shape))
            else:
                self.lines.append('read 0 ; %s' % fmt([1] * 33 if r.random() < 0.5 else []))
        else:                  # more than 32 count entries
            if self.safe_to_read():
                self.lines.append('read %s ; %s' % (fmt([0] * rank), fmt([1] * 33)))
        self.kinds.add('boundary')


def random_shape(rnd, rank, allow_zero):
    while True:
        sh = [rnd.choice(EXTENTS) for _ in range(rank)]
        if allow_zero and rnd.random() < 0.12:
            sh[rnd.randrange(rank)] = 0
        if prod(sh) <= CAP:
            return sh


def make_history(rnd, dt=None, rank=None, compr=None, length=None, weights=None):
    dt = dt or rnd.choice(DTYPES)
    rank = rank or rnd.choice([1, 1, 2, 2, 3, 4])
    compr = compr or rnd.choice(COMPR)
    nan_ok = rnd.random() < 0.2
    h = History(rnd, dt, compr, random_shape(rnd, rank, True), nan_ok)
    ops = [h.op_write, h.op_read, h.op_append, h.op_extent, h.op_writeall, h.op_cal, h.op_reopen, h.op_misc, h.op_boundary]
    w = weights or [24, 26, 9, 9, 4, 9 if dt != 'String' else 2, 6, 4, 9]
    n = length or rnd.randint(3, 12)
    guard = 0
    while len(h.lines) - 1 < n and guard < 60:
        guard += 1
        rnd.choices(ops, w)[0]()
    h.lines = h.lines[:13]
    return h


def string_unwritten_cases(rnd, n):
    """the String array whose cells were never written / were exposed by growing must read as empty strings"""
    out = []
    for i in range(n):
        rank = rnd.choice([1, 2])
        sh = random_shape(rnd, rank, False)
        compr = rnd.choice(COMPR)
        lines = ['create String %s %s' % (compr, fmt(sh))]
        k = i % 4
        g = Gen(rnd)
        if k == 0:                      # never written at all
            lines.append('read ; %s' % fmt(sh))
        elif k == 1:                    # partly written
            off = [0] * rank
            cnt = [1] * rank
            lines.append('write %s ; %s ; %s' % (fmt(off), fmt(cnt), g.values('String', 1)))
            lines.append('read ; %s' % fmt(sh))
        elif k == 2:                    # fully written, then grown
            lines.append('write ; %s ; %s' % (fmt(sh), g.values('String', prod(sh))))
            new = list(sh)
            new[0] += 1
            lines.append('extent ' + fmt(new))
            lines.append('read ; %s' % fmt(new))
        else:                           # written, closed, reopened, one exposed cell read alone
            lines.append('write ; %s ; %s' % (fmt(sh), g.values('String', prod(sh))))
            new = list(sh)
            new[-1] += 2
            lines.append('extent ' + fmt(new))
            lines.append('reopen ro')
            lines.append('read %s ;' % fmt([n - 1 for n in new]))
        out.append(Case(lines, 'string-unwritten'))
    return out


def short_arg_cases(rnd):
    """count/offset SHORTER than the data rank: refused with InvalidRank by the guard in offsetCount2DataSpaces
    (before the repair HDF5 read past the NDSize buffers); nothing may change"""
    out = []
    for dt in ('Int32', 'Double', 'String'):
        for sh in ([2, 3], [3, 2, 2], [2, 2, 2, 2]):
            g = Gen(rnd)
            base = ['create %s none %s' % (dt, fmt(sh)), 'write ; %s ; %s' % (fmt(sh), g.values(dt, prod(sh), False))]
            short = sh[:-1]
            out.append(Case(base + ['read %s ; %s' % (fmt([0] * len(short)), fmt([1] * len(short)))], 'short-args'))
            out.append(Case(base + ['read %s ;' % fmt([0] * len(short))], 'short-args'))
            out.append(Case(base + ['read %s ; %s' % (fmt([0] * len(sh)), fmt([1] * len(short)))], 'short-args'))
            out.append(Case(base + ['read 0 ; %s' % fmt([1] * 33)], 'short-args'))       # rank guard comes before the memory space
            out.append(Case(base + ['write %s ; %s ; %s' % (fmt([0] * len(short)), fmt([1] * len(short)), g.values(dt, 1, False)),
                                    'read ; %s' % fmt(sh), 'reopen ro', 'read 0 ; 1', 'write 0 ; 1 ; %s' % g.values(dt, 1, False)], 'short-args'))
    return out


def wrapprobe_cases():
    """appendData computes extent[axis] + count[axis] in 64 bits without an overflow check.  Only on request."""
    return [Case(['create Int32 none 2 0', 'append 0 18446744073709551614 0 ;', 'shape'], 'xprobe-wrap'),
            Case(['create Int32 none 2 0', 'append 0 18446744073709551615 0 ;', 'shape'], 'xprobe-wrap')]


def xprobe_cases():
    """a defect met while building this check that is still unrepaired and belongs to C08: appendData computes
    extent[axis] + count[axis] in 64 bits without an overflow check.  Only on request (NIXV_C01_XPROBE=1)."""
    return wrapprobe_cases()


ROUTES = {
    'sc': 'scalar T / std::string: data_traits<T> (Hydra.hpp) - shape {}, one element',
    'c1': 'T[N] (Hydra.hpp) - compiled for N = 5, 300',
    'c2': 'T[M][N] (Hydra.hpp) - compiled for [2][3], [260][2]',
    'vec': 'std::vector<T> (Hydra.hpp) - not for bool (std::vector<bool> has no data())',
    'val': 'std::valarray<T> (Hydra.hpp)',
    'ma': 'boost::multi_array<T,N>, N = 1..3 (hydra/multiArray.hpp)',
    'nd': 'nix::NDArray (NDArray.hpp), untyped buffer with a run-time DataType',
}
TYPED_DT = [d for d in DTYPES if d != 'String']


def narrow_extent(rnd, dt):
    """an extent that the ELEMENT type cannot represent, small enough to hold real elements (else None)"""
    if dt == 'Bool':
        return rnd.randint(2, 5)
    if dt == 'Int8':
        return rnd.choice([128, 129, 200, 255, 256, 300])
    if dt == 'UInt8':
        return rnd.choice([256, 257, 300])
    return None


# extents not representable in the element type that are only affordable next to a zero extent (no elements)
HUGE_EXTENT = {'Bool': 2, 'Int8': 128, 'UInt8': 256, 'Int16': 32768, 'UInt16': 65536, 'Int32': 2 ** 31, 'UInt32': 2 ** 32,
               'Float': 2 ** 24 + 1, 'Double': 2 ** 53 + 1}


def typed_case(rnd, route, dt, rank, narrow):
    """one short history through one typed container route; the model is the writeall / write / read semantics"""
    g = Gen(rnd)
    if route == 'c1':
        ext = [300 if narrow else 5]
    elif route == 'c2':
        ext = [260, 2] if narrow else [2, 3]
    elif route == 'sc':
        ext = []
    else:
        ext = [rnd.choice([1, 2, 3, 5]) for _ in range(rank)]
        if narrow:
            a = rnd.randrange(rank)
            ext[a] = narrow_extent(rnd, dt) or rnd.choice([6, 7])
            for j in range(rank):                       # keep the case small: shrink the other extents
                if j != a and prod(ext) > 620:
                    ext[j] = 2 if prod(ext) // ext[j] * 2 <= 620 else 1
    rank = max(1, len(ext)) if route != 'sc' else rank
    n = prod(ext)
    init = [rnd.choice([1, 2, 3]) for _ in range(rank)]
    lines = ['create %s %s %s' % (dt, rnd.choice(COMPR), fmt(init))]
    zeros = fmt([0] * rank)
    if route == 'sc':
        off = [rnd.randrange(e) for e in init]
        lines += ['write ; %s ; %s' % (fmt(init), g.values(dt, prod(init), False)),
                  'tset sc ; %s ; %s' % (fmt(off), g.values(dt, 1, False)),
                  'tgetat sc ; %s' % fmt(off),
                  'tget sc ; %s ; %s' % (fmt(off), fmt([1] * rank)),
                  'tget sc ; %s ; %s' % (fmt([0] * rank), fmt(init)),
                  'read ; %s' % fmt(init),
                  'tgetall sc', 'tsetall sc ; %s' % g.values(dt, 1, False),
                  'extent %s' % fmt([1] * rank), 'tgetall sc', 'tset sc ; ; %s' % g.values(dt, 1, False), 'tgetat sc ;', 'shape']
        return Case(lines, 'typed-sc')
    e0 = fmt(ext) if route in ('c1', 'c2') else zeros      # the container a read starts from
    lines += ['tsetall %s %s ; %s' % (route, fmt(ext), g.values(dt, n, False)), 'shape', 'read ; %s' % fmt(ext),
              'tgetall %s %s' % (route, e0)]
    # a sub-region through the route
    if n > 0 and route not in ('c1', 'c2'):
        cnt = [rnd.randint(1, min(e, 4)) for e in ext]
        off = [rnd.randint(0, e - c) for e, c in zip(ext, cnt)]
        lines += ['tget %s %s ; %s ; %s' % (route, zeros, fmt(off), fmt(cnt)),
                  'tset %s %s ; %s ; %s' % (route, fmt(cnt), fmt(off), g.values(dt, prod(cnt), False)),
                  'tgetat %s %s ; %s' % (route, fmt(cnt), fmt(off)),
                  'read ; %s' % fmt(ext)]
        if narrow and narrow_extent(rnd, dt):
            # the container itself has the non-representable extent: offset write / read of everything
            lines += ['tset %s %s ; %s ; %s' % (route, fmt(ext), zeros, g.values(dt, n, False)),
                      'tgetat %s %s ; %s' % (route, fmt(ext), zeros),
                      'tget %s %s ; %s ; %s' % (route, zeros, zeros, fmt(ext))]
    elif route in ('c1', 'c2'):
        lines += ['tget %s %s ; %s ; %s' % (route, fmt(ext), zeros, fmt(ext)),
                  'tset %s %s ; %s ; %s' % (route, fmt(ext), zeros, g.values(dt, n, False)),
                  'tgetat %s %s ; %s' % (route, fmt(ext), zeros),
                  'tget %s %s ; %s ; %s' % (route, fmt(ext), zeros, fmt([1] * rank)),      # count != the array: refused
                  'extent %s' % fmt([e + 1 for e in ext]), 'tgetall %s %s' % (route, fmt(ext))]
    # the resize rule of the route
    if rank < 3 and route in ('ma', 'nd'):
        lines += ['tgetall %s %s' % (route, fmt([0] * (rank + 1))), 'tget %s %s ; %s ; %s' % (route, zeros, zeros + ' 0', fmt([1] * (rank + 1)))]
    lines += ['reopen ro', 'tgetall %s %s' % (route, e0)]
    return Case(lines, 'typed-' + route)


def typed_1d_on_nd_case(rnd, route, dt):
    """std::vector / std::valarray against an array of rank 2..3: the container's resize rule decides"""
    g = Gen(rnd)
    rank = rnd.choice([2, 3])
    n = rnd.choice([2, 3, 5])
    a = rnd.randrange(rank)
    line = [1] * rank
    line[a] = n
    full = [rnd.choice([2, 3]) for _ in range(rank)]
    zeros = fmt([0] * rank)
    return Case(['create %s none %s' % (dt, fmt(full)), 'write ; %s ; %s' % (fmt(full), g.values(dt, prod(full), False)),
                 'tgetall %s 0' % route,                                              # more than one non-singleton dimension
                 'tget %s 0 ; %s ; %s' % (route, zeros, fmt(line)), 'tget %s 0 ; %s ; %s' % (route, zeros, fmt(full)),
                 'extent %s' % fmt(line), 'tgetall %s 0' % route,
                 'tsetall %s %d ; %s' % (route, n, g.values(dt, n, False)),           # rank 1 value into a rank-n array: refused
                 'tset %s %d ; %s ; %s' % (route, n, zeros, g.values(dt, n, False)),
                 'extent %s' % fmt([1] * rank), 'tgetall %s 0' % route, 'extent %s' % fmt([0] + [1] * (rank - 1)), 'tgetall %s 0' % route],
                'typed-' + route)


def typed_huge_case(rnd, route, dt):
    """an extent the element type cannot represent next to a zero extent: no elements, only the shape matters"""
    big = HUGE_EXTENT[dt] + rnd.choice([0, 2, 4])          # stays odd for Float / Double: not representable
    ext = [big, 0] if rnd.random() < 0.5 else [0, big]
    if rnd.random() < 0.3:
        ext.insert(rnd.randrange(3), rnd.choice([0, 1, 2]))
    zeros = fmt([0] * len(ext))
    return Case(['create %s none %s' % (dt, fmt([1] * len(ext))), 'tsetall %s %s ;' % (route, fmt(ext)), 'shape',
                 'tgetall %s %s' % (route, zeros), 'tset %s %s ; %s ;' % (route, fmt(ext), zeros), 'shape'], 'typed-%s-huge' % route)


def typed_cases(rnd, per_combo):
    out = []
    for _ in range(per_combo):
        for dt in TYPED_DT:
            for narrow in (False, True):
                for rank in (1, 2, 3):
                    out.append(typed_case(rnd, 'ma', dt, rank, narrow))
                    out.append(typed_case(rnd, 'nd', dt, rank, narrow))
                out.append(typed_case(rnd, 'c1', dt, 1, narrow))
                out.append(typed_case(rnd, 'c2', dt, 2, narrow))
                out.append(typed_case(rnd, 'val', dt, 1, narrow))
                if dt != 'Bool':
                    out.append(typed_case(rnd, 'vec', dt, 1, narrow))
                    out.append(typed_1d_on_nd_case(rnd, 'vec', dt))
                out.append(typed_1d_on_nd_case(rnd, 'val', dt))
                out.append(typed_case(rnd, 'sc', dt, rnd.choice([1, 2, 3]), narrow))
            if dt in HUGE_EXTENT:
                out.append(typed_huge_case(rnd, 'ma', dt))
                out.append(typed_huge_case(rnd, 'nd', dt))
        out.append(typed_case(rnd, 'sc', 'String', rnd.choice([1, 2]), False))
    return out


# ---- handle routes: every command of a history through a generator-chosen handle to the SAME array ----------------
HANDLES = {
    'c': 'the creating handle',
    'p': 'second handle fetched by name right after creation and peeked (dataExtent, dataType, one read, polynomCoefficients, '
         'expansionOrigin), re-fetched and peeked after every reopen',
    'n': 'fetched by name for this call',
    'i': 'fetched by id for this call',
    'x': 'fetched by index for this call',
    'b': 'stored handle obtained through a second Block handle (peeked)',
    'B': 'second Block handle fetched for this call, array fetched from it',
}
HANDLE_WEIGHTS = [('c', 2), ('p', 4), ('n', 2), ('i', 1), ('x', 1), ('b', 3), ('B', 1)]
NO_HANDLE = ('create', 'tcreate', 'reopen', 'has', 'ndidx', 'ndset', 'applypoly', 'str2dt')
MUTATORS = ('write', 'rawwrite', 'writeall', 'append', 'extent', 'poly', 'polyc', 'origin', 'tsetall', 'tset')


def with_handles(rnd, lines, p=0.85):
    """prefix the commands with handles; mutators and readers get independent choices, so a value written through one
    handle is read through another"""
    hs, ws = zip(*HANDLE_WEIGHTS)
    out = []
    for l in lines:
        if l.split(' ', 1)[0] in NO_HANDLE or rnd.random() > p:
            out.append(l)
        else:
            out.append('@%s %s' % (rnd.choices(hs, ws)[0], l))
    return out


# ---- further public routes (notes/route-audit.md, section C01) ---------------------------------------------------
MORE_ROUTES = {
    'tcreate': 'template Block::createDataArray(name, type, const T &data, DataType data_type, Compression) - create and fill',
    'polyc': 'DataArray::polynomCoefficients(coefficients, compression) - explicit compression',
    'rawwrite': 'DataArray::setDataDirect(dtype, data, count, offset)',
    'ndidx': 'NDArray::get<T>(const NDSize &) / sub2index (filled through set<T>(size_t))',
    'ndset': 'NDArray::set<T>(const NDSize &, value), read through get<T>(size_t)',
    'applypoly': 'util::applyPolynomial called directly (separate output and output == input; empty coefficients)',
    'str2dt': 'string_to_data_type (printed with data_type_to_string)',
}
CONVERTIBLE = lambda elem, stored: stored == elem or (elem not in ('String',) and stored not in ('String', 'Bool'))


def create_fill_case(rnd, elem, stored, route, compr):
    """the create-and-fill template: container of `elem`, stored as `stored` (Nothing = the element type)"""
    g = Gen(rnd)
    if route == 'sc':
        ext = []
    elif route == 'c1':
        ext = [5]
    elif route in ('vec', 'val'):
        ext = [rnd.choice([1, 2, 3, 7])]
    else:
        ext = [rnd.choice([1, 2, 3]) for _ in range(rnd.choice([1, 2, 3]))]
    n = 1 if route == 'sc' else prod(ext)
    real = elem if stored == 'Nothing' else stored
    lines = ['tcreate %s %s %s %s %s ; %s' % (elem, stored, compr, route, fmt(ext), g.values(elem, n, False)), 'has']
    if route != 'sc':
        lines += ['shape', 'read ; %s' % fmt(ext), 'raw %s ; %s' % (fmt([0] * len(ext)), fmt(ext))]
        ok = CONVERTIBLE(elem, real)
        if ok and real != 'String':
            lines += ['readas %s ; %s' % (rnd.choice(NUMERIC), fmt(ext))]
        # the array must be a normal array afterwards
        cnt = list(ext)
        cnt[0] = 1
        lines += ['append 0 %s ; %s' % (fmt(cnt), g.values(real, prod(cnt), False)), 'shape', 'reopen ro', 'has',
                  'read ; %s' % fmt([ext[0] + 1] + ext[1:])]
    return Case(lines, 'route-tcreate')


def create_fill_cases(rnd, reps):
    out = []
    for _ in range(reps):
        for elem in TYPED_DT:
            routes = ['ma', 'nd', 'val', 'c1'] + (['vec'] if elem != 'Bool' else [])
            # no override, the same type spelled out, a convertible other type, types nothing converts to
            for stored in ['Nothing', elem, rnd.choice([d for d in NUMERIC if d != elem]), 'String', 'Bool']:
                out.append(create_fill_case(rnd, elem, stored, rnd.choice(routes), rnd.choice(COMPR)))
            out.append(create_fill_case(rnd, elem, rnd.choice(['Nothing', 'Double']), 'sc', 'none'))      # rank 0: refused, nothing created
        for stored in ['Nothing', 'String', 'Double', 'Int32', 'Bool']:
            out.append(create_fill_case(rnd, 'String', stored, 'vec', rnd.choice(COMPR)))
    return out


def stateless_route_cases(rnd, reps):
    out = []
    g = Gen(rnd)
    for _ in range(reps):
        for dt in TYPED_DT:
            sh = [rnd.choice([1, 2, 3, 4]) for _ in range(rnd.choice([1, 2, 3]))]
            n = prod(sh)
            vals = g.values(dt, n, False)
            inside = [rnd.randrange(e) for e in sh]
            edge = list(inside)
            a = rnd.randrange(len(sh))
            edge[a] = sh[a]                                   # outside the box; the position may still be inside the buffer
            far = [e + 3 for e in sh]
            for idx in (inside, edge, far, inside[:-1], inside + [0], [e - 1 for e in sh], [0] * len(sh)):
                out.append(Case(['ndidx %s %s ; %s ; %s' % (dt, fmt(sh), vals, fmt(idx))], 'route-ndidx'))
            for idx in (inside, edge, far):
                out.append(Case(['ndset %s %s ; %s ; %s ; %s' % (dt, fmt(sh), vals, fmt(idx), g.value(dt, False))], 'route-ndset'))
        h = History(rnd, 'Double', 'none', [1], True)
        for alias in (0, 1):
            for deg in (-1, 0, 1, 2, 3, 5):
                cs = ' '.join(h.coeff() for _ in range(deg + 1))
                xs = ' '.join(g.value('Double', True) for _ in range(rnd.choice([0, 1, 3, 6])))
                out.append(Case(['applypoly %d %s ; %s ; %s' % (alias, h.coeff(), cs, xs)], 'route-applypoly'))
        names = ['Bool', 'Char', 'Float', 'Double', 'Int8', 'Int16', 'Int32', 'Int64', 'UInt8', 'UInt16', 'UInt32', 'UInt64', 'String',
                 'Nothing', 'Opaque', 'single', 'Single', 'SINGLE']
        for nm in names:
            for v in (nm, nm.lower(), nm.upper(), nm + ' ', ' ' + nm, nm[:-1], nm + 'x',
                      ''.join(c.upper() if rnd.random() < 0.5 else c.lower() for c in nm)):
                out.append(Case(['str2dt s:' + v.encode().hex()], 'route-str2dt'))
        for v in ('', 'int', 'uint', 'int128', 'float64', 'str', 'd\xc3\x96uble', 'DOUBLE\x00'.rstrip('\x00'), 'Int8\n'):
            out.append(Case(['str2dt s:' + v.encode('latin-1').hex()], 'route-str2dt'))
    return out


def fixed_cases():
    """hand-made histories that pin every conversion boundary and the documented corner cases"""
    c = []
    d = 'd:43e0000000000000 d:43f0000000000000 d:41e0000000000000 d:41f0000000000000 d:c3e0000000000000 d:c3e0000000000001 d:c1e0000000000000 d:c1e0000000200000'
    lines = ['create Double none 8', 'write ; 8 ; ' + d]
    for t in NUMERIC:
        lines.append('readas %s ; 8' % t)
    c.append(Case(lines, 'fixed-conv'))
    f = 'f:4f000000 f:4f800000 f:5f000000 f:5f800000 f:cf000000 f:df000000 f:7f800000 f:ff800000'
    lines = ['create Float deflate 8', 'write ; 8 ; ' + f]
    for t in NUMERIC:
        lines.append('readas %s ; 8' % t)
    c.append(Case(lines, 'fixed-conv'))
    d = 'd:47efffffe0000000 d:47efffffe0000001 d:47efffffefffffff d:47effffff0000000 d:c7efffffe0000001 d:36a0000000000000 d:3690000000000000 d:3690000000000001'
    c.append(Case(['create Double fileauto 2 4', 'write ; 2 4 ; ' + d, 'readas Float ; 8', 'reopen ro', 'readas Float 0 0 ; 2 4'], 'fixed-conv'))
    c.append(Case(['create Int64 none 6', 'write ; 6 ; 9223372036854775807 -9223372036854775808 9007199254740993 -1 300 16777217'] +
                  ['readas %s ; 6' % t for t in NUMERIC] + ['readas Bool ; 6', 'readas String ; 6'], 'fixed-conv'))
    c.append(Case(['create UInt64 none 4', 'write ; 4 ; 18446744073709551615 9223372036854775809 18446744073709549569 5'] +
                  ['readas %s ; 4' % t for t in NUMERIC], 'fixed-conv'))
    c.append(Case(['create Bool deflate 3', 'write ; 3 ; 1 0 1', 'read ; 3'] + ['readas %s ; 3' % t for t in NUMERIC] +
                  ['origin d:3ff0000000000000', 'read ; 3', 'readas Double ; 3', 'readas Int32 ; 3', 'raw ; 3'], 'fixed-conv'))
    # the pinned test's scalar read: count longer than the rank
    c.append(Case(['create Double none 5', 'write ; 5 ; ' + ' '.join(dbl(float(i)) for i in range(5)), 'read 0 ; 1 1', 'read 4 ; 1 1',
                   'read 5 ; 1 1', 'read 2 ; 1 1 1', 'read 2 9 9 ; 1 1 1', 'read 2 ; 2 1', 'read 2 ; 1 2'], 'fixed-args'))
    # extent changes keep cells by index
    c.append(Case(['create Int32 none 2 3', 'write ; 2 3 ; 1 2 3 4 5 6', 'extent 3 2', 'read ; 6', 'extent 1 1', 'extent 2 3', 'read ; 6',
                   'reopen rw', 'read ; 6', 'shape'], 'fixed-extent'))
    # Hydra vector rule
    c.append(Case(['create Int16 none 2 2', 'readvec', 'extent 1 3', 'readvec', 'extent 1 0', 'readvec', 'extent 0 1', 'readvec',
                   'extent 0 5', 'readvec', 'extent 3 1', 'readvec', 'extent 1 1', 'readvec'], 'fixed-vector'))
    # read-only session
    c.append(Case(['create Int32 none 2', 'write ; 2 ; 4 5', 'poly d:3ff0000000000000', 'reopen ro', 'read ; 2', 'write ; 2 ; 1 2',
                   'write 0 ; 0 ;', 'extent 2', 'extent 2 2', 'append 0 1 ; 3', 'append 3 1 ; 3', 'writeall 2 ; 1 2', 'writeall 1 1 ; 1',
                   'poly d:3ff0000000000000', 'origin d:3ff0000000000000', 'poly none', 'origin none', 'cal', 'raw ; 2', 'reopen rw',
                   'origin d:4000000000000000', 'reopen ro', 'origin none', 'poly d:4000000000000000', 'cal', 'read ; 2'], 'fixed-readonly'))
    # polynomial order of operations, special values
    c.append(Case(['create Double none 2 2', 'write ; 4 ; d:3fb999999999999a d:7ff0000000000000 d:8000000000000000 d:7ff8000000000000',
                   'poly d:3fb999999999999a d:3fd3333333333333 d:3fe6666666666666 d:3ff199999999999a', 'origin d:3fc999999999999a',
                   'read ; 4', 'readas Float ; 4', 'raw ; 4', 'poly d:0000000000000000 d:7ff0000000000000', 'read ; 4', 'poly none', 'read ; 4',
                   'origin none', 'read ; 4', 'poly', 'cal', 'read ; 4'], 'fixed-poly'))
    # repaired defects, now ordinary refusals: overwriting an existing origin in a read-only session changes nothing;
    # a calibrated read requested as String throws before anything is read
    c.append(Case(['create Int32 none 2', 'write ; 2 ; 4 5', 'origin d:4000000000000000', 'reopen ro', 'origin d:3ff0000000000000',
                   'cal', 'read ; 2', 'reopen ro', 'cal', 'reopen rw', 'cal'], 'fixed-readonly'))
    c.append(Case(['create Int32 none 2', 'write ; 2 ; 4 5', 'origin d:4000000000000000', 'readas String ; 2', 'readas String 0 ; 1',
                   'readas String ; 0', 'readas String 0 ; 1 1 1', 'rawas String ; 2', 'read ; 2', 'origin none', 'poly d:3ff0000000000000',
                   'readas String ; 2', 'read ; 2'], 'fixed-cal-string'))
    c.append(Case(['create String none 2', 'write ; 2 ; s:61 s:62', 'origin d:4000000000000000', 'read ; 2', 'raw ; 2'], 'fixed-cal-string'))
    return c


class C01(Prop):
    id = 'C01'
    driver = 'drv_C01'
    model = 'C01'
    search_scale = 4
    level_text = ('Machine-checked Coq theorems, unbounded in rank, shape and history length, about a row-major array model that mirrors '
                  'DataSet::setData/getData -> DataArray::ioWrite/ioRead/appendData -> DataArrayHDF5::write/read/dataExtent -> '
                  'offsetCount2DataSpaces: ravel/unravel bijection, slab read-after-write (same and other cells), extent change keeps/fills, '
                  'append, refinement of every history to a layout-free pointwise history specification (every outcome of every call equal), '
                  'calibrated read = polynomial in binary64 in the stated operation order then conversion, raw reads unaffected, '
                  'close+reopen identity.  The model is tied to the code by running whole histories (all 12 element types, ranks 1-4, three '
                  'compression settings, reopen read-only/read-write) against the sanitizer-built library on real files; every read of the '
                  'implementation is judged by the extracted pointwise specification.')
    level_note = ('Assumed, not proved: HDF5 1.10.8 storage (dataset = total map with zero fill, set_extent keeps by index, row-major '
                  'hyperslab transfer, chunking/deflate transparent, close flushes) and its hard type conversions as observed on this '
                  'x86-64 build; both are re-checked by every correspondence run.  Excluded from the compared domain: NaN -> integer '
                  'conversion (C cast of NaN; answer ANY), strings containing NUL, extents/offsets near 2^63, the extent value 2^64-1.  '
                  'The slab selection is proved free of undefined behaviour (count/offset shorter than the rank are refused; these '
                  'calls are part of the default stream).  One defect that belongs to C08 is still mirrored by the model and kept in '
                  'the opt-in stream NIXV_C01_XPROBE=1: an append whose extent overflows 64 bits shrinks the array; history_refines '
                  'excludes exactly that (op_dom) and it is exhibited by the computed witness C01_append_wrap_shrinks.  The theorems '
                  'depend on the standard-library axioms of the classical reals only through Flocq (the float values embed Flocq proofs).')
    technique = 'Coq proof (row-major model refines pointwise history specification) + differential histories on real HDF5 files'
    nontrivial_rule = ('histories of 3-12 calls over {write slab, whole write, offset-only write, append, set extent (grow/shrink/zero), '
                       'read / readas / raw / vector read, polynomial, origin, reopen ro/rw, argument-shape boundaries}; type x rank 1-4 x '
                       'extents {0,1,2,3,7} x compression; plus fixed conversion-boundary histories and String arrays with never-written '
                       'cells; a case is non-trivial when the model returned at least one non-empty list of values; distinct = distinct case text')
    assumptions = ['HDF5 dataset storage, fill values, H5Dset_extent, hyperslab selection and transfer behave as modelled in coq/Data/NDArr.v (header comment)',
                   'HDF5 hard conversions as observed on x86-64/gcc 12 (clamping; hardware cast at the rounded-up maximum; >FLT_MAX -> inf)',
                   'compression setting has no effect on values',
                   'NaN -> integer reads, NUL bytes in strings, NDSize::nelms overflow and extents >= 2^63 are outside the compared domain',
                   'history_refines: no append overflows 2^64 and extents are 64-bit unsigned values (op_dom)']
    trusted_base = ['hand-written model coq/Data/NDArr.v (mirrors the C++ call path; tied by the correspondence run)',
                    'pointwise specification coq/Data/NDSpec.v (extracted; judges every read of the implementation)',
                    'Flocq 4 binary32/binary64 (BinarySingleNaN) for Float/Double values, conversions and applyPolynomial']

    def compare(self, a, b):
        if b == 'ANY':
            return True
        return super().compare(a, b)

    def nontrivial(self, case, model_lines):
        return any(l.startswith('OK [ ') and l != 'OK [ ]' for l in model_lines)

    def generate(self, seed, tier, scale=1):
        cases = []
        if tier == 'quick' and scale == 1:
            plan = [(seed, 520)]
            nstr = 6
        elif scale == 1:
            plan = [(seed * 7919 + k, 4000) for k in range(5)]
            nstr = 12
        else:
            plan = [(seed, 1200 * scale)]
            nstr = 6
        cases += fixed_cases()
        for sd, n in plan:
            rnd = random.Random(sd)
            # every type x rank x compression at least once, then free choice
            grid = [(dt, rank, compr) for dt in DTYPES for rank in (1, 2, 3, 4) for compr in COMPR]
            rnd.shuffle(grid)
            for i in range(n):
                if i < len(grid):
                    dt, rank, compr = grid[i]
                    h = make_history(rnd, dt, rank, compr)
                else:
                    h = make_history(rnd)
                tag = 'hist-' + h.dt
                cases.append(Case(with_handles(rnd, h.lines), tag))
            # calibrated-read stream: numeric arrays, polynomials of degree 0..3, special values
            for i in range(max(20, n // 10)):
                dt = rnd.choice(NUMERIC + ['Bool'])
                h = make_history(rnd, dt, rnd.choice([1, 2, 3]), None, rnd.randint(5, 12), [20, 10, 3, 3, 2, 50, 5, 2, 5])
                cases.append(Case(with_handles(rnd, h.lines), 'calibrated'))
            cases += string_unwritten_cases(rnd, nstr)
        cases += short_arg_cases(random.Random(seed))
        cases += typed_cases(random.Random(seed * 31 + 7), 1 if (tier == 'quick' and scale == 1) else 6)
        cases += create_fill_cases(random.Random(seed * 37 + 11), 1 if (tier == 'quick' and scale == 1) else 8)
        cases += stateless_route_cases(random.Random(seed * 41 + 13), 1 if (tier == 'quick' and scale == 1) else 6)
        hr = random.Random(seed * 43 + 17)
        for c in cases:
            if (c.tag.startswith('typed-') or c.tag == 'route-tcreate' or c.tag.startswith('fixed-')) and hr.random() < 0.6:
                c.lines = with_handles(hr, c.lines)
        calls = {h: {'mutating': 0, 'reading': 0} for h in HANDLES}
        for c in cases:
            for l in c.lines:
                tk = l.split(' ')
                cmd = tk[1] if tk[0].startswith('@') and len(tk) > 1 else tk[0]
                if cmd in NO_HANDLE:
                    continue
                h = tk[0][1:] if tk[0].startswith('@') else 'c'
                calls[h]['mutating' if cmd in MUTATORS else 'reading'] += 1
        self._handle_calls = calls
        # how many calls each further route got (goes into the evidence)
        self_count = lambda k: sum(1 for c in cases for l in c.lines if k in l.split(' ')[:2])
        self._route_calls = {k: self_count(k) for k in MORE_ROUTES}
        if os.environ.get('NIXV_C01_XPROBE') == '1':
            cases += xprobe_cases()
        return cases

    def extra_checks(self, ctx):
        dist = ctx['out'].dist
        ctx['ev']['typed_container_routes'] = {
            r: {'what': ROUTES[r], 'cases': dist.get('typed-' + r, 0) + dist.get('typed-%s-huge' % r, 0),
                'cases_with_extent_not_representable_in_element_type': 'narrow element types Bool/Int8/UInt8 with real elements; '
                'Int16..UInt32/Float/Double only next to a zero extent (tag typed-%s-huge)' % r if r in ('ma', 'nd') else
                'Bool/Int8/UInt8 (c1: N=300, c2: [260][2], vec/val: up to 300 elements)' if r != 'sc' else 'not applicable (no extent)'}
            for r in ROUTES}
        ctx['ev']['handle_routes'] = {h: {'what': HANDLES[h], 'calls': getattr(self, '_handle_calls', {}).get(h, {})} for h in HANDLES}
        ctx['ev']['further_public_routes'] = {k: {'what': MORE_ROUTES[k], 'calls': getattr(self, '_route_calls', {}).get(k, 0)}
                                              for k in MORE_ROUTES}
        ctx['ev']['typed_container_routes_not_covered'] = ['std::array (the library has no data_traits for it)',
                                                           'boost::multi_array<std::string,N> and String through c1/c2/val/nd',
                                                           'Int16 extents >= 32768 WITH elements (model cost); covered only next to a zero extent']
        return []

    def signature(self, case, impl, spec):
        t = case.lines[0].split(' ')
        dt = t[1] if len(t) > 1 else '?'
        # first line where implementation and specification differ
        k = next((i for i, (a, b) in enumerate(zip(impl, spec)) if b != 'ANY' and not self.compare(a, b)), 0)
        tk = case.lines[k].split(' ')
        via = tk[0][1:] if tk[0].startswith('@') else 'c'
        op = tk[1] if tk[0].startswith('@') and len(tk) > 1 else tk[0]
        a, b = impl[k], spec[k]
        if case.tag == 'route-tcreate' and not a.startswith('CRASH'):
            return {'kind': 'create-and-fill leaves the array behind when the write fails (or builds a wrong request)',
                    'route': 'template Block::createDataArray(name, type, data, data_type, compression)',
                    'write_refused': impl[0].startswith('ERR')}
        if case.tag.startswith('route-'):
            return {'kind': 'public route answers differently from the model', 'route': case.tag[6:], 'op': op}
        if case.tag.startswith('typed-'):
            route = case.tag.split('-')[1]
            return {'kind': 'typed container route builds a wrong request', 'route': route, 'container': ROUTES[route].split(' (')[0]}
        if case.tag.startswith('xprobe'):
            return {'kind': case.tag, 'op': op}
        if dt == 'String' and a.startswith('CRASH') and b.startswith('OK [') and ' s: ' in b + ' ':
            return {'kind': 'read of never-written String element', 'crash': 'null char* into std::string (StringWriter::finish)'}
        if a.startswith('CRASH'):
            return {'kind': 'crash', 'op': op, 'dtype': dt, 'crash': a.split(' ', 1)[1][:60]}
        return {'kind': 'wrong-answer', 'op': op, 'dtype': dt, 'handle': '@%s %s' % (via, HANDLES.get(via, '?').split(' (')[0]),
                'refused': a.startswith('ERR'), 'spec_refuses': b.startswith('ERR')}

    def describe(self, case, impl, spec):
        k = next((i for i, (a, b) in enumerate(zip(impl, spec)) if b != 'ANY' and not self.compare(a, b)), 0)
        return 'call %d (%s): implementation answers %r where the pointwise specification requires %r' % (
            k + 1, case.lines[k][:80], impl[k][:200], spec[k][:200])


PROP = C01()
