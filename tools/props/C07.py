"""C07 — position-to-index conversion.  Translator-generated sampled / set / data-frame functions,
hand model for range; spec judge index_ok; boundary-directed generator."""
import random, struct, math
from engine import Prop, Case

RULES = ['L', 'LE', 'GE', 'G', 'EQ']


def bits(d):
    return struct.unpack('>Q', struct.pack('>d', d))[0]


def frombits(b):
    return struct.unpack('>d', struct.pack('>Q', b & 0xffffffffffffffff))[0]


def enc(d):
    if d != d:
        return 'd:7ff8000000000000'
    return 'd:%016x' % bits(d)


def ulp_next(d, k=1):
    """k-th double after d (k may be negative)"""
    if d != d or d in (float('inf'), float('-inf')):
        return d
    b = bits(d)
    # map to a monotone integer line
    if b >> 63:
        m = -(b & 0x7fffffffffffffff)
    else:
        m = b
    m += k
    if m < 0:
        b2 = (-m) | (1 << 63)
    else:
        b2 = m
    return frombits(b2)


INTERVALS = [0.1, 0.001, 1.0 / 3.0, 0.7, 1e-6, 0.25, 3.0, 1e3, 2.5e-5, 1.0]
OFFSETS = [None, 0.0, 0.3, -0.3, 5.0, 1e6, -2.5]


class C07(Prop):
    id = 'C07'
    driver = 'drv_C07'
    model = 'C07'
    search_scale = 2
    search_budget_s = 240
    technique = ('Coq proof over translator-generated index functions (Flocq binary64) + correspondence on boundary grids, '
                 'judged by the extracted rule specification')
    level_text = ('Machine-checked Coq theorems over Flocq binary64: the generated sampled / set / data-frame / range conversions '
                  '(the range conversion through its hand copy, proved equal to the generated one) return exactly the index each matching rule defines (largest / smallest / equal '
                  'coordinate, none when there is none), for every finite position, every positive interval and offset (sampled; only '
                  'monotonicity of the computed coordinates is used, which is proved), every label / row count, every strictly '
                  'ascending tick list; coordinate round trip and the start/end pair rule as corollaries; termination of the search '
                  'loops within the fuel. The sampled / set / data-frame / range conversions, the four start/end pair conversions '
                  'and (for the unit-carrying vector overloads) the retrieval model they are stated over are regenerated from '
                  'src/Dimensions.cpp on every run or proved equal to the regenerated code; the dimension classes around them '
                  '(tick storage, units, handles) and scalePositions / getSIScaling are tied by the correspondence run through the public API.')
    level_note = ('Trusted: Coq kernel, Flocq, stdlib real-number axioms (named in the evidence), the clang-AST translator, extraction '
                  'and driver glue; x86-64 SSE2 double arithmetic without contraction (-ffp-contract=off); std::lower_bound on a sorted '
                  'vector returns the first element not less than the key. Indices/positions beyond 2^52 (set, data frame) and 2^53 '
                  '(sampled) are outside the statement.')
    nontrivial_rule = ('cases are (axis, position, rule) triples aimed at the case splits of the proofs: positions exactly on a coordinate, '
                       'one and two ulps beside it, midpoints, below the first and beyond the last coordinate; intervals incl. decimal '
                       'fractions; non-trivial = the model returns an index (not none / not an error); distinct = distinct case text')
    assumptions = ['coordinates of a sampled axis are the doubles positionAt() computes: fl(fl(i*dt)+offset)',
                   'positions at or beyond 2^52 on set / data-frame axes are not judged (the code refuses them)',
                   'a data-frame dimension over a frame with 0 rows and a set dimension without labels are unbounded axes (as the code has it)']
    trusted_base = ['translator tools/translate/cxx2coq.py (getSampledIndex, lastSampleBelow, sampleBelow, getSetIndex, getDataFrameIndex, getIndex, '
                    'the four indexOf(start, end, <axis>, RangeMatch) overloads, enums); iterators over the tick vector are modelled as indices, '
                    '*it as a checked access, std::lower_bound over [begin, end) as the structural function lower_bound of coq/Axis/RangeModel.v',
                    'hand model of scalePositions / positionToIndex with units (coq/Access/Retrieval.v, VecUnits.v), tied by correspondence (uvec / upos streams)']

    # -------------------------------------------------------------- generators
    def sampled_positions(self, rnd, dt, off, idxs):
        o = off or 0.0
        out = []
        for i in idxs:
            x = i * dt + o          # python float arithmetic = binary64 round-to-nearest, same as positionAt
            out += [x, ulp_next(x, 1), ulp_next(x, -1), ulp_next(x, 2), ulp_next(x, -2)]
            xn = (i + 1) * dt + o
            out.append((x + xn) / 2)
        out += [o, ulp_next(o, -1), o - dt, o - 1e9, o + 1e12 * dt, -0.0, 0.0]
        return out

    def generate(self, seed, tier, scale=1):
        rnd = random.Random(seed)
        cases = []
        quick = (tier == 'quick' and scale == 1)
        # ---- sampled axis
        ivs = INTERVALS if not quick else INTERVALS[:8]
        for dt in ivs:
            for off in (OFFSETS if not quick else [None, 0.3, -0.3, 5.0]):
                if quick:
                    idxs = sorted(set([0, 1, 2, 3, 6, 12, 24, 29, 43, 9999, 10000] + [rnd.randrange(0, 10001) for _ in range(18)]))
                else:
                    idxs = sorted(set(list(range(0, 120)) + [rnd.randrange(0, 10001) for _ in range(60 * scale)] + [10 ** 4, 10 ** 6, 2 ** 31, 2 ** 40]))
                for p in self.sampled_positions(rnd, dt, off, idxs):
                    for r in (RULES if not quick else rnd.sample(RULES, 3)):
                        cases.append(Case('sampled %s %s %s %s' % (enc(dt), enc(off) if off is not None else '-', enc(p), r), 'sampled'))
                for i in idxs[:12]:
                    cases.append(Case('posat %s %s %d' % (enc(dt), enc(off) if off is not None else '-', i), 'posat'))
                # pairs + vector overload
                o = off or 0.0
                for _ in range(6 if quick else 30):
                    a, b = sorted(rnd.sample(idxs, 2))
                    s = rnd.choice([a * dt + o, ulp_next(a * dt + o, rnd.choice([-1, 1])), (a + 0.5) * dt + o])
                    e = rnd.choice([b * dt + o, ulp_next(b * dt + o, rnd.choice([-1, 1])), (b + 0.5) * dt + o, s, ulp_next(s, -1)])
                    for m in ('incl', 'excl'):
                        cases.append(Case('sampledpair %s %s %s %s %s' % (enc(dt), enc(off) if off is not None else '-', enc(s), enc(e), m), 'sampledpair'))
                ps = []
                for _ in range(3):
                    a, b = sorted(rnd.sample(idxs, 2))
                    ps += [enc(a * dt + o), enc(b * dt + o)]
                cases.append(Case('sampledvec %s %s %s 3 %s' % (enc(dt), enc(off) if off is not None else '-', rnd.choice(['incl', 'excl']), ' '.join(ps)), 'sampledvec'))
        # ---- thorough only: EVERY sample index up to 10^4 (the property's quantifier, literally) for the decimal intervals
        if not quick and scale == 1:
            for dt in (0.1, 0.001, 1.0 / 3.0, 0.7):
                for off in (None, 0.3, -0.7):
                    o = off or 0.0
                    for i in range(0, 10001):
                        x = i * dt + o
                        for p in (x, ulp_next(x, 1), ulp_next(x, -1)):
                            for r in RULES:
                                cases.append(Case('sampled %s %s %s %s' % (enc(dt), enc(off) if off is not None else '-', enc(p), r), 'sampled-all'))
        # ---- set and data-frame axes
        for kind in ('set', 'df'):
            for k in range(0, 6):
                pts = []
                for i in range(0, 8):
                    x = float(i)
                    pts += [x, ulp_next(x, 1), ulp_next(x, -1), x + 0.5, x + 0.25]
                pts += [-0.0, -1.0, -0.5, -1e300, 1e6, 2.0 ** 31, 2.0 ** 40 + 0.5, 4503599627370495.5, 4503599627370495.0]
                for p in pts:
                    for r in RULES:
                        cases.append(Case('%s %d %s %s' % (kind, k, enc(p), r), kind))
                for _ in range(8 if quick else 40):
                    s = rnd.choice(pts)
                    e = rnd.choice(pts)
                    cases.append(Case('%spair %d %s %s %s' % (kind, k, enc(s), enc(e), rnd.choice(['incl', 'excl'])), kind + 'pair'))
        # ---- range axis: random strictly ascending tick vectors incl. length 1 and neighbours one ulp apart
        nvec = 25 if quick else 200 * scale
        for _ in range(nvec):
            k = rnd.choice([1, 1, 2, 3, 5, 8, 13])
            t = [rnd.choice([rnd.uniform(-10, 10), float(rnd.randrange(-5, 6)), rnd.uniform(-1e-3, 1e-3)])]
            while len(t) < k:
                step = rnd.choice(['ulp', 'small', 'big'])
                last = t[-1]
                t.append(ulp_next(last, 1) if step == 'ulp' else last + rnd.uniform(1e-9, 1.0) if step == 'small' else last + rnd.uniform(1, 1e6))
            t = sorted(set(t))
            k = len(t)
            pts = []
            for x in t:
                pts += [x, ulp_next(x, 1), ulp_next(x, -1)]
            for a, b in zip(t, t[1:]):
                pts.append((a + b) / 2)
            pts += [t[0] - 1.0, t[-1] + 1.0, -1e308, 1e308]
            tk = ' '.join(enc(x) for x in t)
            for p in (pts if not quick else rnd.sample(pts, min(len(pts), 10))):
                for r in RULES:
                    cases.append(Case('range %d %s %s %s' % (k, tk, enc(p), r), 'range'))
            for _ in range(6):
                s, e = rnd.choice(pts), rnd.choice(pts)
                cases.append(Case('rangepair %d %s %s %s %s' % (k, tk, enc(s), enc(e), rnd.choice(['incl', 'excl'])), 'rangepair'))
        # ---- overloads that take units (util::positionToIndex): every pair is scaled by the factor of ITS OWN unit
        UV = {'s': 1.0, 'ms': 1e-3, 'us': 1e-6, 'ks': 1e3, 'ns': 1e-9}
        UG = {'V': 1.0, 'mV': 1e-3, 'uV': 1e-6, 'kV': 1e3}
        def upick(tab, du, x, u):
            return x if u == 'none' or du in ('-', 'none') or u not in tab else x * tab[du] / tab[u]
        n_u = 40 if quick else 400 * scale
        for _ in range(n_u):
            tab = rnd.choice([UV, UV, UG])
            du = rnd.choice(list(tab) + ['-']) if rnd.random() < 0.9 else 'none'
            if du == 'none':
                du = '-'
            if rnd.random() < 0.6:
                dt = rnd.choice([0.1, 0.5, 1.0, 0.001, 2.5, 1.0 / 3.0]); off = rnd.choice([None, 0.3, -2.0])
                o = off or 0.0
                head = 's %s %s' % (enc(dt), enc(off) if off is not None else '-')
                coord = lambda i: i * dt + o
                top = 2000
            else:
                k = rnd.choice([2, 3, 5, 8])
                t = sorted(set(round(rnd.uniform(-5, 50), rnd.choice([0, 1, 3])) for _ in range(k)))
                k = len(t)
                head = 'r %d %s' % (k, ' '.join(enc(x) for x in t))
                coord = lambda i: t[min(i, k - 1)]
                top = k
            m = rnd.choice([1, 2, 3, 3, 4, 5])
            pool = list(tab) + ['none']
            pat = rnd.choice(['uniform', 'aba', 'mixed', 'none-after', 'mixed'])
            u0 = rnd.choice(pool)
            units = []
            for i in range(m):
                if pat == 'uniform':
                    units.append(u0)
                elif pat == 'aba':
                    units.append(u0 if i % 2 == 0 else rnd.choice([x for x in pool if x != u0]))
                elif pat == 'none-after':
                    units.append(u0 if i == 0 else 'none')
                else:
                    units.append(rnd.choice(pool))
            if rnd.random() < 0.06:
                units[rnd.randrange(m)] = rnd.choice(['Hz', 'mA', 'foo', ''.join(rnd.sample('kmV', 2))])
            trip = []
            for u in units:
                a, b = sorted([rnd.randrange(0, top), rnd.randrange(0, top)])
                xs, xe = coord(a), coord(b)
                if rnd.random() < 0.3:
                    xe = xe + rnd.choice([0.25, -0.25]) * (coord(1) - coord(0) if top > 1 else 1.0)
                trip += [enc(upick(tab, du, xs, u)), enc(upick(tab, du, xe, u)), u]
            sizes_ok = rnd.random() > 0.04
            if not sizes_ok and m > 1:
                trip = trip[:-3] + [trip[-3], trip[-2]]      # malformed on purpose: the driver reads a short last triple
                continue
            cases.append(Case('uvec %s %s %s %d %s' % (head, du, rnd.choice(['incl', 'excl']), m, ' '.join(trip)), 'uvec-' + pat))
            # the scalar overload with a unit on the same dimension
            u = rnd.choice(pool + ['Hz'])
            a = rnd.randrange(0, top)
            cases.append(Case('upos %s %s %s %s %s' % (head, du, enc(upick(tab, du, coord(a), u)), u, rnd.choice(RULES)), 'upos'))
        # ---- the remaining public routes (deprecated overloads that throw instead of answering none; vector overloads)
        for _ in range(25 if quick else 250 * scale):
            dt = rnd.choice(INTERVALS[:8]); off = rnd.choice([None, 0.3, -0.3, 5.0]); o = off or 0.0
            hd = '%s %s' % (enc(dt), enc(off) if off is not None else '-')
            def spos():
                i = rnd.randrange(0, 3000)
                return rnd.choice([i * dt + o, ulp_next(i * dt + o, rnd.choice([-1, 1])), (i + 0.5) * dt + o, o - dt, o - 1e6])
            cases.append(Case('s1 %s %s' % (hd, enc(spos())), 's1'))
            a, b = spos(), spos()
            cases.append(Case('s2 %s %s %s' % (hd, enc(a), enc(b)), 's2'))
            cases.append(Case('s2 %s %s %s' % (hd, enc(min(a, b)), enc(max(a, b))), 's2'))
            m = rnd.choice([0, 1, 2, 4])
            prs = []
            for _i in range(m):
                a, b = spos(), spos()
                if rnd.random() < 0.8:
                    a, b = min(a, b), max(a, b)
                prs += [enc(a), enc(b)]
            sur = [enc(1.0)] if rnd.random() < 0.1 else []
            cases.append(Case('svec2 %s %d %s' % (hd, m, ' '.join(prs + sur)), 'svec2'))
            # set / data-frame vectors
            for kind in ('setvec', 'dfvec'):
                k = rnd.choice([0, 1, 3, 5])
                m = rnd.choice([0, 1, 3])
                prs = []
                for _i in range(m):
                    a = rnd.choice([0.0, 1.0, 2.5, -1.0, 4.0, 4.5, 7.0]); b = rnd.choice([0.0, 1.0, 2.5, 3.0, 4.0, 4.5, 9.0])
                    prs += [enc(a), enc(b)]
                sur = [enc(1.0)] if rnd.random() < 0.1 else []
                cases.append(Case('%s %d %s %d %s' % (kind, k, rnd.choice(['incl', 'excl']), m, ' '.join(prs + sur)), kind))
            # range routes
            k = rnd.choice([1, 2, 3, 5, 8])
            t = sorted(set(rnd.choice([float(rnd.randrange(-5, 30)), rnd.uniform(-5, 30)]) for _ in range(k)))
            k = len(t)
            tk = '%d %s' % (k, ' '.join(enc(x) for x in t))
            def rpos():
                x = rnd.choice(t)
                return rnd.choice([x, ulp_next(x, 1), ulp_next(x, -1), x + 0.5, t[0] - 1.0, t[-1] + 1.0])
            cases.append(Case('r1 %s %s %d' % (tk, enc(rpos()), rnd.choice([0, 1])), 'r1'))
            a, b = rpos(), rpos()
            cases.append(Case('r2 %s %s %s' % (tk, enc(a), enc(b)), 'r2'))
            cases.append(Case('r2 %s %s %s' % (tk, enc(max(a, b)), enc(min(a, b))), 'r2-reversed'))
            cases.append(Case('pinr %s %s' % (tk, enc(rpos())), 'pinr'))
            m = rnd.choice([0, 1, 2, 4])
            prs = []
            for _i in range(m):
                a, b = rpos(), rpos()
                if rnd.random() < 0.7:
                    a, b = min(a, b), max(a, b)
                prs += [enc(a), enc(b)]
            sur = [enc(1.0)] if rnd.random() < 0.1 else []
            cases.append(Case('rvec %s %s %d %s' % (tk, rnd.choice(['incl', 'excl']), m, ' '.join(prs + sur)), 'rvec'))
            cases.append(Case('rvecb %s %d %s %d %s' % (tk, rnd.choice([0, 1]), rnd.choice(['incl', 'excl']), m, ' '.join(prs + sur)), 'rvecb'))
        cases.append(Case('pinr 0 %s' % enc(1.0), 'pinr'))
        # ---- caller-supplied-axis cores, operator[], and the remaining overloads of util::positionToIndex
        for _ in range(25 if quick else 250 * scale):
            dt = rnd.choice(INTERVALS[:8]); off = rnd.choice([None, 0.3, -0.3, 5.0]); o = off or 0.0
            hd = '%s %s' % (enc(dt), enc(off) if off is not None else '-')
            def spos():
                i = rnd.randrange(0, 3000)
                return rnd.choice([i * dt + o, ulp_next(i * dt + o, rnd.choice([-1, 1])), (i + 0.5) * dt + o, o - dt])
            a, b = spos(), spos()
            if rnd.random() < 0.8:
                a, b = min(a, b), max(a, b)
            cases.append(Case('core s %s %s %s %s' % (hd, enc(a), enc(b), rnd.choice(['incl', 'excl'])), 'core-s'))
            cases.append(Case('opidx s %s %d' % (hd, rnd.choice([0, 1, 7, 9999])), 'opidx'))
            ipos = lambda: rnd.choice([0.0, 1.0, 2.0, 2.5, 3.0, 4.0, 4.5, -1.0, 7.0])
            a, b = ipos(), ipos()
            cases.append(Case('core set %d %d %s %s %s' % (rnd.choice([0, 0, 2, 5]), rnd.choice([0, 3, 6]), enc(a), enc(b), rnd.choice(['incl', 'excl'])), 'core-set'))
            cases.append(Case('core df %d %d %s %s %s' % (rnd.choice([0, 2, 5]), rnd.choice([0, 3, 6]), enc(a), enc(b), rnd.choice(['incl', 'excl'])), 'core-df'))
            k = rnd.choice([0, 1, 2, 3, 5])
            t = sorted(set(rnd.choice([float(rnd.randrange(-5, 30)), rnd.uniform(-5, 30)]) for _ in range(k)))
            tt = t if t else [1000.0, 2000.0]
            def rpos():
                x = rnd.choice(tt)
                return rnd.choice([x, ulp_next(x, 1), ulp_next(x, -1), x + 0.5, tt[0] - 1.0, tt[-1] + 1.0])
            a, b = rpos(), rpos()
            if rnd.random() < 0.8:
                a, b = min(a, b), max(a, b)
            cases.append(Case('core r %d %s %s %s %s' % (len(t), ' '.join(enc(x) for x in t), enc(a), enc(b), rnd.choice(['incl', 'excl'])), 'core-r'))
            if t:
                cases.append(Case('opidx r %d %s %d' % (len(t), ' '.join(enc(x) for x in t), rnd.choice([0, len(t) - 1, len(t)])), 'opidx'))
            n = rnd.choice([0, 1, 3, 5])
            cases.append(Case('uset %d %s %s' % (n, enc(ipos()), rnd.choice(RULES)), 'uset'))
            cases.append(Case('udf %d %s %s' % (n, enc(ipos()), rnd.choice(RULES)), 'udf'))
            for kind in ('usetvec', 'udfvec'):
                m = rnd.choice([0, 1, 3])
                prs = []
                for _i in range(m):
                    prs += [enc(ipos()), enc(ipos())]
                sur = [enc(1.0)] if rnd.random() < 0.1 else []
                cases.append(Case('%s %d %s %d %s' % (kind, n, rnd.choice(['incl', 'excl']), m, ' '.join(prs + sur)), kind))
            cases.append(Case('udep set %d %s %s' % (n, enc(ipos()), rnd.choice(['none', 's', 'foo'])), 'udep-set'))
            m = rnd.choice([1, 2, 3])
            trip = []
            for _i in range(m):
                a, b = ipos(), ipos()
                if rnd.random() < 0.8:
                    a, b = min(a, b), max(a, b)
                trip += [enc(a), enc(b), rnd.choice(['none', 's'])]
            cases.append(Case('udepvec set %d %d %s' % (n, m, ' '.join(trip)), 'udepvec-set'))
            # deprecated unit-carrying overloads on sampled / range dimensions
            UV = {'s': 1.0, 'ms': 1e-3, 'us': 1e-6, 'ks': 1e3}
            du = rnd.choice(list(UV) + ['-'])
            u = rnd.choice(list(UV) + ['none', 'Hz'])
            def conv(x, u):
                return x if u == 'none' or du == '-' or u not in UV else x * UV[du] / UV[u]
            cases.append(Case('udep s %s %s %s %s' % (hd, du, enc(conv(spos(), u)), u), 'udep-s'))
            if t:
                cases.append(Case('udep r %d %s %s %s %s' % (len(t), ' '.join(enc(x) for x in t), du, enc(conv(rpos(), u)), u), 'udep-r'))
            m = rnd.choice([1, 2, 3])
            trip = []
            for _i in range(m):
                uu = rnd.choice(list(UV) + ['none'])
                a, b = spos(), spos()
                if rnd.random() < 0.85:
                    a, b = min(a, b), max(a, b)
                trip += [enc(conv(a, uu)), enc(conv(b, uu)), uu]
            cases.append(Case('udepvec s %s %s %d %s' % (hd, du, m, ' '.join(trip)), 'udepvec-s'))
            if t:
                trip = []
                for _i in range(m):
                    uu = rnd.choice(list(UV) + ['none'])
                    a, b = rpos(), rpos()
                    if rnd.random() < 0.85:
                        a, b = min(a, b), max(a, b)
                    trip += [enc(conv(a, uu)), enc(conv(b, uu)), uu]
                cases.append(Case('udepvec r %d %s %s %d %s' % (len(t), ' '.join(enc(x) for x in t), du, m, ' '.join(trip)), 'udepvec-r'))
        # ---- the axis the indices must be consistent with: axis(count, start)[i] = x_(start+i), tickAt(i) = tick i
        for _ in range(20 if quick else 200 * scale):
            dt = rnd.choice(INTERVALS); off = rnd.choice([None, 0.3, -0.3, 5.0])
            cnt = rnd.choice([0, 1, 2, 7, 30]); st = rnd.choice([0, 1, 5, 99, 9999, 10 ** 6])
            cases.append(Case('saxis %s %s %d %d' % (enc(dt), enc(off) if off is not None else '-', cnt, st), 'saxis'))
            k = rnd.choice([1, 2, 3, 8])
            t = sorted(set(rnd.uniform(-10, 10) for _ in range(k)))
            tk = ' '.join(enc(x) for x in t)
            cnt = rnd.choice([0, 1, len(t), len(t) + 1, 2]); st = rnd.choice([0, 1, len(t) - 1, len(t), len(t) + 1])
            cases.append(Case('raxis %d %s %d %d' % (len(t), tk, cnt, max(st, 0)), 'raxis'))
            cases.append(Case('tickat %d %s %d' % (len(t), tk, rnd.choice([0, len(t) - 1, len(t), len(t) + 3])), 'tickat'))
        # ---- a long-lived handle follows tick changes made through another handle
        for _ in range(12 if quick else 120 * scale):
            k = rnd.choice([1, 2, 3, 5]); k2 = rnd.choice([1, 2, 3, 5, 8])
            t1 = sorted(set(float(rnd.randrange(-5, 30)) for _ in range(k)))
            t2 = sorted(set(rnd.choice([float(rnd.randrange(-5, 60)), rnd.uniform(-5, 60)]) for _ in range(k2)))
            p = rnd.choice(t2 + t1 + [rnd.uniform(-6, 61)])
            cases.append(Case('stale %d %s %d %s %s %s' % (len(t1), ' '.join(enc(x) for x in t1), len(t2), ' '.join(enc(x) for x in t2),
                                                         enc(p), rnd.choice(RULES)), 'stale'))
        # ---- out-of-domain probes (the specification does not judge them; UB / crash still counts)
        for p in (float('nan'), float('inf'), float('-inf'), 1e300, 2.0 ** 64, 2.0 ** 70):
            for r in RULES:
                cases.append(Case('sampled %s - %s %s' % (enc(0.1), enc(p), r), 'probe'))
                cases.append(Case('set 3 %s %s' % (enc(p), r), 'probe'))
                cases.append(Case('set 0 %s %s' % (enc(p), r), 'probe'))
                cases.append(Case('df 2 %s %s' % (enc(p), r), 'probe'))
                cases.append(Case('range 2 %s %s %s %s' % (enc(0.0), enc(1.0), enc(p), r), 'probe'))
        return cases

    def signature(self, case, impl, spec):
        t = case.lines[0].split(' ')
        kind = t[0]
        rule = t[-1] if kind in ('sampled', 'set', 'df', 'range') else t[-1]
        return {'kind': kind, 'rule': rule, 'impl': impl[0].split(' ')[0], 'case': case.lines[0]}


PROP = C07()
