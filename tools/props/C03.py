"""C03 — names are unique per parent; name / id / index lookups, has-queries, counts and order agree.
Model: coq/Store/Db.v, DbOps.v, DbObserve.v; invariant and theorems: DbInv*.v, coq/Properties/Properties_C03.v.
Tie: interleaved create / delete / re-create histories over every container kind replayed on implementation and
extracted model (digest of the full canonical dump after every line).
Oracle: after every create / delete the `chk` / `lchk` line asks the IMPLEMENTATION for count, every index, then by
the name and the id of what the index returned, has by name / id / handle, the enumeration, and has / get for every
deleted member; the specification's line is the model's abstract container (the list in creation order)."""
import random
from engine import Prop, Case
import histlib


class C03(Prop):
    id = 'C03'
    driver = 'drv_C03'
    model = 'C03'
    level = 'proof'
    search_scale = 2          # the widened search after a break: 2 x the thorough stream per seed
    technique = 'history correspondence + invariant proof'
    level_text = ('Inv (unique names per container, unique ids, creation order, link containers keyed by target) proved to hold '
                  'initially and to be preserved by every step of the repaired model; lookup agreement, count, enumeration and '
                  'order theorems from Inv; tied by replaying histories with agreement lines judged on the implementation')
    level_note = ('HDF5 groups are modelled as ordered maps with creation-order index; the id supply is a parameter '
                  '(injective, uuid-shaped, fresh w.r.t. names in use)')
    nontrivial_rule = ('a case is a history of 40-150 calls with an agreement line after every create / delete; non-trivial when '
                       'some agreement line covers a non-empty container; distinct by text')
    assumptions = ['ids are produced by an injective, uuid-shaped supply and never equal a name in use',
                   'lookup keys contain no slash', 'receivers are live entities']
    trusted_base = ['harness/hist_common.hpp canonical dump and agreement lines (public getters only)']

    def generate(self, seed, tier, scale=1):
        cases = self._generate(seed, tier, scale)
        if scale == 1:
            self._routes = histlib.count_routes(self.corpus() + cases)
        return cases

    def _generate(self, seed, tier, scale=1):
        rnd = random.Random(seed * 104729 + 3)
        n = (70 if tier == 'quick' else 1500) * scale
        cases = histlib.gen_uuid_cases(rnd, 20 if tier == 'quick' else 400)
        # every link container kind: add / has / get / remove by name string, id string and handle, for ordinary,
        # uuid-shaped and id-valued names (seeded change C03-B)
        for _ in range(1 if tier == 'quick' else 10 * scale):
            cases += histlib.gen_c03_link_cases(rnd)
        # enumerations with a non-default filter on every container against the lookups under the same predicate
        for _ in range(16 if tier == 'quick' else 300 * scale):
            cases.append(histlib.gen_c03_filter_case(rnd))
        for i in range(n):
            fl = ['chk-touched', 'chk-touched', 'chk-every-step', 'no-final-reopen'][i % 4]
            cases.append(histlib.gen_c03_case(rnd, rnd.randint(15, 45), fl))
        return cases

    def corpus(self):
        return histlib.load_corpus(self.id)

    def extra_checks(self, ctx):
        # which further public entry points (notes/route-audit.md) this run went through, and how many script lines each got
        routes = getattr(self, '_routes', {})
        ctx['ev']['entry_points'] = {k: v for k, v in histlib.ROUTES.items() if any(r == k or r.startswith(k + ' ') for r in routes)}
        ctx['ev']['lines_per_route'] = routes
        return []

    def compare(self, a, b):
        return histlib.compare(a, b)

    def nontrivial(self, case, model_lines):
        return any(('cnt=' in l and 'cnt=0' not in l) or l in ('OK 0', 'OK 1') or ('flt=[' in l and 'flt=[]' not in l) for l in model_lines)

    def signature(self, case, impl_lines, spec_lines):
        i = histlib.first_failure(case, impl_lines, spec_lines)
        if i is None:
            return {'op': 'none'}
        line = case.lines[i]
        a = histlib.split_tail(impl_lines[i] or '')[0]
        b = spec_lines[i]
        sig = {'op': histlib.op_of(line)}
        if a.startswith('CRASH'):
            sig['what'] = 'crash'
            return sig
        # which fields of the agreement line differ
        import re
        fa = dict(re.findall(r'(\w+)=(\[[^\]]*\]|\S+)', a))
        fb = dict(re.findall(r'(\w+)=(\[[^\]]*\]|\S+)', b))
        sig['fields'] = sorted(k for k in set(fa) | set(fb) if fa.get(k) != fb.get(k))
        # the latest mutation before the line
        for j in range(i - 1, -1, -1):
            c = case.lines[j].split(' ')[0]
            if c not in ('chk', 'lchk', 'has', 'hash', 'get', 'geti', 'cnt', 'ls', 'lhas', 'lhass', 'lget', 'lgeti', 'lcnt', 'lls'):
                sig['after'] = histlib.op_of(case.lines[j])
                sig['after_class'] = (case.meta.get('cls') or {}).get(j, '-')
                break
        return sig

    def describe(self, case, impl_lines, spec_lines):
        i = histlib.first_failure(case, impl_lines, spec_lines)
        if i is None:
            return 'no failing line'
        return 'line %d `%s`: implementation answers %r, the specification requires %r' % (i + 1, case.lines[i], impl_lines[i], spec_lines[i])


PROP = C03()
