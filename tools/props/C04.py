"""C04 — deleting an entity leaves no dangling reference and harms nothing else.
Model: coq/Store/Db.v (remove_subtree, scrub_links), DbOps.v (delete by name / id / handle for every kind), DbSession.v
(what a handle to a deleted entity reports: today's link-count rule with the still-open deleted holders, and the repaired
reachability rule).  Theorems: coq/Store/DbDelete.v, coq/Store/H5Links.v, coq/Properties/Properties_C04.v.
Tie: dense link graphs (every entity kind, sources / sections nested up to depth 4, one target linked from many holders of
different kinds, links made before and after a reopen) built through the public API on implementation and extracted model;
then every choice of entity deleted by name, by id or by handle, each in a fresh replay of the same prefix (quick tier: a
sample), plus long delete sequences.  After EVERY line both sides print a digest of the whole canonical dump.
Oracle: computed by the implementation driver on the implementation's OWN dumps after each successful delete:
  dead=  the ordinals that left the file,
  dang=  every link of any kind (tag / multi-tag reference, positions, extents, feature data, group member, entity source,
         metadata, section link, data-frame dimension, container membership) that the dump still shows to a removed ordinal,
  zv=    removed ordinals whose kept handle still answers isValidEntity() = true,
  frame= the dump afterwards equals the dump before minus the removed lines and minus the links to them.
The specification (the repaired model, theorems delete_no_dangling / delete_handle_invalid / delete_subtree / delete_frame)
requires dang=[] zv=[] frame=1, the dead set it computes, and its digest of the dump."""
import random, re
from engine import Prop, Case
import histlib


class C04(Prop):
    id = 'C04'
    driver = 'drv_C04'
    model = 'C04'
    level = 'proof'
    search_scale = 2          # the widened search after a break: 2 x the thorough stream per seed
    technique = 'history correspondence + invariant proof + abstract link-graph proof'
    level_text = ('no dangling link of any kind, invalid handles, exact subtree, frame condition on the observation and tree closure '
                  'proved for remove_subtree in every state satisfying Inv (hence every reachable state); the delete calls by '
                  'name / id / handle proved to remove exactly the addressed member; removeAllLinks proved terminating and '
                  'complete on an abstract hard-link graph (alias cycle refuted for the link count); tied by replaying delete '
                  'histories with the report computed on the implementation\'s own dumps')
    level_note = ('HDF5 hard links and H5Iget_name are modelled abstractly (coq/Store/H5Links.v); the entity database abstracts '
                  'groups as ordered maps; descriptor fields and data values are outside this model (C13, C01); space reclamation '
                  'inside the HDF5 file is not observed')
    nontrivial_rule = ('a case builds a graph of 25-70 entities with 20-60 links and deletes at least one entity; non-trivial when '
                       'a delete succeeded (a line with dead=[..] non-empty); distinct by text')
    assumptions = ['ids are produced by an injective, uuid-shaped supply and never equal a name in use',
                   'the driver keeps every handle it ever obtained open until the next reopen (that is what makes the deleted '
                   'holders of today\'s code observable)',
                   'lookup keys contain no slash', 'receivers are live entities']
    trusted_base = ['harness/hist_common.hpp canonical dump and delete_report (scans the dump text; public getters only)',
                    'ocaml/hist_common.ml prints the model state in the same text form']

    def generate(self, seed, tier, scale=1):
        cases = self._generate(seed, tier, scale)
        if scale == 1:
            self._routes = histlib.count_routes(self.corpus() + cases)
        return cases

    def _generate(self, seed, tier, scale=1):
        rnd = random.Random(seed * 15485863 + 4)
        if tier == 'quick':
            cases = histlib.gen_c04_cases(rnd, 22 * scale, 6)
            for i in range(40 * scale):
                cases.append(histlib.gen_c04_sequence(rnd, rnd.randint(6, 14)))
        else:
            cases = histlib.gen_c04_cases(rnd, 12 * scale, 0, every=True)
            cases += histlib.gen_c04_cases(rnd, 150 * scale, 8)
            for i in range(500 * scale):
                cases.append(histlib.gen_c04_sequence(rnd, rnd.randint(6, 20)))
        rnd.shuffle(cases)
        return cases

    def corpus(self):
        return histlib.load_corpus(self.id)

    def extra_checks(self, ctx):
        # which further public entry points (notes/route-audit.md) this run went through, and how many script lines each got
        routes = getattr(self, '_routes', {})
        ctx['ev']['entry_points'] = {k: v for k, v in histlib.ROUTES.items() if any(r == k or r.startswith(k + ' ') for r in routes)}
        ctx['ev']['lines_per_route'] = routes
        return []

    def compare(self, a, b):
        return histlib.compare(a, b)

    def nontrivial(self, case, model_lines):
        return any(re.search(r'dead=\[\d', l) for l in model_lines)

    def signature(self, case, impl_lines, spec_lines):
        i = histlib.first_failure(case, impl_lines, spec_lines)
        if i is None:
            return {'op': 'none'}
        a = histlib.split_tail(impl_lines[i] or '')[0]
        b = histlib.split_tail(spec_lines[i])[0]
        sig = {'op': histlib.op_of(case.lines[i])}
        if a.startswith('CRASH'):
            sig['what'] = 'crash'
            return sig
        fa = dict(re.findall(r'(\w+)=(\[[^\]]*\]|\S+)', a))
        fb = dict(re.findall(r'(\w+)=(\[[^\]]*\]|\S+)', b))
        diff = sorted(k for k in set(fa) | set(fb) if fa.get(k) != fb.get(k))
        sig['fields'] = diff or ['digest']
        kinds = self.kinds_of(case)
        if 'zv' in diff:
            # why is the handle still valid: the kinds of the removed entities whose handles stay valid
            ks = sorted({kinds.get(int(re.sub(r'\D', '', x) or -1), '?') for x in fa.get('zv', '[]').strip('[]').split()})
            sig['zombie_kinds'] = ks
        if 'dang' in diff:
            sig['dangling'] = sorted({re.sub(r'\d+', '', x) for x in fa.get('dang', '[]').strip('[]').split()})
        return sig

    @staticmethod
    def kinds_of(case):
        kinds, k = {}, 0
        for l in case.lines:
            t = l.split(' ')
            if t[0] == 'mk':
                kinds[k] = t[2]
                k += 1
        return kinds

    def describe(self, case, impl_lines, spec_lines):
        i = histlib.first_failure(case, impl_lines, spec_lines)
        if i is None:
            return 'no failing line'
        return ('line %d `%s`: implementation answers %r, the specification requires %r (dang = links still shown to removed '
                'entities, zv = removed entities whose handle still reports isValidEntity(), frame = everything else unchanged)'
                % (i + 1, case.lines[i], impl_lines[i], spec_lines[i]))


PROP = C04()
