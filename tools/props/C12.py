"""C12 — ids are well-formed UUIDs, never change and never collide.
Hand-written model (coq/FileIO/Ids.v): boost's to_string / version-variant bits, looksLikeUUID, the seed of
createId, and id assignment over histories (every entity kind, deletes, forceId, reopen, other processes).
Tie: (a) replay of generated histories on the sanitizer-built library with its REAL id generator (only the
wall clock is virtual, so that "started in the same second" is a script input) and on the extracted model;
(b) a runtime experiment with the real clock: k processes started together, n ids each; (c) the fork-after-init
stream: children forked (no exec) by a process whose id generator is already initialised, on the same file (xfork)
and on separate files (forks N K, all ids through pipes)."""
import os, sys, random, time, tempfile, shutil, subprocess
from engine import Prop, Case, BUILD
import repo as repolib

KINDS = ['block', 'section', 'property', 'array', 'frame', 'tag', 'mtag', 'group', 'source', 'feature']
TWO32 = 1 << 32


def hx(s):
    return 's:' + s.encode().hex()


class Book:
    """the generator's own bookkeeping of one script (kinds, parents, names, liveness) — no ids"""

    def __init__(self):
        self.kind, self.parent, self.name, self.live = [], [], [], []
        self.rw = True

    def add(self, kind, parent, name):
        self.kind.append(kind); self.parent.append(parent); self.name.append(name); self.live.append(True)
        return len(self.kind) - 1

    def alive(self, kinds=None):
        return [k for k in range(len(self.kind)) if self.live[k] and (kinds is None or self.kind[k] in kinds)]

    def kill(self, k):
        self.live[k] = False
        for j in range(k + 1, len(self.kind)):
            if self.live[j] and self.parent[j] == k:
                self.kill(j)

    def siblings(self, kind, parent):
        return [k for k in self.alive([kind]) if self.parent[k] == parent]

    def parents_for(self, kind):
        if kind == 'block':
            return [-1]
        if kind == 'section':
            return [-1] + self.alive(['section'])
        if kind == 'property':
            return self.alive(['section'])
        if kind == 'source':
            return self.alive(['block', 'source'])
        if kind == 'feature':
            return self.alive(['tag', 'mtag'])
        return self.alive(['block'])

    def block_of(self, k):
        return self.parent[k] if self.kind[k] in ('tag', 'mtag') else k


NAMES = ['a', 'b', 'c', 'd', 'e', 'n1', 'n2', 'x y', 'ü', 'Z']


class C12(Prop):
    id = 'C12'
    driver = 'drv_C12'
    model = 'C12'
    level = 'proof'
    search_scale = 2
    level_text = ('Machine-checked Coq theorems, every one for ALL deterministic engines (the generator is a universally quantified '
                  'function seed -> n -> 64-bit word): boost::uuids::to_string of every 16-byte value (no condition on the bytes) is 36 characters '
                  'with dashes at 8/13/18/23 and lower-case hex elsewhere and is accepted by looksLikeUUID (16 positions unfolded, digits discharged '
                  'by a finite vm_compute sweep over the 16 nibble / 256 byte values lifted with forallb_forall); the text is injective; what createId '
                  'returns is a well-formed version-4 uuid for every pair of random words; over ALL histories (create of every entity kind, delete, '
                  'forceId, setters, reopen, entities created by other processes, process take-over) every stored id is well-formed, no operation '
                  'except forceId changes the file id, and - once createDataFrame checks for duplicates - no operation changes an entity id; ids ever '
                  'stored and ids held are pairwise distinct in every reachable state GIVEN pairwise distinct seeds and an engine that gives different '
                  'ids to the createId calls made; equal seeds give equal id sequences and the pinned seed is time(0) mod 2^32 only, hence (for every '
                  'engine) a second process started within the same second repeats the first one\'s ids; a child forked after the first createId call inherits the function-local static engine and (for every engine) repeats its parent\'s and its siblings\' ids, while a library that re-seeds in the child makes a forked child just another process. The hand-written model is tied to the code by '
                  'replaying generated histories on the sanitizer-built library with its real id generator and on the extracted model, and by a '
                  'multi-process experiment under the real clock.')
    level_note = ('PARTIAL. Proved: well-formedness, stability, uniqueness-given-distinct-seeds-and-a-non-repeating-engine. ASSUMED, not proved: '
                  '(1) the entropy source (std::random_device) gives different processes different values; (2) distinct seeds give distinct 122-bit '
                  'random ids (a probabilistic fact about mt19937 + uniform_int, collision probability ~ n^2 / 2^123) - this is the hypothesis '
                  '"the engine gives different ids to the createId calls made" of the uniqueness theorems; (3) boost::uuids semantics as transcribed from '
                  'uuid_io.hpp / random_generator.hpp (Boost 1.83) and the create paths of backend/hdf5 as transcribed into Ids.v - tied by the '
                  'correspondence run only (no translator for this property). The model op ONewSession (a new process takes the file over and keeps '
                  'working) is covered by the theorems but not by the correspondence run (other processes are exercised through xcreate). Trusted: Coq '
                  'kernel, extraction, the two script interpreters, the virtual clock (time() defined in the harness binary; the id source itself is never '
                  'replaced). While /repo has a defect of this property the model replays current_behaviour (one switch per defect: duplicate data frame, clock-only seed, '
                  'forked child inherits the engine) and the obligation C12_current_is_repaired is reported broken.')
    technique = ('Coq proof (finite sweeps + invariants over all histories, engine universally quantified) + differential replay of id histories with '
                 'the real generator under a virtual clock + multi-process runtime experiment under the real clock')
    nontrivial_rule = ('one case = one file history: "new t e" then 25-60 operations over all ten entity kinds (valid creates under random live parents, '
                       'duplicate names of every kind, UUID-shaped names equal to the id of a sibling / of another entity, wrong or dead parents and '
                       'references), deletes of subtrees and re-creation under the same name, setters, forceId, reopen rw/ro (with mutators tried on the '
                       'read-only file), and 0-3 sessions of other processes whose start second equals the creator\'s, equals another one\'s, differs by '
                       '2^32 or is different - each either started separately or FORKED by the process that has the file open (after its id generator was initialised); after every operation both sides print, for the file and every live entity, well-formed / same-as-created, '
                       'and whether any id was seen on two owners; a case is non-trivial when at least 5 entities were created; distinct = distinct '
                       'script text. Fork experiment `forks N K` (N in 2..8 children forked after the parent drew 2 ids; each child: own file, K blocks, 2 plain createId; parent K more; all ids through pipes; all must be well-formed and pairwise distinct). Runtime experiment: 8 processes x 200 ids (thorough: 16 x 1000) started right after a second boundary.')
    assumptions = ['the entropy source gives different processes different values (after the repair); on the pinned tree there is no entropy: seed = time(0) mod 2^32',
                   'distinct seeds yield distinct 122-bit random ids: probabilistic, NOT proved - enters the theorems as the hypothesis that the engine gives different ids to the createId calls the history makes',
                   'boost::uuids::to_string / basic_random_generator::operator() / set_uuid_random_vv as in Boost 1.83 headers (transcribed by hand)',
                   'an entity_id attribute is only written by the constructors reached from the create* methods (tied by the correspondence run over all entity kinds)',
                   'names without "/" and NUL; HDF5 link lookup and creation-order indices as in C03/C20']
    trusted_base = ['hand-written model coq/FileIO/Ids.v (no translator for C12), tied by the correspondence run and the multi-process experiment',
                    'virtual wall clock: harness/drv_C12.cpp defines time() (static link) - real time unless a script sets it; the id generator is the library\'s own',
                    'process orchestration of the harness (fork per case, exec per foreign session) and of tools/props/C12.py (runtime experiment)']

    # ------------------------------------------------------------------ reporting
    def _bad(self, impl, spec):
        return [i for i, (a, b) in enumerate(zip(impl, spec)) if b != 'ANY' and not self.compare(a, b)]

    def _category(self, line, a, b):
        w = line.split(' ')
        if w[0] == 'forks':
            return 'fork-after-init-collision' if 'common=1' in a else ('forks-malformed-id' if 'wellformed=0' in a else 'forks-failed')
        if w[0] == 'procs':
            return 'cross-process-collision-real-clock' if 'common=1' in a else 'procs-malformed-id'
        if not a.startswith('OK'):
            return 'unexpected-error'
        ta, tb = a.split(' '), b.split(' ')
        da = [x for x in ta if x.startswith('d=')]
        if da and da[0] == 'd=0':
            return 'id-collision-in-file'
        obs_a = {x.split(':')[0]: x.split(':')[1] for x in ta if ':' in x and not x.startswith('ok')}
        if any(v[:1] == '0' for v in obs_a.values()) or any(x.startswith('F0') for x in ta):
            return 'malformed-id'
        if any(x.startswith('F') and x[1:] == '10' for x in ta):
            return 'file-id-changed'
        if any(v[1:2] == '0' for v in obs_a.values()):
            return 'entity-id-changed-by-' + (w[0] + '-' + w[1] if w[0] == 'create' else w[0])
        if 'chg=0' in ta:
            return 'forceid-kept-id'
        return 'result-differs'

    def signature(self, case, impl, spec):
        bad = self._bad(impl, spec)
        if not bad:
            return {'kind': 'none'}
        i = bad[0]
        kind = self._category(case.lines[i], impl[i], spec[i])
        if kind == 'id-collision-in-file' and any(l.startswith('xfork') for l in case.lines[:i + 1]):
            kind += '-after-fork'
        return {'kind': kind}

    def describe(self, case, impl, spec):
        bad = self._bad(impl, spec)
        if not bad:
            return 'no difference'
        i = bad[0]
        return ('line %d `%s` (%s): implementation answers %r, the specification requires %r'
                % (i + 1, case.lines[i], self._category(case.lines[i], impl[i], spec[i]), impl[i], spec[i]))

    def nontrivial(self, case, model_lines):
        return sum(1 for m in model_lines if m.startswith('OK ok=')) >= 5 or case.lines[0].startswith(('procs', 'forks'))

    # ------------------------------------------------------------------ generator
    def fresh_name(self, rnd, bk, kind, parent):
        used = {bk.name[k] for k in bk.siblings(kind, parent)}
        free = [n for n in NAMES if n not in used]
        return rnd.choice(free) if free else 'q%d' % len(bk.kind)

    def gen_create(self, rnd, bk, L, kind=None, dup=False):
        kind = kind or rnd.choice(KINDS)
        ps = bk.parents_for(kind)
        if not ps:
            return
        parent = rnd.choice(ps)
        ref = -1
        if kind == 'feature':
            arrs = [a for a in bk.alive(['array']) if bk.parent[a] == bk.parent[parent]]
            if not arrs:
                return
            ref = rnd.choice(arrs)
        if kind == 'mtag':
            arrs = [a for a in bk.alive(['array']) if bk.parent[a] == parent]
            if not arrs:
                return
            ref = rnd.choice(arrs)
        sibs = bk.siblings(kind, parent)
        if kind == 'feature':
            L.append('create feature %d - %d' % (parent, ref))
            if bk.rw:
                bk.add(kind, parent, '')
            return
        if dup and sibs:
            name = bk.name[rnd.choice(sibs)]
            L.append('create %s %d %s %d' % (kind, parent, hx(name), ref))      # rejected; nothing may change
            return
        name = self.fresh_name(rnd, bk, kind, parent)
        L.append('create %s %d %s %d' % (kind, parent, hx(name), ref))
        if bk.rw:
            bk.add(kind, parent, name)

    def one_case(self, rnd, nops, flavour):
        t0 = rnd.choice([0, 1, 1000, 1790000000, TWO32 - 1, TWO32 + 5, rnd.randrange(1, 2 * TWO32)])
        ent = [1]                      # entropy values: pairwise different by construction
        L = ['new %d 1' % t0]
        bk = Book()
        child_times = []

        def next_entropy():
            ent[0] += 1
            return ent[0]

        # a skeleton so that every kind has a parent early on
        for kind in rnd.sample(['block', 'section'], 2) + ['array', 'tag'] if flavour != 'tiny' else []:
            self.gen_create(rnd, bk, L, kind)
        for _ in range(nops):
            r = rnd.random()
            if r < 0.50:
                self.gen_create(rnd, bk, L)
            elif r < 0.60:
                self.gen_create(rnd, bk, L, dup=True)
            elif r < 0.64:
                # UUID-shaped names: the id of a sibling (refused: found by entity_id) or of some other entity (legal)
                kind = rnd.choice([k for k in KINDS if k not in ('feature', 'frame')])
                ps = bk.parents_for(kind)
                if ps and bk.kind:
                    parent = rnd.choice(ps)
                    sibs = bk.siblings(kind, parent)
                    ref = -1
                    if kind == 'mtag':
                        arrs = [a for a in bk.alive(['array']) if bk.parent[a] == parent]
                        if not arrs:
                            continue
                        ref = rnd.choice(arrs)
                    if sibs and rnd.random() < 0.5:
                        L.append('create %s %d @%d %d' % (kind, parent, rnd.choice(sibs), ref))
                    else:
                        others = [k for k in range(len(bk.kind)) if k not in sibs]
                        if others:
                            k = rnd.choice(others)
                            L.append('create %s %d @%d %d' % (kind, parent, k, ref))
                            if bk.rw and ('@%d' % k) not in [bk.name[s] for s in sibs]:
                                bk.add(kind, parent, '@%d' % k)
            elif r < 0.68:
                # malformed: dead / unknown / unfitting parents and references
                kind = rnd.choice(KINDS)
                cand = list(range(len(bk.kind))) + [-1, len(bk.kind) + 3]
                L.append('create %s %d %s %d' % (kind, rnd.choice(cand), '-' if kind == 'feature' else hx(rnd.choice(NAMES)), rnd.choice(cand)))
                # the generator does not predict this one: make it harmless for the bookkeeping by choosing pairs that cannot be valid
                last = L[-1].split(' ')
                p, rf = int(last[2]), int(last[4])
                ok_parent = (p == -1 and kind in ('block', 'section')) or (0 <= p < len(bk.kind) and bk.live[p] and p in bk.parents_for(kind))
                if ok_parent:
                    L.pop()
            elif r < 0.76:
                live = bk.alive()
                if live:
                    k = rnd.choice(live)
                    L.append('delete %d' % k)
                    if bk.rw:
                        bk.kill(k)
            elif r < 0.78:
                dead = [k for k in range(len(bk.kind)) if not bk.live[k]]
                if dead:
                    L.append(rnd.choice(['delete %d', 'set %d type']) % rnd.choice(dead))
            elif r < 0.82:
                L.append('forceid')
            elif r < 0.90:
                live = bk.alive()
                if live:
                    L.append('set %d %s' % (rnd.choice(live), rnd.choice(['type', 'def', 'touch'])))
            elif r < 0.95:
                if bk.rw and rnd.random() < 0.6:
                    L.append('reopen ro'); bk.rw = False
                    for _ in range(rnd.choice([1, 2, 4])):          # mutators on the read-only file: all refused, nothing changes
                        x = rnd.random()
                        if x < 0.5:
                            self.gen_create(rnd, bk, L, dup=rnd.random() < 0.3)
                        elif x < 0.65:
                            L.append('forceid')
                        elif bk.alive():
                            L.append(rnd.choice(['delete %d', 'set %d type', 'set %d touch']) % rnd.choice(bk.alive()))
                    L.append('reopen rw'); bk.rw = True
                else:
                    L.append('reopen rw'); bk.rw = True
            else:
                # another process works on the file
                x = rnd.random()
                if x < 0.35:
                    t = t0                                   # started in the creator's second
                elif x < 0.5 and child_times:
                    t = rnd.choice(child_times)              # ... in another one's second
                elif x < 0.65:
                    t = rnd.choice([t0] + child_times) + rnd.choice([TWO32, -TWO32, 2 * TWO32])
                    if t < 0:
                        t += 2 * TWO32
                else:
                    t = t0 + 1 + len(child_times) + rnd.randrange(1, 5)
                child_times.append(t)
                kind = rnd.choice(['block', 'section'])
                n = rnd.choice([1, 1, 2, 3])
                names = []
                for i in range(n):
                    used = {bk.name[k] for k in bk.siblings(kind, -1)} | set(names)
                    if rnd.random() < 0.15 and used:
                        names.append(rnd.choice(sorted(used)))            # duplicate: refused in the other process
                    else:
                        free = [nm for nm in NAMES + ['o1', 'o2', 'o3'] if nm not in used]
                        names.append(rnd.choice(free) if free else 'o%d' % len(bk.kind))
                # ... either a separately started process, or a child forked by the process that has the file open
                word = 'xfork' if rnd.random() < 0.45 else 'xcreate'
                L.append('%s %d %d %s %d %s' % (word, t, next_entropy(), kind, n, ' '.join(hx(nm) for nm in names)))
                seen = {bk.name[k] for k in bk.siblings(kind, -1)}
                for nm in names:
                    if nm not in seen:
                        bk.add(kind, -1, nm); seen.add(nm)
        # tail: createDataFrame under the id of an existing frame (accepted on the pinned tree, refused once repaired)
        if flavour == 'frames':
            frames = bk.alive(['frame'])
            if frames:
                f = rnd.choice(frames)
                L.append('create frame %d @%d -1' % (bk.parent[f], f))
        return Case(L, flavour)

    def fixed_cases(self):
        H = hx
        every = ['new 1000 1', 'create block -1 %s -1' % H('b'), 'create section -1 %s -1' % H('s'), 'create section 1 %s -1' % H('s'),
                 'create property 2 %s -1' % H('p'), 'create array 0 %s -1' % H('a'), 'create frame 0 %s -1' % H('f'),
                 'create tag 0 %s -1' % H('t'), 'create mtag 0 %s 4' % H('m'), 'create group 0 %s -1' % H('g'),
                 'create source 0 %s -1' % H('r'), 'create source 9 %s -1' % H('r'), 'create feature 6 - 4', 'create feature 7 - 4']
        dups = ['create block -1 %s -1' % H('b'), 'create section -1 %s -1' % H('s'), 'create section 1 %s -1' % H('s'),
                'create property 2 %s -1' % H('p'), 'create array 0 %s -1' % H('a'), 'create tag 0 %s -1' % H('t'),
                'create mtag 0 %s 4' % H('m'), 'create group 0 %s -1' % H('g'), 'create source 0 %s -1' % H('r'),
                'create source 9 %s -1' % H('r'), 'create block -1 @0 -1', 'create array 0 @4 -1', 'create section 1 @2 -1',
                'create property 2 @3 -1']
        cases = [
            Case(every + dups + ['set %d %s' % (k, w) for k in range(13) for w in ('type', 'def', 'touch')] +
                 ['forceid', 'reopen ro'] + dups + ['forceid', 'set 0 type', 'delete 4', 'reopen rw', 'forceid', 'delete 4',
                  'create array 0 %s -1' % H('a'), 'delete 0', 'create block -1 %s -1' % H('b'), 'delete 1', 'forceid'], 'every-kind'),
            # the duplicate createDataFrame (DESIGN section 9 item 7)
            Case(['new 5 1', 'create block -1 %s -1' % H('b'), 'create frame 0 %s -1' % H('f'), 'create frame 0 %s -1' % H('f'),
                  'reopen rw', 'create frame 0 %s -1' % H('g'), 'create frame 0 @1 -1'], 'frames'),
            # another process in the creator's second / 2^32 seconds later / in a different second (DESIGN section 9 item 18)
            Case(['new 1000 1', 'xcreate 1000 2 block 1 %s' % H('y')], 'same-second'),
            Case(['new 1000 1', 'create block -1 %s -1' % H('b'), 'xcreate %d 2 section 2 %s %s' % (1000 + TWO32, H('y'), H('z'))], 'same-second'),
            Case(['new 1000 1', 'create block -1 %s -1' % H('b'), 'xcreate 1001 2 block 2 %s %s' % (H('y'), H('z')),
                  'xcreate 1001 3 block 1 %s' % H('w'), 'xcreate 1002 4 block 2 %s %s' % (H('y'), H('v'))], 'same-second'),
            # children forked after the id generator was initialised: two children; child then parent; child, reopen, forceId
            Case(['new 1000 1', 'xfork 1001 2 block 1 %s' % H('y'), 'xfork 1002 3 section 1 %s' % H('z')], 'fork'),
            Case(['new 1000 1', 'xfork 1001 2 block 1 %s' % H('y'), 'create section -1 %s -1' % H('s')], 'fork'),
            Case(['new 1000 1', 'create block -1 %s -1' % H('b'), 'create array 0 %s -1' % H('a'), 'xfork 1000 2 block 2 %s %s' % (H('y'), H('z')),
                  'reopen rw', 'forceid', 'create tag 0 %s -1' % H('t'), 'xfork 1000 3 section 1 %s' % H('s'), 'xcreate 1000 4 block 1 %s' % H('w'),
                  'create block -1 %s -1' % H('v'), 'xfork 5 5 array 1 %s' % H('q')], 'fork'),
            Case(['forks 2 1'], 'forks'), Case(['forks 8 40'], 'forks'), Case(['forks 3 0'], 'forks'),
            # malformed stream
            Case(['reset', 'create block -1 %s -1' % H('b'), 'forceid', 'delete 0', 'xfork 1 2 block 1 %s' % H('b')], 'malformed'),
            Case(['new 7 1', 'delete 0', 'set 3 type', 'create array 0 %s -1' % H('a'), 'create feature 0 - 0', 'create mtag -1 %s -1' % H('m'),
                  'create block 0 %s -1' % H('b'), 'create block -1 %s -1' % H('b'), 'create block -1 %s -1' % H('c'),
                  'create array 0 %s -1' % H('a'), 'create tag 1 %s -1' % H('t'), 'create feature 3 - 2', 'create mtag 1 %s 2' % H('m'),
                  'create property 0 %s -1' % H('p'), 'xcreate 9 2 array 1 %s' % H('a'), 'create source 2 %s -1' % H('r')], 'malformed'),
        ]
        return cases

    def generate(self, seed, tier, scale=1):
        rnd = random.Random(seed)
        n = (300 if tier == 'quick' else 6000) * scale
        cases = self.fixed_cases()
        # the fork-after-init experiment on separate files (deterministic: no clock involved)
        for _ in range((5 if tier == 'quick' else 40) * min(scale, 3)):
            cases.append(Case(['forks %d %d' % (rnd.randint(2, 8), rnd.choice([1, 2, 5, 17, 60, rnd.randint(1, 120)]))], 'forks'))
        flav = ['mixed', 'mixed', 'frames', 'tiny', 'long']
        for i in range(n):
            f = flav[i % len(flav)] if i < 20 else rnd.choice(flav)
            nops = {'mixed': rnd.randint(25, 45), 'frames': rnd.randint(20, 35), 'tiny': rnd.randint(3, 10), 'long': rnd.randint(50, 70)}[f]
            cases.append(self.one_case(rnd, nops, f))
        return cases

    # ------------------------------------------------------------------ the runtime experiment (real clock, real generator)
    def extra_checks(self, ctx):
        exe = ctx['impl_exe']
        k, n = (8, 200) if ctx['tier'] == 'quick' else (16, 1000)
        root = tempfile.mkdtemp(prefix='C12-procs-', dir=os.path.join(BUILD, 'run'))
        env = dict(os.environ); env.update(repolib.SAN_ENV)
        info = {'processes': k, 'ids_per_process': n, 'attempts': 0}
        fails = []
        try:
            best = None
            for attempt in range(5):
                info['attempts'] = attempt + 1
                dirs = []
                for i in range(k):
                    d = os.path.join(root, 'a%d_p%d' % (attempt, i)); os.makedirs(d); dirs.append(d)
                now = time.time()
                time.sleep(1.0 - (now - int(now)) + 0.03)            # just after a second boundary
                procs = [subprocess.Popen([exe, '--genids', str(n), d], stdout=subprocess.PIPE, stderr=subprocess.PIPE, env=env, text=True)
                         for d in dirs]
                outs = [p.communicate(timeout=300) for p in procs]
                secs, ids, bad_shape, failed = [], [], 0, 0
                for p, d in zip(procs, dirs):
                    f = os.path.join(d, 'ids.txt')
                    if p.returncode != 0 or not os.path.exists(f):
                        failed += 1; secs.append(None); ids.append([]); continue
                    rows = open(f).read().split('\n')
                    secs.append(int(rows[0]))
                    cur = []
                    for r in rows[1:]:
                        if r.strip():
                            u, w = r.split(' ')
                            cur.append(u)
                            bad_shape += (w != '1')
                    ids.append(cur)
                counts = {}
                for s in secs:
                    if s is not None:
                        counts[s] = counts.get(s, 0) + 1
                shared = max(counts.values()) if counts else 0
                best = (secs, ids, bad_shape, failed, shared)
                if shared >= 2:
                    break
            secs, ids, bad_shape, failed, shared = best
            owner = {}
            colliding_pairs = set()
            common_ids = 0
            for i, cur in enumerate(ids):
                for u in set(cur):
                    if u in owner and owner[u] != i:
                        colliding_pairs.add((owner[u], i)); common_ids += 1
                    else:
                        owner[u] = i
            within = sum(len(cur) - len(set(cur)) for cur in ids)
            info.update({'processes_sharing_a_second': shared, 'distinct_start_seconds': len(set(s for s in secs if s is not None)),
                         'processes_failed': failed, 'ids_collected': sum(len(c) for c in ids), 'distinct_ids': len(owner),
                         'ids_common_to_two_processes': common_ids, 'colliding_process_pairs': len(colliding_pairs),
                         'duplicates_within_a_process': within, 'malformed_ids': bad_shape,
                         'conclusive': shared >= 2 and failed == 0})
            line = 'procs %d %d' % (k, n)
            head = 'OK procs=%d n=%d shared=%d ' % (k, n, 1 if shared >= 2 else 0)
            if failed:
                ctx['say']('C12 runtime experiment: %d of %d processes failed: %s' % (failed, k, (outs[0][1] or '')[-300:]))
            if shared < 2:
                ctx['say']('C12 runtime experiment inconclusive: no two of %d processes saw the same second in %d attempts' % (k, info['attempts']))
            if common_ids or within or bad_shape:
                fails.append({'case': Case([line], 'procs'),
                              'impl': [head + 'wellformed=%d common=%d' % (0 if bad_shape else 1, 1 if (common_ids or within) else 0)],
                              'spec': [head + 'wellformed=1 common=0']})
        finally:
            shutil.rmtree(root, ignore_errors=True)
            ctx['ev']['multiprocess_experiment'] = info
        return fails


PROP = C12()
