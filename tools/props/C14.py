"""C14 — metadata Property values round trip with type, order, unit and uncertainty.
History-based correspondence of the hand-written model coq/Data/Prop.v against the library, judged by the
extracted "last assigned" specification."""
import random, struct
from engine import Prop, Case

TYPES = ['Bool', 'Int32', 'UInt32', 'Int64', 'UInt64', 'Double', 'String']
UNHOLDABLE = ['Int8', 'Int16', 'UInt8', 'UInt16', 'Float', 'Opaque']
UNSTORABLE = ['Char', 'Nothing']

DBL_SPECIAL = [0x0000000000000000, 0x8000000000000000, 0x7ff0000000000000, 0xfff0000000000000,
               0x7ff8000000000000, 0x7ff0000000000001, 0xfff8000000000123, 0x0000000000000001,
               0x7fefffffffffffff, 0x0010000000000000, 0x3ff0000000000000, 0xbff0000000000000,
               0x3fb999999999999a, 0x4340000000000001]
INT_SPECIAL = {
    'Int32': [-2**31, 2**31 - 1, 0, -1, 1, 2**31 - 2, -2**31 + 1],
    'UInt32': [0, 2**32 - 1, 2**31, 2**31 - 1, 1],
    'Int64': [-2**63, 2**63 - 1, 0, -1, 1, 2**53 + 1, -2**53 - 1, 2**62, -2**62 - 1],
    'UInt64': [0, 2**64 - 1, 2**63, 2**63 - 1, 2**62, 2**62 - 1, 2**53 + 1, 1],
}
RANGE = {'Int32': (-2**31, 2**31 - 1), 'UInt32': (0, 2**32 - 1), 'Int64': (-2**63, 2**63 - 1), 'UInt64': (0, 2**64 - 1)}
PFX = {'Int32': 'i32', 'UInt32': 'u32', 'Int64': 'i64', 'UInt64': 'u64'}
# how the harness puts every Variant of a request together (harness/drv_C14.cpp via_route): same request, other entry points
VROUTES = ['direct', 'cstr', 'charptr', 'literal', 'setlive', 'setc', 'retype', 'copy', 'assign', 'move', 'swap', 'value']
LITERALS = [b'', b'a', b'abc', b'hello world', b'm V', '\u00e4\u00f6\u20ac'.encode('utf-8')]      # the table of string literals of the harness
GET_TYPES = ['Bool', 'Int32', 'UInt32', 'Int64', 'UInt64', 'Double', 'String', 'CStr', 'None', 'NoneT']
# live handles to the one property a line may go through (harness/drv_C14.cpp select_handle)
HANDLES = ['c', 'k', 'i', 'f', 'x', 'l', 's']


def with_handles(lines, rnd, p=0.6):
    out = []
    for l in lines:
        if l.startswith(('new_', 'reopen ', 'v')) or rnd.random() > p:
            out.append(l)
        else:
            out.append('@%s %s' % (rnd.choice(HANDLES), l))
    return out


UTF8 = ['äöü', '€', '\U0001F600', '日本語', 'µV', 'Ω']


def hexs(b):
    return 's:' + b.hex()


class Gen:
    def __init__(self, rnd):
        self.r = rnd

    def string(self, kind=None):
        r = self.r
        k = kind or r.choice(['empty', 'short', 'short', 'utf8', 'blank', 'bytes', 'long'])
        if k == 'empty':
            return b''
        if k == 'short':
            return bytes(r.choice(b'abcXYZ019_-.') for _ in range(r.randint(1, 12)))
        if k == 'utf8':
            return ''.join(r.choice(UTF8 + ['a', ' ']) for _ in range(r.randint(1, 6))).encode('utf-8')
        if k == 'blank':
            return bytes(r.choice(b' \t mVs/') for _ in range(r.randint(1, 8)))
        if k == 'bytes':
            return bytes(r.randint(1, 255) for _ in range(r.randint(1, 40)))
        if k == '4k':
            return bytes(r.choice(b'abcdefghij \xc3\xa4') for _ in range(4096))
        return bytes(r.choice(b'abcdefghijklmnopqrstuvwxyz ') for _ in range(r.choice([255, 256, 257, 1000])))

    def value(self, t, special=0.5):
        r = self.r
        if t == 'Bool':
            return 'b:%d' % r.randint(0, 1)
        if t in INT_SPECIAL:
            if r.random() < special:
                return '%s:%d' % (PFX[t], r.choice(INT_SPECIAL[t]))
            lo, hi = RANGE[t]
            return '%s:%d' % (PFX[t], r.randint(lo, hi))
        if t == 'Double':
            if r.random() < special:
                return 'd:%016x' % r.choice(DBL_SPECIAL)
            if r.random() < 0.5:
                return 'd:%016x' % r.getrandbits(64)
            return 'd:%016x' % struct.unpack('<Q', struct.pack('<d', r.uniform(-1e6, 1e6)))[0]
        if t == 'String':
            return hexs(self.string())
        if t == 'none':
            return 'none'
        raise ValueError(t)

    def length(self):
        r = self.r
        return r.choice([0, 1, 1, 2, 3, 7, 8, 9, 16, 63, 64, r.randint(0, 64), r.randint(0, 64), r.randint(0, 12)])

    def vec(self, t, n=None):
        n = self.length() if n is None else n
        return ['%d' % n] + [self.value(t) for _ in range(n)]

    def unit(self):
        r = self.r
        k = r.choice(['plain', 'blanks', 'blanks', 'empty', 'onlyblank', 'utf8', 'tab', 'odd'])
        if k == 'plain':
            return r.choice([b'mV', b'ms', b'kHz', b'm/s^2', b'V'])
        if k == 'blanks':
            return r.choice([b' mV', b'mV ', b' m V ', b'm  /  s', b'  k H z  '])
        if k == 'empty':
            return b''
        if k == 'onlyblank':
            return r.choice([b' ', b'   ', b'\t', b' \t '])
        if k == 'utf8':
            return r.choice(['µV', ' µ V ', 'Ω ', '°C'] ).encode('utf-8')
        if k == 'tab':
            return r.choice([b'm\tV', b'\tmV\t', b'm \t V'])
        return self.string('bytes')


class C14(Prop):
    id = 'C14'
    driver = 'drv_C14'
    model = 'C14'
    level_text = ('Machine-checked Coq theorems about a two-layer model of a metadata Property (typed 1-D dataset + attributes; the three '
                  'createProperty overloads, values/deleteValues/unit/uncertainty/definition with the code\'s order of checks and effects, '
                  'reopen in both modes): values_roundtrip (every vector of every supported type, any length), count_is_length, '
                  'replace_shorter_longer, clear, type_mismatch_rejected (any position) with no-trace proved for the repaired order of checks '
                  'and refuted/partial for the pinned order, attrs_roundtrip, reopen_identity, readonly_rejects, and the refinement '
                  'history_refines of the "last assigned" specification by every list of operations. The model is tied to the library by a '
                  'history-based correspondence run on real files (sanitizer build); every observation of the library is judged by the '
                  'extracted specification evaluator spec_step.')
    level_note = ('Trusted: Coq kernel; extraction and the driver glue; HDF5 storage (set_extent keeps the prefix and zero-fills, whole-dataset '
                  'write/read, attributes) is modelled, not verified, and exercised by the run. Strings are byte strings without NUL; integers '
                  'are within their C++ types by construction of the API; one NaN. No axioms (closed under the global context).')
    technique = 'Coq proof over a hand-written storage-level model + refinement to a last-assigned specification + history correspondence'
    nontrivial_rule = ('a case is one history on a fresh file: creation through one of the three createProperty overloads, then assign / '
                       'replace (shorter, longer, equal) / clear / unit (blanks, tabs, empty, UTF-8) / uncertainty (NaN, inf, -0.0) / '
                       'definition / reopen ro|rw with an observation after most steps; lengths 0..64 with boundary lengths 0,1,7,8,9,63,64; '
                       'numeric extremes of every integer type, special doubles as bit patterns, empty / 4 KB / UTF-8 / arbitrary-byte '
                       'strings; a separate malformed stream: a foreign value at each position of a vector, foreign first value, empty '
                       'Variant, mixed vectors at creation, unsupported and unstorable value types, writes on a read-only file. '
                       'Non-trivial = the model reaches an OK outcome; distinct = distinct case text')
    assumptions = ['HDF5: H5Dset_extent on a 1-D dataset keeps the surviving prefix and fills new elements with zero / null string; H5S_ALL '
                   'write/read transfers the whole extent in order; attributes hold what was stored; a ReadOnly file rejects every write',
                   'strings contain no NUL byte (the C string API cannot carry one)',
                   'DEFAULT_PROPERTY_SIZE = 8 is written into the model as the code has it; the correspondence run checks it',
                   'entity_id / name / created_at / updated_at of the property are not observed by this property']
    trusted_base = ['hand-written model coq/Data/Prop.v (step, with the defect switches set to `pinned`), tied by the correspondence run',
                    'exception classes nix::hdf5::H5Exception and nix::hdf5::H5Error are identified (both are failures of the HDF5 layer)']

    def canon(self, line):
        return line.replace('nix::hdf5::H5Exception', 'nix::hdf5::H5Error')

    # ---- generator -------------------------------------------------------------------------------
    def history(self, g, t, nsteps, tag):
        r = g.r
        lines = []
        how = r.choice(['t', 'v', 'vs', 'vs'])
        def rt():
            x = r.choice(VROUTES)
            return '' if x == 'direct' and r.random() < 0.5 else ':' + x

        def vec(n=None):
            # with the literal route most strings come from the harness's table of literals
            route = rt()
            v = g.vec(t, n)
            if route == ':literal' and t == 'String':
                v = [v[0]] + [hexs(r.choice(LITERALS)) if r.random() < 0.8 else x for x in v[1:]]
            return route, v
        if how == 't':
            lines.append('new_t ' + t)
        elif how == 'v':
            route, v = vec(1)
            lines.append('new_v%s %s' % (route, v[1]))
        else:
            n = r.choice([1, 1, 2, 8, 9, 64, r.randint(1, 64)])
            route, v = vec(n)
            lines.append('new_vs%s %s' % (route, ' '.join(v)))
        lines.append(r.choice(['obs', 'obs:alt']))
        ro = False
        for _ in range(nsteps):
            k = r.choice(['set', 'set', 'set', 'set', 'clear', 'clear_none', 'unit', 'unit', 'unit_none', 'unc', 'unc_none',
                          'def', 'def_none', 'reopen', 'reopen', 'count', 'cmp', 'pstr'])
            if ro and k != 'reopen' and r.random() < 0.7:
                k = 'obs'          # mostly read while read-only
            if k == 'set':
                route, v = vec()
                lines.append('set%s %s' % (route, ' '.join(v)))
            elif k == 'cmp':
                # Property::compare with a property called otherwise (same section) or the same (another section: ids decide)
                lines.append('cmp ' + hexs(r.choice([b'p', b'q', b'o', b'pa', b'P', b'', 'ä'.encode('utf-8'), b'p ', b'a b', b'zz9',
                                                     bytes(r.choice(b'nopqrs') for _ in range(r.randint(1, 3)))]) or b'x'))
            elif k == 'unit':
                lines.append('unit ' + hexs(g.unit()))
            elif k == 'unc':
                lines.append('unc ' + g.value('Double'))
            elif k == 'def':
                lines.append('def ' + hexs(g.string(r.choice(['short', 'utf8', 'long', 'bytes', 'blank']))))
            elif k == 'reopen':
                ro = r.random() < 0.4
                lines.append('reopen ' + ('ro' if ro else 'rw'))
            else:
                lines.append(k)
            if k not in ('count', 'cmp', 'pstr') and r.random() < 0.8:
                lines.append(r.choice(['obs', 'obs', 'obs:alt']))
        lines.append('reopen ' + r.choice(['ro', 'rw']))
        lines.append('obs')
        return Case(with_handles(lines, r), tag)

    def generate(self, seed, tier, scale=1):
        rnd = random.Random(seed)
        g = Gen(rnd)
        cases = []
        big = tier != 'quick' or scale > 1
        mult = scale if scale > 1 else (40 if tier != 'quick' else 1)     # widened search (DESIGN section 4): 20x the quick volume
        # 1. boundary lengths x every type: assign, replace shorter / longer / equal, clear, across reopen
        for t in TYPES:
            for (a, b) in [(0, 1), (1, 0), (1, 2), (8, 7), (7, 8), (8, 9), (9, 8), (64, 63), (63, 64), (64, 64), (3, 40), (40, 3), (8, 8)]:
                lines = ['new_t ' + t, 'count', 'set ' + ' '.join(g.vec(t, a)), 'obs', 'set ' + ' '.join(g.vec(t, b)), 'obs',
                         'reopen ' + rnd.choice(['ro', 'rw']), 'obs', 'count']
                cases.append(Case(lines, 'replace'))
        # 2. every special value of every type, through each creation overload
        for t in TYPES:
            if t in INT_SPECIAL:
                vals = ['%s:%d' % (PFX[t], v) for v in INT_SPECIAL[t]]
            elif t == 'Double':
                vals = ['d:%016x' % v for v in DBL_SPECIAL]
            elif t == 'Bool':
                vals = ['b:0', 'b:1']
            else:
                vals = [hexs(b''), hexs(g.string('4k')), hexs('ä€\U0001F600 日本'.encode('utf-8')), hexs(b' '),
                        hexs(bytes(range(1, 256)))]
            cases.append(Case(['new_vs %d %s' % (len(vals), ' '.join(vals)), 'obs', 'reopen ro', 'obs'], 'extremes'))
            for v in vals[:6]:
                cases.append(Case(['new_v ' + v, 'obs', 'set 2 %s %s' % (v, v), 'obs', 'reopen rw', 'obs'], 'extremes'))
            cases.append(Case(['new_t ' + t, 'set %d %s' % (len(vals), ' '.join(reversed(vals))), 'obs', 'reopen rw', 'obs'], 'extremes'))
            # type-only creation: DEFAULT_PROPERTY_SIZE default values
            cases.append(Case(['new_t ' + t, 'count', 'obs', 'reopen ro', 'count', 'obs'], 'create-typeonly'))
            cases.append(Case(['new_t ' + t, 'count', 'clear', 'count', 'obs', 'set ' + ' '.join(g.vec(t, 3)), 'obs'], 'create-typeonly'))
        # 3. attributes
        for t in rnd.sample(TYPES, 4 if not big else 7):
            lines = ['new_v ' + g.value(t)]
            for u in [b'mV', b' m V ', b'', b' \t ', 'µ V'.encode('utf-8'), b'm\tV']:
                lines += ['unit ' + hexs(u), 'obs']
            lines += ['unit_none', 'obs']
            for d in DBL_SPECIAL[:8]:
                lines += ['unc d:%016x' % d, 'obs']
            lines += ['unc_none', 'obs', 'def ' + hexs(b'a definition'), 'obs', 'def ' + hexs(b''), 'obs', 'def_none', 'obs',
                      'def ' + hexs(g.string('4k')), 'unit ' + hexs(b' k Hz'), 'unc d:3ff8000000000000', 'reopen ro', 'obs',
                      'unit ' + hexs(b'V'), 'unc_none', 'def_none', 'obs', 'reopen rw', 'unit_none', 'obs']
            cases.append(Case(lines, 'attrs'))
        # 3b. the Variant value class on its own: every construction route x every value type round trips through a property,
        #     operator== / != (also on nix::Value), get<T>() / get(T&) with every requested type, operator<<, supports_type, swap
        for route in VROUTES:
            for t in TYPES:
                vals = ([hexs(x) for x in LITERALS] + [hexs(g.string('long')), hexs(g.string('bytes'))]) if t == 'String' else \
                       [g.value(t, 0.7) for _ in range(6)]
                cases.append(Case(['new_vs:%s %d %s' % (route, len(vals), ' '.join(vals)), 'obs', 'obs:alt',
                                   'set:%s 2 %s %s' % (route, vals[-1], vals[0]), 'obs:alt', 'reopen ro', 'obs',
                                   'new_v:%s %s' % (route, vals[1]), 'obs:alt'], 'variant-routes'))
        allv = lambda: g.value(rnd.choice(TYPES + ['none']), 0.6)
        for i in range(40 * mult):
            L = []
            for _ in range(12):
                k = rnd.choice(['veq', 'veq', 'vget', 'vgeto', 'vstr', 'vswap', 'vsup'])
                route = rnd.choice(VROUTES)
                if k == 'veq':
                    a = allv()
                    b = a if rnd.random() < 0.4 else (g.value(a.split(':')[0] and {'b': 'Bool', 'i32': 'Int32', 'u32': 'UInt32', 'i64': 'Int64',
                                                      'u64': 'UInt64', 'd': 'Double', 's': 'String'}.get(a.split(':')[0], 'Bool'), 0.6)
                                                      if rnd.random() < 0.6 else allv())
                    L.append('veq:%s %s %s' % (route, a, b))
                elif k in ('vget', 'vgeto'):
                    L.append('%s:%s %s %s' % (k, route, allv(), rnd.choice(GET_TYPES)))
                elif k == 'vstr':
                    v = allv()
                    while v.startswith('s:') and len(v) > 400:
                        v = allv()
                    L.append('vstr:%s %s' % (route, v))
                elif k == 'vswap':
                    L.append('vswap:%s %s %s' % (route, allv(), allv()))
                else:
                    L.append('vsup ' + rnd.choice(TYPES + UNHOLDABLE + UNSTORABLE))
            cases.append(Case(L, 'variant-class'))
        for t in TYPES + ['none']:           # every value type against every requested type, both getter families
            v = g.value(t, 0.6)
            cases.append(Case(['%s %s %s' % (k, v, T) for T in GET_TYPES for k in ('vget', 'vgeto')] + ['vstr ' + v, 'veq %s %s' % (v, v)],
                              'variant-class'))
        cases.append(Case(['veq d:7ff8000000000000 d:7ff8000000000000', 'veq d:8000000000000000 d:0000000000000000', 'veq none none',
                           'veq i32:1 u32:1', 'veq i64:1 i32:1', 'veq b:1 i32:1', 'veq s: none', 'veq s: s:', 'veq %s %s' % (hexs(b'a'), hexs(b'a ')),
                           'vstr i64:-9223372036854775808', 'vstr u64:18446744073709551615', 'vstr i32:0', 'vstr b:0', 'vstr b:1', 'vstr none', 'vstr s:',
                           'vstr d:3ff0000000000000'] + ['vsup ' + x for x in TYPES + UNHOLDABLE + UNSTORABLE], 'variant-class'))
        # Property::compare / operator<<
        cases.append(Case(['cmp ' + hexs(b'q'), 'pstr', 'new_v i32:1', 'pstr'] + ['cmp ' + hexs(x) for x in
                          [b'q', b'o', b'p', b'pa', b'P', b'a', b'~', b' p', b'p ', 'ä'.encode('utf-8'), b'\x7f', b'\x80', b'pp']] +
                          ['obs', 'reopen ro', 'cmp ' + hexs(b'q'), 'cmp ' + hexs(b'p'), 'pstr', 'reopen rw', 'cmp ' + hexs(b'p'), 'obs'], 'compare'))
        # several live handles to the one property: assign / clear / attributes through one handle, read through every other one
        for act in HANDLES:
            t = rnd.choice(TYPES)
            L = ['new_t ' + t] + ['@%s obs' % h for h in HANDLES]
            L += ['@%s set %s' % (act, ' '.join(g.vec(t, 3)))] + ['@%s obs' % h for h in HANDLES] + ['@%s count' % h for h in HANDLES]
            L += ['@%s set %s' % (act, ' '.join(g.vec(t, 12)))] + ['@%s obs:alt' % h for h in HANDLES]
            L += ['@%s clear' % act] + ['@%s count' % h for h in HANDLES]
            L += ['@%s unit %s' % (act, hexs(b' m V ')), '@%s unc d:3ff8000000000000' % act, '@%s def %s' % (act, hexs(b'text'))] + ['@%s obs' % h for h in HANDLES]
            L += ['@%s set %s' % (act, ' '.join(g.vec(t, 1))), '@%s unit_none' % act] + ['@%s obs' % h for h in HANDLES]
            L += ['reopen ro'] + ['@%s obs' % h for h in HANDLES] + ['@%s clear' % act] + ['@%s count' % h for h in HANDLES]
            L += ['reopen rw', '@%s set %s' % (act, ' '.join(g.vec(t, 9)))] + ['@%s obs' % h for h in HANDLES]
            cases.append(Case(L, 'handles'))
        # 4. random histories
        for i in range(1500 * mult):
            t = TYPES[i % 7]
            cases.append(self.history(g, t, rnd.randint(3, 9), 'history'))
        # 5. malformed stream
        for t in TYPES:
            others = [x for x in TYPES if x != t] + ['none']
            # a foreign value at each position of vectors of several lengths, on properties of several counts
            for n in ([1, 2, 3, 4, 8, 9, 16, 63, 64]):
                poss = range(n) if (n <= 16 or big) else sorted(set([0, 1, n // 2, n - 2, n - 1] + [rnd.randrange(n) for _ in range(6)]))
                for k in poss:
                    vs = [g.value(t, 0.2) for _ in range(n)]
                    vs[k] = g.value(rnd.choice(others))
                    old = rnd.choice([1, 2, n, n, 8, 12])
                    lines = ['new_vs ' + ' '.join(g.vec(t, old)), 'set %d %s' % (n, ' '.join(vs)), 'count', 'obs',
                             'reopen rw', 'obs']
                    cases.append(Case(lines, 'malformed-mixed'))
            # mixed vectors at creation
            for n, k in [(2, 1), (3, 2), (8, 4), (2, 0), (9, 8)]:
                vs = [g.value(t, 0.2) for _ in range(n)]
                vs[k] = g.value(rnd.choice(others))
                cases.append(Case(['new_vs %d %s' % (n, ' '.join(vs)), 'count', 'obs'], 'malformed-create'))
            # wrong type altogether, read-only writes
            o = rnd.choice([x for x in TYPES if x != t])
            cases.append(Case(['new_v ' + g.value(t), 'set ' + ' '.join(g.vec(o, 3)), 'obs', 'set 1 none', 'obs',
                               'reopen ro', 'set ' + ' '.join(g.vec(t, 2)), 'set 0', 'clear', 'clear_none', 'unit ' + hexs(b'mV'),
                               'unit ' + hexs(b''), 'unit_none', 'unc d:3ff0000000000000', 'unc_none', 'def ' + hexs(b'x'),
                               'def ' + hexs(b''), 'def_none', 'set ' + ' '.join(g.vec(o, 2)), 'obs', 'reopen rw', 'obs',
                               'set ' + ' '.join(g.vec(t, 2)), 'obs'], 'malformed-readonly'))
        cases.append(Case(['new_vs 0', 'obs', 'count', 'set 1 i32:1', 'clear', 'unit ' + hexs(b'V'), 'reopen rw', 'obs'], 'malformed-create'))
        cases.append(Case(['new_v none', 'obs', 'count'], 'malformed-create'))
        cases.append(Case(['new_vs 2 none none', 'obs'], 'malformed-create'))
        for t in UNHOLDABLE + UNSTORABLE:
            cases.append(Case(['new_t ' + t, 'count', 'set 1 i32:1', 'count'], 'malformed-type'))
            cases.append(Case(['new_t ' + t, 'count', 'clear', 'count', 'reopen rw', 'count'], 'malformed-type'))
        for t in UNHOLDABLE[:2]:
            cases.append(Case(['new_t ' + t, 'obs'], 'malformed-type'))
        return cases

    def extra_checks(self, ctx):
        import os
        ctx['ev']['model_variant'] = os.environ.get('C14_MODEL', 'repaired')
        # which public entry points the generated cases call, and how often (evidence only)
        cases = self.generate(ctx['seed'], ctx['tier'], 1)
        cmd, routes, hs = {}, {}, {}
        for c in cases:
            for l in c.lines:
                if l.startswith('@'):
                    hs[l[1]] = hs.get(l[1], 0) + 1
                    l = l.split(' ', 1)[1]
                else:
                    hs['c (default)'] = hs.get('c (default)', 0) + 1
                head = l.split(' ', 1)[0]
                base, _, rt = head.partition(':')
                cmd[base] = cmd.get(base, 0) + 1
                if base in ('set', 'new_v', 'new_vs', 'veq', 'vget', 'vgeto', 'vstr', 'vswap'):
                    routes[rt or 'direct'] = routes.get(rt or 'direct', 0) + 1
                if head == 'obs:alt':
                    cmd['obs:alt'] = cmd.get('obs:alt', 0) + 1
        ep = {'createProperty(name, DataType)': 'new_t', 'createProperty(name, Variant)': 'new_v', 'createProperty(name, vector<Variant>)': 'new_vs',
              'Property::values(vector)': 'set', 'deleteValues': 'clear', 'values(none)': 'clear_none', 'unit(string)': 'unit', 'unit(none)': 'unit_none',
              'uncertainty(double)': 'unc', 'uncertainty(none)': 'unc_none', 'definition(string)': 'def', 'definition(none)': 'def_none',
              'dataType/valueCount/values/unit/uncertainty/definition getters (get<T>())': 'obs',
              'the same read through Variant::get(T&) / get<const char*>': 'obs:alt', 'valueCount': 'count',
              'Property::compare': 'cmp', 'operator<<(Property)': 'pstr',
              'Variant operator== / != (and nix::Value == / !=)': 'veq', 'Variant::get<T>() incl. get<const char*>, get<none_t>': 'vget',
              'Variant::get(T&) incl. get(none_t&)': 'vgeto', 'operator<<(Variant) / operator<<(Value)': 'vstr',
              'Variant::supports_type / Value::supports_type': 'vsup', 'Variant::swap / nix::swap(Variant&, Variant&)': 'vswap'}
        ctx['ev']['entry_points'] = {k: cmd.get(v, 0) for k, v in ep.items()}
        ctx['ev']['variant_construction_routes'] = {
            'legend': {'direct': 'Variant(const T&)', 'cstr': 'Variant(const char*)', 'charptr': 'Variant(char*)',
                       'literal': 'Variant(const char (&)[N])', 'setlive': 'Variant() + set(T) / set(const std::string&)',
                       'setc': 'Variant() + set(const char*) / set(const char*, len)',
                       'retype': 'set() on a live Variant: String->String (realloc), String->other, other->String, none',
                       'copy': 'copy constructor', 'assign': 'operator=', 'move': 'move constructor + move assignment',
                       'swap': 'Variant::swap + nix::swap', 'value': 'nix::Value: constructors, copy, move, assignment, swap, set(none), get<T>'},
            'requests': routes}
        ctx['ev']['handle_routes'] = {'legend': {'c': 'the handle createProperty returned / first fetched after reopen', 'k': 'kept second handle by name',
                                                 'i': 'kept handle by id', 'f': 'fresh handle by name', 'x': 'fresh handle by index',
                                                 'l': 'fresh handle out of Section::properties()', 's': 'fresh handle through a fresh Section handle'},
                                      'lines': hs}
        ctx['ev']['entry_points_not_covered'] = ['decimal rendering of a double by operator<< (printed, not compared)',
                                                 'Property::compare of two properties with EMPTY names (cannot be created through the API)']
        return []

    # ---- reporting -------------------------------------------------------------------------------
    def signature(self, case, impl, spec):
        k = next((i for i, (a, b) in enumerate(zip(impl, spec)) if b != 'ANY' and not self.compare(a, b)), 0)
        tk = case.lines[k].split(' ')
        cmd = (tk[1] if tk[0].startswith('@') and len(tk) > 1 else tk[0]).split(':')[0]
        a = impl[k]
        if a.startswith('CRASH'):
            # which call chain dies: reading a never-written string / an unholdable type
            first = case.lines[0].split(' ')
            what = 'string-default' if 'null_pointer' in a else a[6:40]
            return {'defect': 'crash', 'what': what, 'create': first[0] + (' ' + first[1] if first[0] == 'new_t' else '')}
        if cmd.startswith('new_') and spec[k] == 'ERR':
            return {'defect': 'accepted', 'cmd': cmd, 'type-class': ('unholdable' if cmd == 'new_t' else 'value')}
        if cmd in ('obs', 'count'):
            prev = [[x for x in case.lines[i].split(' ') if not x.startswith('@')][0].split(':')[0] for i in range(k) if spec[i] == 'ERR']
            return {'defect': 'trace-after-rejected', 'cmd': prev[-1] if prev else '?'}
        return {'defect': 'other', 'cmd': cmd}

    def describe(self, case, impl, spec):
        k = next((i for i, (a, b) in enumerate(zip(impl, spec)) if b != 'ANY' and not self.compare(a, b)), 0)
        return ('line %d `%s`: implementation answers %r where the specification requires %r'
                % (k + 1, case.lines[k][:200], impl[k][:300], spec[k][:300]))


PROP = C14()
