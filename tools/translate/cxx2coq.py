"""clang JSON AST -> Gallina translator for the loop-free (or constant-trip-loop) leaf
functions of G-Node/nix.  See DESIGN.md section 3.1.

The output is the function's decision tree as one Gallina term:
  * `x = e; K`            |->  let x := e in K        (shadowing = assignment)
  * `if (c) A else B; K`   |->  let k := fun <assigned vars> => K in if c then A;k else B;k
  * `return e`             |->  Ok e   (or plain e for functions that cannot fail)
  * `throw T(...)`         |->  Err "T"
  * static_cast<ndsize_t>(double) |-> bind (toU64 e) ...   (UB outside the range)
  * `*opt`                 |->  bind (opt_deref opt) ...   (UB when empty)
  * `for (i = a; i < b; i++) S` with literal a, b |-> S unrolled
A construct outside the subset raises Unsupported: the check reports that as a broken
proof obligation (the function can no longer be translated), not as a crash.
"""
import json, subprocess, os, re, struct

KEYWORDS = {'fuel', 'fuel_', 'match', 'end', 'in', 'at', 'fix', 'as', 'with', 'let', 'fun', 'if', 'then', 'else', 'return',
            'forall', 'exists', 'Type', 'Prop', 'Set', 'where', 'struct', 'for', 'using', 'cofix', 'IF',
            'mod', 'left', 'right', 'length', 'bind', 'Ok', 'Err', 'UB', 'index_', 'first', 'second', 'pair'}


class Unsupported(Exception):
    pass


def cname(n):
    n = re.sub(r'[^A-Za-z0-9_]', '_', n)
    return n + '_' if n in KEYWORDS else n


CLANG_ARGS = ['-std=c++11', '-fsyntax-only', '-DH5_USE_110_API=1', '-DNIX_VERIF', '-w']


def ast_dump(src, filt, incs):
    cmd = ['clang++'] + CLANG_ARGS + incs + ['-Xclang', '-ast-dump=json', '-Xclang', '-ast-dump-filter=' + filt, src]
    r = subprocess.run(cmd, capture_output=True, text=True)
    if r.returncode != 0 and not r.stdout.strip():
        raise Unsupported('clang failed on %s: %s' % (src, r.stderr[-800:]))
    txt = r.stdout
    dec = json.JSONDecoder()
    i = 0
    docs = []
    while i < len(txt):
        while i < len(txt) and txt[i].isspace():
            i += 1
        if i >= len(txt):
            break
        d, j = dec.raw_decode(txt, i)
        docs.append(d)
        i = j
    return docs


OPNAME = {'operator==': 'op_eq', 'operator<': 'op_lt', 'operator[]': 'op_index', 'operator!=': 'op_ne',
          'operator>': 'op_gt', 'operator<=': 'op_le', 'operator>=': 'op_ge'}


def double_lit(v):
    """decimal literal text -> Gallina F64 term via the correctly rounded binary64 value"""
    f = float(v)
    if f == 0.0:
        return '(ofZ 0)'
    bits = struct.unpack('>Q', struct.pack('>d', f))[0]
    sign = bits >> 63
    ex = (bits >> 52) & 0x7ff
    man = bits & ((1 << 52) - 1)
    if ex == 0:
        m, e = man, -1074
    else:
        m, e = man | (1 << 52), ex - 1075
    while m % 2 == 0 and m:
        m //= 2
        e += 1
    if f == int(f) and abs(f) < 2 ** 53:
        return '(ofZ (%d))' % int(f)
    return '(ofME (%s%d) (%d))' % ('-' if sign else '', m, e)


class Ctx:
    def __init__(self, tr, fname, monadic, this_type=None):
        self.tr = tr
        self.fname = fname
        self.monadic = monadic
        self.types = {}     # local var -> coq type
        self.consts = {}    # unrolled loop variables -> int
        self.kcount = 0
        self.vcount = 0
        self.this_type = this_type
        self.scope = []      # lexically enclosing binders at the point of emission: (coq name, coq type)
        self.prelude = []    # lambda-lifted loops, emitted before the function

    def result_type(self):
        return 'res (%s)' % self.rty if self.monadic else self.rty

    def fresh(self, p):
        self.vcount += 1
        return '%s%d' % (p, self.vcount)


class Translator:
    def __init__(self, records=None):
        self.funcs = {}    # key -> dict(coq=name, monadic=bool, ret=type)
        self.records = records or {}
        self.enums = {}
        self.globals = {}
        self.ambient = {}        # identifiers (file-static objects, members of *this) that become parameters
        self.const_lookup = None
        self.funcs_pending = set()

    # ---------------------------------------------------------------- types
    def ctype(self, qt):
        q = qt.replace('const ', '').replace('&', '').replace('nix::', '').replace('std::', '').strip()
        q = re.sub(r'\s+', ' ', q)
        if q == 'double':
            return 'F64'
        if q == 'bool':
            return 'bool'
        if q == 'void':
            return 'unit'
        if q == 'char':
            return 'Z'
        if q in ('int', 'long', 'ssize_t'):
            return 'Z'
        if q in ('ndsize_t', 'unsigned long long', 'size_t', 'unsigned long', 'vector::size_type', 'size_type') or q.endswith('::size_type'):
            return 'Z'
        if q in self.enums:
            return q
        if q in ('hdf5::H5Group', 'H5Group', 'hdf5::LocID', 'LocID'):
            return 'attrs'
        if q in ('NDSize', 'NDSizeBase<ndsize_t>', 'NDSizeBase<unsigned long long>'):
            return 'list (Z)'
        if q in self.records:
            return q
        m = re.match(r'__gnu_cxx::__alloc_traits<allocator<(.*)>, (.*)>::value_type$', q)
        if m:
            return self.ctype(m.group(2))
        if '__normal_iterator<' in q or q.endswith('::iterator') or q.endswith('::const_iterator') or q.endswith('::difference_type'):
            return 'Z'
        m = re.match(r'boost::optional<(.*)>$', q)
        if m:
            return 'option (%s)' % self.ctype(m.group(1))
        m = re.match(r'pair<(.*), (.*)>$', q)
        if m:
            return '(%s * %s)' % (self.ctype(m.group(1)), self.ctype(m.group(2)))
        m = re.match(r'vector<(.*)>$', q)
        if m:
            return 'list (%s)' % self.ctype(m.group(1))
        if q in ('string', 'basic_string<char>'):
            return 'string'
        raise Unsupported('type ' + qt)

    @staticmethod
    def is_unsigned(qt):
        q = qt.replace('const ', '').replace('nix::', '').replace('std::', '').strip()
        return q in ('ndsize_t', 'unsigned long long', 'size_t', 'unsigned long', 'vector::size_type', 'size_type') or q.endswith('::size_type')

    # ---------------------------------------------------------------- enums / records
    def add_enum(self, decl):
        name = decl['name']
        items = [c['name'] for c in decl.get('inner', []) if c.get('kind') == 'EnumConstantDecl']
        self.enums[name] = items
        cons = ' | '.join('%s_%s' % (name, i) for i in items)
        beq = 'Definition %s_beq (a b : %s) : bool :=\n  match a, b with\n%s  | _, _ => false\n  end.\n' % (
            name, name, ''.join('  | %s_%s, %s_%s => true\n' % (name, i, name, i) for i in items))
        return 'Inductive %s : Set := %s.\n%s' % (name, cons, beq)

    def add_record(self, decl):
        name = decl['name']
        fields = [(c['name'], self.ctype(c['type']['qualType'])) for c in decl.get('inner', [])
                  if c.get('kind') == 'FieldDecl']
        self.records[name] = fields
        return 'Record %s : Set := Mk%s { %s }.\n' % (
            name, name, '; '.join('%s_%s : %s' % (name, f, t) for f, t in fields))

    # ---------------------------------------------------------------- purity
    def may_fail(self, node):
        """does the subtree contain a throw, a double->unsigned cast, an optional deref, or a call
        to a function already known as monadic?"""
        k = node.get('kind')
        if k == 'CXXThrowExpr' or k == 'WhileStmt':
            return True
        if k == 'CXXConstructExpr' and node.get('type', {}).get('qualType', '').replace('nix::', '') in self.records:
            a0 = [c for c in node.get('inner', []) if c.get('kind') != 'CXXDefaultArgExpr']
            if len(a0) == 1 and 'vector' in self.strip(a0[0]).get('type', {}).get('qualType', ''):
                return True
        if k == 'ImplicitCastExpr' and node.get('castKind') == 'FloatingToIntegral':
            return True
        if k in ('CXXOperatorCallExpr', 'CXXMemberCallExpr', 'CallExpr'):
            cal = self.callee(node)
            if cal is not None:
                if cal[0] in ('deref', 'ndidx', 'ndadd', 'itderef', 'vecidx'):
                    return True
                f = self.funcs.get(cal[1]) if cal[0] == 'fn' else None
                if f and f['monadic']:
                    return True
        for c in node.get('inner', []):
            if isinstance(c, dict) and c.get('kind') and self.may_fail(c):
                return True
        return False

    # ---------------------------------------------------------------- call classification
    def strip(self, n):
        while n.get('kind') in ('ImplicitCastExpr', 'ParenExpr', 'MaterializeTemporaryExpr', 'ExprWithCleanups',
                                'CXXBindTemporaryExpr', 'ConstantExpr', 'CXXFunctionalCastExpr') and \
                n.get('castKind') not in ('FloatingToIntegral', 'IntegralToFloating', 'UserDefinedConversion'):
            n = n['inner'][0]
        return n

    def callee(self, node):
        """-> ('fn', key, args) | ('deref', obj) | ('optbool', obj) | ('size', obj) | ('math', name, args)
              | ('assign', lhs, rhs) | ('epsilon',) | None"""
        k = node['kind']
        inner = node['inner']
        if k == 'CXXMemberCallExpr':
            me = self.strip(inner[0])
            if me.get('kind') != 'MemberExpr':
                return None
            nm = me['name']
            obj = me['inner'][0]
            if nm == 'operator bool' and self.is_ndsize(obj):
                return ('ndbool', obj)
            if nm == 'operator bool':
                return ('optbool', obj)
            so = self.strip(obj)
            if so.get('kind') == 'CXXThisExpr' and len(inner) == 1 and ('this_' + nm) in self.ambient:
                return ('ambientcall', 'this_' + nm)
            if so.get('kind') == 'MemberExpr' and self.strip(so['inner'][0]).get('kind') == 'CXXThisExpr' and len(inner) == 1 and \
                    (so['name'] + '_' + nm) in self.ambient:
                return ('ambientcall', so['name'] + '_' + nm)
            if so.get('kind') == 'DeclRefExpr' and len(inner) == 1 and \
                    (so['referencedDecl']['name'] + '_' + nm) in self.ambient:
                return ('ambientcall', so['referencedDecl']['name'] + '_' + nm)
            if nm == 'hasAttr' and len(inner) == 2:
                return ('hasattr', obj, inner[1])
            if nm == 'getAttr' and len(inner) == 3:
                return ('getattr', obj, inner[1], inner[2])
            if nm == 'resize' and len(inner) == 2 and self.is_vector(obj):
                return ('vecresize', obj, inner[1])
            if nm in ('begin', 'cbegin') and len(inner) == 1:
                return ('itbegin', obj)
            if nm in ('end', 'cend') and len(inner) == 1:
                return ('itend', obj)
            if nm == 'size' or nm == 'length':
                return ('size', obj)
            if nm == 'empty':
                return ('empty', obj)
            if nm == 'find' and self.is_string(obj):
                return ('find', obj, inner[1])
            oq = self.strip(obj)
            rec = self.rec_of(oq)
            if rec:
                key = rec + '::' + nm
                return ('fn', key, [obj] + inner[1:])
            return None
        if k == 'CXXOperatorCallExpr':
            ref = self.strip(inner[0])
            nm = ref.get('referencedDecl', {}).get('name', '')
            args = inner[1:]
            if args and self.is_iter(args[0]):
                if nm == 'operator*':
                    return ('itderef', args[0])
                if nm in ('operator-', 'operator+', 'operator<', 'operator<=', 'operator>', 'operator>=', 'operator==', 'operator!=') and len(args) == 2:
                    return ('itop', nm[8:], args[0], args[1])
            if nm == 'operator*':
                return ('deref', args[0])
            if nm == 'operator!' and self.is_optional(args[0]):
                return ('optnot', args[0])
            if nm == 'operator[]' and self.is_string(args[0]):
                return ('stridx', args[0], args[1])
            if nm == 'operator[]' and self.is_ndsize(args[0]):
                return ('ndidx', args[0], args[1])
            if nm == 'operator[]' and self.is_vector(args[0]):
                return ('vecidx', args[0], args[1])
            if nm == 'operator+' and len(args) == 2 and self.is_ndsize(args[0]) and self.is_ndsize(args[1]):
                return ('ndadd', args[0], args[1])
            if len(args) == 2 and self.is_ndsize(args[0]) and self.is_ndsize(args[1]) and nm in self.funcs_pending:
                return ('fn', nm, args)
            def strish(a):
                return self.is_string(a) or self.strip(a).get('kind') == 'StringLiteral'
            if nm in ('operator==', 'operator!=') and len(args) == 2 and strish(args[0]) and strish(args[1]) and \
                    (self.is_string(args[0]) or self.is_string(args[1])):
                return ('streq', args[0], args[1], nm == 'operator!=')
            if nm == 'operator=':
                return ('assign', args[0], args[1])
            rec = self.rec_of(self.strip(args[0]))
            if rec and (rec + '::' + nm) in self.funcs_pending:
                return ('fn', rec + '::' + nm, args)
            if nm == 'operator bool':
                return ('optbool', args[0])
            return None
        if k == 'CallExpr':
            ref = self.strip(inner[0])
            nm = ref.get('referencedDecl', {}).get('name', '')
            if nm in ('ceil', 'floor', 'round', 'fabs'):
                return ('math', nm, inner[1:])
            if nm == 'min' and len(inner) == 3:
                return ('zmin', inner[1], inner[2])
            if nm == 'prev' and len(inner) >= 2 and self.is_iter(inner[1]):
                extra = [a for a in inner[2:] if a.get('kind') != 'CXXDefaultArgExpr']
                if extra:
                    raise Unsupported('std::prev with a distance')
                return ('itprev', inner[1])
            if nm == 'lower_bound' and len(inner) == 4:
                return ('lower_bound', inner[1], inner[2], inner[3])
            if nm == 'epsilon':
                return ('epsilon',)
            if nm in self.funcs_pending:
                return ('fn', nm, inner[1:])
            return None
        return None

    def rec_of(self, n):
        qt = n.get('type', {}).get('qualType', '')
        q = qt.replace('const ', '').replace('&', '').replace('nix::', '').replace('*', '').strip()
        return q if q in self.records else None

    # ---------------------------------------------------------------- expressions
    def expr(self, n, cx):
        """-> (binds, term); binds = list of (var, monadic term)"""
        k = n['kind']
        inner = n.get('inner', [])
        if k in ('ParenExpr', 'MaterializeTemporaryExpr', 'ExprWithCleanups', 'CXXBindTemporaryExpr', 'ConstantExpr'):
            b, t = self.expr(inner[0], cx)
            return b, t
        if k == 'ImplicitCastExpr' or k == 'CXXStaticCastExpr' or k == 'CXXFunctionalCastExpr':
            ck = n.get('castKind')
            if ck in ('LValueToRValue', 'NoOp', 'FunctionToPointerDecay', 'ConstructorConversion', 'ArrayToPointerDecay',
                      'UncheckedDerivedToBase', 'DerivedToBase'):
                return self.expr(inner[0], cx)
            if ck == 'IntegralCast':
                b, t = self.expr(inner[0], cx)
                src_unsigned = self.is_unsigned(inner[0]['type']['qualType'])
                dst_unsigned = self.is_unsigned(n['type']['qualType'])
                if dst_unsigned and not src_unsigned:
                    lit = self.strip(inner[0])
                    if lit.get('kind') == 'IntegerLiteral' and int(lit['value']) >= 0:
                        return b, t
                    return b, '(u64_wrap %s)' % t
                return b, t
            if ck == 'IntegralToFloating':
                b, t = self.expr(inner[0], cx)
                return b, '(ofZ %s)' % t
            if ck == 'FloatingToIntegral':
                if not self.is_unsigned(n['type']['qualType']):
                    raise Unsupported('double -> signed integer cast')
                b, t = self.expr(inner[0], cx)
                v = cx.fresh('cast')
                return b + [(v, '(toU64 %s)' % t)], v
            if ck == 'UserDefinedConversion':
                return self.expr(inner[0], cx)
            if ck == 'FloatingCast':
                return self.expr(inner[0], cx)
            raise Unsupported('cast kind %s' % ck)
        if k == 'IntegerLiteral':
            return [], '(%s)' % n['value']
        if k == 'FloatingLiteral':
            return [], double_lit(n['value'])
        if k == 'CharacterLiteral':
            return [], '(%s)' % n['value']
        if k == 'StringLiteral':
            return [], '(' + n['value'] + '%string)'
        if k == 'CXXBoolLiteralExpr':
            return [], 'true' if n['value'] else 'false'
        if k in ('CXXTemporaryObjectExpr', 'CXXConstructExpr') and 'pair<' in n.get('type', {}).get('qualType', '') and len(inner) == 2:
            b1, t1 = self.expr(inner[0], cx)
            b2, t2 = self.expr(inner[1], cx)
            return b1 + b2, '(%s, %s)' % (t1, t2)
        if k == 'CXXThisExpr':
            return [], 'this_'
        if k == 'DeclRefExpr':
            ref = n['referencedDecl']
            nm = ref['name']
            if ref.get('kind') == 'EnumConstantDecl':
                en = n['type']['qualType'].replace('nix::', '').replace('const ', '').strip()
                return [], '%s_%s' % (en, nm)
            if nm in cx.consts:
                return [], '(%d)' % cx.consts[nm]
            if nm == 'none':
                return [], 'None'
            if nm not in cx.types:
                if nm in self.ambient:
                    return [], cname(nm)
                return [], self.global_const(nm, n['type']['qualType'])
            return [], cname(nm)
        if k == 'MemberExpr' and self.strip(inner[0]).get('kind') == 'CXXThisExpr' and n.get('name') in self.ambient:
            return [], cname(n['name'])
        if k == 'MemberExpr':
            obj = inner[0]
            rec = self.rec_of(self.strip(obj))
            if rec and any(f == n['name'] for f, _ in self.records[rec]):
                b, t = self.expr(obj, cx)
                return b, '(%s_%s %s)' % (rec, n['name'], t)
            raise Unsupported('member ' + n.get('name', '?'))
        if k == 'UnaryOperator':
            op = n['opcode']
            if op == '*' and self.strip(inner[0]).get('kind') == 'CXXThisExpr':
                return [], 'this_'
            b, t = self.expr(inner[0], cx)
            if op == '!':
                if 'optional' in inner[0].get('type', {}).get('qualType', '') or self.is_optional(inner[0]):
                    return b, '(negb (opt_is_some %s))' % t
                return b, '(negb %s)' % t
            if op == '-':
                ty = self.ctype(n['type']['qualType'])
                return b, ('(fneg %s)' % t if ty == 'F64' else '(- %s)' % t)
            raise Unsupported('unary ' + op)
        if k == 'BinaryOperator':
            return self.binop(n, cx)
        if k == 'ConditionalOperator':
            bc, c = self.expr(inner[0], cx)
            ba, a = self.expr(inner[1], cx)
            bb, bt = self.expr(inner[2], cx)
            if not ba and not bb:
                return bc, '(if %s then %s else %s)' % (c, a, bt)
            v = cx.fresh('sel')
            return bc + [(v, '(if %s then %s else %s)' % (c, self.wrap(ba, 'Ok ' + a), self.wrap(bb, 'Ok ' + bt)))], v
        if k in ('CallExpr', 'CXXMemberCallExpr', 'CXXOperatorCallExpr'):
            cal = self.callee(n)
            if cal is None:
                raise Unsupported('call in %s: %s' % (cx.fname, json.dumps(n)[:300]))
            if cal[0] == 'math':
                b, t = self.expr(cal[2][0], cx)
                return b, '(%s %s)' % ({'ceil': 'fceil', 'floor': 'ffloor', 'round': 'fround', 'fabs': 'fabs'}[cal[1]], t)
            if cal[0] == 'epsilon':
                return [], 'f64_epsilon'
            if cal[0] == 'optbool':
                b, t = self.expr(cal[1], cx)
                return b, '(opt_is_some %s)' % t
            if cal[0] == 'ambientcall':
                return [], cname(cal[1])
            if cal[0] == 'vecidx':
                b1, t1 = self.expr(cal[1], cx)
                b2, t2 = self.expr(cal[2], cx)
                v = cx.fresh('el')
                return b1 + b2 + [(v, '(vec_get %s %s)' % (t1, t2))], v
            if cal[0] == 'zmin':
                b1, t1 = self.expr(cal[1], cx)
                b2, t2 = self.expr(cal[2], cx)
                return b1 + b2, '(Z.min %s %s)' % (t1, t2)
            if cal[0] == 'itbegin':
                cx.iter_of = cal[1]
                return [], '(0)'
            if cal[0] == 'itend':
                cx.iter_of = cal[1]
                b, t = self.expr(cal[1], cx)
                return b, '(zlen %s)' % t
            if cal[0] == 'itprev':
                b, t = self.expr(cal[1], cx)
                return b, '(Z.sub %s 1)' % t
            if cal[0] == 'itderef':
                vec = self.iter_vec(cal[1])
                if vec is None:
                    vec = getattr(cx, 'iter_of', None)
                if vec is None:
                    raise Unsupported('dereference of an iterator over an unknown vector')
                bv, tv = self.expr(vec, cx)
                b, t = self.expr(cal[1], cx)
                v = cx.fresh('it')
                return bv + b + [(v, '(iter_deref %s %s)' % (tv, t))], v
            if cal[0] == 'itop':
                b1, t1 = self.expr(cal[2], cx)
                b2, t2 = self.expr(cal[3], cx)
                fn = {'-': 'Z.sub', '+': 'Z.add', '<': 'Z.ltb', '<=': 'Z.leb', '>': 'Z.gtb', '>=': 'Z.geb', '==': 'Z.eqb'}.get(cal[1])
                if cal[1] == '!=':
                    return b1 + b2, '(negb (Z.eqb %s %s))' % (t1, t2)
                return b1 + b2, '(%s %s %s)' % (fn, t1, t2)
            if cal[0] == 'lower_bound':
                def unwrap(x):
                    x = self.strip(x)
                    while x.get('kind') == 'CXXConstructExpr' and len(x.get('inner', [])) == 1:
                        x = self.strip(x['inner'][0])
                    return x
                ub, ue = unwrap(cal[1]), unwrap(cal[2])
                fb = self.callee(ub) if ub.get('kind') == 'CXXMemberCallExpr' else None
                fe = self.callee(ue) if ue.get('kind') == 'CXXMemberCallExpr' else None
                if not fb or not fe or fb[0] != 'itbegin' or fe[0] != 'itend':
                    raise Unsupported('std::lower_bound over anything but [begin(), end())')
                cx.iter_of = fb[1]
                bv, tv = self.expr(fb[1], cx)
                bx, tx = self.expr(cal[3], cx)
                return bv + bx, '(lower_bound %s %s)' % (tv, tx)
            if cal[0] == 'ndbool':
                b, t = self.expr(cal[1], cx)
                return b, '(Z.ltb 0 (zlen %s))' % t
            if cal[0] == 'ndadd':
                b1, t1 = self.expr(cal[1], cx)
                b2, t2 = self.expr(cal[2], cx)
                v = cx.fresh('nd')
                return b1 + b2 + [(v, '(nd_add %s %s)' % (t1, t2))], v
            if cal[0] == 'ndidx':
                b1, t1 = self.expr(cal[1], cx)
                b2, t2 = self.expr(cal[2], cx)
                v = cx.fresh('nd')
                return b1 + b2 + [(v, '(nd_get %s %s)' % (t1, t2))], v
            if cal[0] == 'hasattr':
                b1, t1 = self.expr(cal[1], cx)
                b2, t2 = self.expr(cal[2], cx)
                return b1 + b2, '(attr_has %s %s)' % (t1, t2)
            if cal[0] == 'getattr':
                b1, t1 = self.expr(cal[1], cx)
                b2, t2 = self.expr(cal[2], cx)
                tgt = self.strip(cal[3])
                if tgt.get('kind') != 'DeclRefExpr':
                    raise Unsupported('getAttr output argument')
                var = tgt['referencedDecl']['name']
                ty = cx.types.get(var)
                fn = {'string': 'getattr_string', 'list (Z)': 'getattr_ints'}.get(ty)
                if fn is None:
                    raise Unsupported('getAttr into ' + str(ty))
                v = cx.fresh('ga')
                return b1 + b2 + [('let:' + v, '(%s %s %s %s)' % (fn, t1, t2, cname(var))),
                                  ('let:' + cname(var), '(snd %s)' % v)], '(fst %s)' % v
            if cal[0] == 'streq':
                b1, t1 = self.expr(cal[1], cx)
                b2, t2 = self.expr(cal[2], cx)
                e = '(String.eqb %s %s)' % (t1, t2)
                return b1 + b2, ('(negb %s)' % e if cal[3] else e)
            if cal[0] == 'optnot':
                b, t = self.expr(cal[1], cx)
                return b, '(negb (opt_is_some %s))' % t
            if cal[0] == 'size':
                b, t = self.expr(cal[1], cx)
                return b, ('(str_len %s)' if self.is_string(cal[1]) else '(zlen %s)') % t
            if cal[0] == 'empty':
                b, t = self.expr(cal[1], cx)
                return b, ('(Z.eqb (str_len %s) 0)' if self.is_string(cal[1]) else '(Z.eqb (zlen %s) 0)') % t
            if cal[0] == 'stridx':
                b1, t1 = self.expr(cal[1], cx)
                b2, t2 = self.expr(cal[2], cx)
                return b1 + b2, '(str_at %s %s)' % (t1, t2)
            if cal[0] == 'find':
                raise Unsupported('std::string::find outside a comparison with npos')
            if cal[0] == 'deref':
                b, t = self.expr(cal[1], cx)
                v = cx.fresh('deref')
                return b + [(v, '(opt_deref %s)' % t)], v
            if cal[0] == 'fn':
                f = self.funcs.get(cal[1])
                if f is None:
                    raise Unsupported('call to untranslated %s' % cal[1])
                bs = []
                ts = []
                for a in cal[2]:
                    b, t = self.expr(a, cx)
                    bs += b
                    ts.append(t)
                call = '(%s %s)' % (f['coq'], ' '.join(ts))
                if f['monadic']:
                    v = cx.fresh('call')
                    return bs + [(v, call)], v
                return bs, call
            raise Unsupported('call kind ' + cal[0])
        if k == 'CXXDefaultArgExpr':
            raise Unsupported('default argument in expression position')
        if k == 'CXXStdInitializerListExpr' or k == 'InitListExpr':
            items = inner[0]['inner'] if k == 'CXXStdInitializerListExpr' and self.strip(inner[0]).get('kind') != 'InitListExpr' else None
            lst = self.strip(inner[0]) if k == 'CXXStdInitializerListExpr' else n
            ts = []
            bs = []
            for it in lst.get('inner', []):
                b, t = self.expr(it, cx)
                bs += b
                ts.append(t)
            return bs, '[%s]' % '; '.join(ts)
        if k == 'CXXConstructExpr':
            qt = n['type']['qualType']
            q0 = qt.replace('const ', '').replace('nix::', '').strip()
            if q0 in ('std::string', 'string', 'std::basic_string<char>') :
                args0 = [c for c in inner if c.get('kind') != 'CXXDefaultArgExpr']
                if not args0:
                    return [], '""%string'
                return self.expr(args0[0], cx)
            if q0.startswith('vector<') or q0.startswith('std::vector<'):
                if not inner:
                    return [], '[]'
            if q0 in self.records:
                args0 = [c for c in inner if c.get('kind') != 'CXXDefaultArgExpr']
                if len(args0) == 1:
                    a0 = self.strip(args0[0])
                    aq = a0.get('type', {}).get('qualType', '')
                    if a0.get('kind') in ('CXXStdInitializerListExpr', 'InitListExpr'):
                        b, t = self.expr(a0, cx)
                        items = t.strip('[]').split('; ')
                        if len(items) == len(self.records[q0]):
                            return b, '(Mk%s %s)' % (q0, ' '.join(items))
                        raise Unsupported('initializer list length for ' + q0)
                    if 'vector' in aq:
                        b, t = self.expr(args0[0], cx)
                        v = cx.fresh('ctor')
                        return b + [(v, '(%s_of_vector %s)' % (q0, t))], v
                    if aq.replace('const ', '').replace('nix::', '').replace('&', '').strip() == q0:
                        return self.expr(args0[0], cx)
            if 'optional' in qt:
                if not inner:
                    return [], 'None'
                src = self.strip(inner[0])
                sq = src.get('type', {}).get('qualType', '')
                b, t = self.expr(inner[0], cx)
                if 'optional' in sq:
                    return b, t
                if 'none_t' in sq:
                    return b, 'None'
                return b, '(Some %s)' % t
            if 'pair' in qt and len(inner) == 2:
                b1, t1 = self.expr(inner[0], cx)
                b2, t2 = self.expr(inner[1], cx)
                return b1 + b2, '(%s, %s)' % (t1, t2)
            if 'none_t' in qt:
                return [], 'None'
            if len(inner) == 1:
                return self.expr(inner[0], cx)
            raise Unsupported('construct ' + qt)
        raise Unsupported('expression kind %s in %s' % (k, cx.fname))

    def global_const(self, nm, qt):
        """a namespace-scope constant with a literal initialiser"""
        if nm in self.globals:
            return self.globals[nm]
        if self.const_lookup is None:
            raise Unsupported('unknown identifier ' + nm)
        d = self.const_lookup(nm)
        if d is None:
            raise Unsupported('unknown identifier ' + nm)
        init = [c for c in d.get('inner', []) if c.get('kind')]
        if not init or 'const' not in d['type']['qualType']:
            raise Unsupported('identifier %s is not a constant with an initialiser' % nm)
        lit = self.strip(init[0])
        ty = self.ctype(d['type']['qualType'])
        if lit.get('kind') == 'IntegerLiteral':
            t = '(ofZ (%s))' % lit['value'] if ty == 'F64' else '(%s)' % lit['value']
        elif lit.get('kind') == 'FloatingLiteral' and ty == 'F64':
            t = double_lit(lit['value'])
        else:
            raise Unsupported('initialiser of constant ' + nm)
        self.globals[nm] = t
        return t

    def is_vector(self, n):
        q = self.strip(n).get('type', {}).get('qualType', '').replace('const ', '').replace('std::', '').strip()
        return q.startswith('vector<')

    def is_iter(self, n):
        q = self.strip(n).get('type', {}).get('qualType', '')
        return '__normal_iterator<' in q or q.replace('const ', '').strip().endswith('::iterator')

    def iter_vec(self, n):
        """the vector expression an iterator-valued expression walks over (begin()/end() of exactly one vector
        per function are supported); None when it cannot be told from the expression itself"""
        n = self.strip(n)
        if n.get('kind') == 'CXXMemberCallExpr':
            me = self.strip(n['inner'][0])
            if me.get('kind') == 'MemberExpr' and me.get('name') in ('begin', 'end', 'cbegin', 'cend'):
                return me['inner'][0]
        for c in n.get('inner', []) or []:
            if isinstance(c, dict):
                r = self.iter_vec(c)
                if r is not None:
                    return r
        return None

    def is_ndsize(self, n):
        q = self.strip(n).get('type', {}).get('qualType', '').replace('const ', '').replace('&', '').replace('nix::', '').strip()
        return q in ('NDSize', 'NDSizeBase<ndsize_t>', 'NDSizeBase<unsigned long long>')

    def is_string(self, n):
        sn = self.strip(n)
        q = sn.get('type', {}).get('qualType', '').replace('const ', '').replace('&', '').strip()
        if q in ('std::string', 'std::basic_string<char>', 'string', 'basic_string<char>'):
            return True
        # an element of a vector<string> (its type is spelled through allocator traits)
        if sn.get('kind') == 'CXXOperatorCallExpr' and len(sn.get('inner', [])) == 3:
            ref = self.strip(sn['inner'][0])
            if ref.get('referencedDecl', {}).get('name') == 'operator[]':
                vq = self.strip(sn['inner'][1]).get('type', {}).get('qualType', '')
                return 'vector<' in vq and ('string' in vq)
        return False

    def is_optional(self, n):
        return 'optional' in self.strip(n).get('type', {}).get('qualType', '')

    def wrap(self, binds, body):
        out = body
        for v, m in reversed(binds):
            if v.startswith('let:'):
                out = 'let %s := %s in %s' % (v[4:], m, out)
            else:
                out = 'bind %s (fun %s => %s)' % (m, v, out)
        return '(%s)' % out

    def binop(self, n, cx):
        op = n['opcode']
        l, r = n['inner']
        if op in ('&&', '||'):
            bl, tl = self.expr(l, cx)
            br, tr = self.expr(r, cx)
            if not br:
                return bl, '(%s %s %s)' % (tl, op, tr)
            v = cx.fresh('sc')
            if op == '&&':
                m = '(if %s then %s else Ok false)' % (tl, self.wrap(br, 'Ok ' + tr))
            else:
                m = '(if %s then Ok true else %s)' % (tl, self.wrap(br, 'Ok ' + tr))
            return bl + [(v, m)], v
        if op in ('==', '!='):
            for a, o in ((l, r), (r, l)):
                sa = self.strip(a)
                so = self.strip(o)
                if sa.get('kind') == 'CXXMemberCallExpr' and so.get('kind') == 'DeclRefExpr' and \
                        so.get('referencedDecl', {}).get('name') == 'npos':
                    cal = self.callee(sa)
                    if cal and cal[0] == 'find':
                        b1, t1 = self.expr(cal[1], cx)
                        b2, t2 = self.expr(cal[2], cx)
                        e = '(str_contains %s %s)' % (t1, t2)
                        return b1 + b2, ('(negb %s)' % e if op == '==' else e)
        bl, tl = self.expr(l, cx)
        br, tr = self.expr(r, cx)
        lt = self.ctype(l['type']['qualType'])
        b = bl + br
        if op in ('<', '<=', '>', '>=', '==', '!='):
            if lt == 'F64':
                f = {'<': 'flt', '<=': 'fle', '>': 'fgt', '>=': 'fge', '==': 'feq', '!=': 'fne'}[op]
                return b, '(%s %s %s)' % (f, tl, tr)
            if lt == 'Z':
                f = {'<': 'Z.ltb', '<=': 'Z.leb', '>': 'Z.gtb', '>=': 'Z.geb', '==': 'Z.eqb'}.get(op)
                if op == '!=':
                    return b, '(negb (Z.eqb %s %s))' % (tl, tr)
                return b, '(%s %s %s)' % (f, tl, tr)
            if lt in self.enums:
                e = '(%s_beq %s %s)' % (lt, tl, tr)
                if op == '==':
                    return b, e
                if op == '!=':
                    return b, '(negb %s)' % e
            if lt == 'bool' and op in ('==', '!='):
                e = '(Bool.eqb %s %s)' % (tl, tr)
                return b, e if op == '==' else '(negb %s)' % e
            raise Unsupported('comparison on ' + lt)
        if op in ('+', '-', '*', '/'):
            ty = self.ctype(n['type']['qualType'])
            if ty == 'F64':
                f = {'+': 'fadd', '-': 'fsub', '*': 'fmul', '/': 'fdiv'}[op]
                return b, '(%s %s %s)' % (f, tl, tr)
            if ty == 'Z' and self.is_unsigned(n['type']['qualType']) and op != '/':
                f = {'+': 'u64_add', '-': 'u64_sub', '*': 'u64_mul'}[op]
                return b, '(%s %s %s)' % (f, tl, tr)
            if ty == 'Z' and self.is_unsigned(n['type']['qualType']) and op == '/':
                lit = self.strip(r)
                if lit.get('kind') == 'IntegerLiteral' and int(lit['value']) > 0:
                    return b, '(Z.div %s %s)' % (tl, tr)
                raise Unsupported('division by a non-literal')
            raise Unsupported('arithmetic %s on %s' % (op, n['type']['qualType']))
        raise Unsupported('binary operator ' + op)

    # ---------------------------------------------------------------- statements
    def assigned(self, n, acc):
        k = n.get('kind')
        if k == 'BinaryOperator' and n.get('opcode') == '=':
            t = self.strip(n['inner'][0])
            if t.get('kind') == 'DeclRefExpr':
                acc.add(t['referencedDecl']['name'])
            if t.get('kind') == 'CXXOperatorCallExpr':
                c0 = self.callee(t)
                if c0 and c0[0] == 'vecidx' and self.strip(c0[1]).get('kind') == 'DeclRefExpr':
                    acc.add(self.strip(c0[1])['referencedDecl']['name'])
        if k == 'CXXMemberCallExpr':
            c0 = self.callee(n)
            if c0 and c0[0] == 'vecresize' and self.strip(c0[1]).get('kind') == 'DeclRefExpr':
                acc.add(self.strip(c0[1])['referencedDecl']['name'])
        if k == 'CXXOperatorCallExpr':
            cal = self.callee(n)
            if cal and cal[0] == 'assign':
                t = self.strip(cal[1])
                if t.get('kind') == 'DeclRefExpr':
                    acc.add(t['referencedDecl']['name'])
                if t.get('kind') == 'MemberExpr' and t.get('name') in self.ambient:
                    acc.add(t['name'])
        if k == 'UnaryOperator' and n.get('opcode') in ('++', '--') or k == 'CompoundAssignOperator':
            t = self.strip(n['inner'][0])
            if t.get('kind') == 'DeclRefExpr':
                acc.add(t['referencedDecl']['name'])
        if k == 'CXXMemberCallExpr':
            cal = self.callee(n)
            if cal and cal[0] == 'getattr':
                t = self.strip(cal[3])
                if t.get('kind') == 'DeclRefExpr':
                    acc.add(t['referencedDecl']['name'])
        for c in n.get('inner', []):
            if isinstance(c, dict) and c.get('kind'):
                self.assigned(c, acc)
        return acc

    def always_exits(self, n):
        k = n.get('kind')
        if k == 'ReturnStmt' or k == 'CXXThrowExpr':
            return True
        if k == 'ExprWithCleanups':
            return self.always_exits(n['inner'][0])
        if k == 'CompoundStmt':
            return any(self.always_exits(c) for c in n.get('inner', []))
        if k == 'IfStmt':
            inner = n['inner']
            return len(inner) == 3 and self.always_exits(inner[1]) and self.always_exits(inner[2])
        if k == 'SwitchStmt':
            body = n['inner'][-1]
            return any(c.get('kind') == 'DefaultStmt' for c in body.get('inner', [])) and \
                all(self.always_exits(c['inner'][-1]) for c in body.get('inner', []))
        return False

    def ret(self, term, cx):
        return ('Ok %s' % term) if cx.monadic else term

    def stmts(self, lst, cx, cont):
        """translate statement list followed by continuation `cont` (None = falls off the end)"""
        if not lst:
            if cont is None:
                if getattr(cx, 'out_params', None):
                    return self.ret('(%s)' % ', '.join(cname(o) for o in cx.out_params), cx)
                if cx.rty == 'unit':
                    return self.ret('tt', cx)
                raise Unsupported('control reaches end of %s without return' % cx.fname)
            return cont()
        s, rest = lst[0], lst[1:]
        k = s['kind']
        nxt = lambda: self.stmts(rest, cx, cont)
        if k == 'CompoundStmt':
            return self.stmts(list(s.get('inner', [])) + rest, cx, cont) if True else None
        if k == 'NullStmt':
            return nxt()
        if k == 'CXXOperatorCallExpr' and 'ostream' in s.get('type', {}).get('qualType', ''):
            return nxt()           # text appended to a message stream: no effect on the decision
        if k == 'DeclStmt':
            out_open = []
            for d in s['inner']:
                if d['kind'] != 'VarDecl':
                    raise Unsupported('declaration ' + d['kind'])
                if 'stringstream' in d['type']['qualType']:
                    continue
                nm = d['name']
                ty = self.ctype(d['type']['qualType'])
                cx.types[nm] = ty
                init = [c for c in d.get('inner', []) if c.get('kind')]
                if init:
                    b, t = self.expr(init[0], cx)
                else:
                    b, t = [], {'F64': '(ofZ 0)', 'Z': '0', 'bool': 'false', 'string': '""%string'}.get(
                        ty, 'None' if ty.startswith('option') else '[]' if ty.startswith('list') else None)
                    if t is None:
                        raise Unsupported('uninitialised ' + ty)
                out_open.append((b, cname(nm), ty, t))
            depth = len(cx.scope)
            for b, nm, ty, t in out_open:
                cx.scope.append((nm, ty))
            body = nxt()
            del cx.scope[depth:]
            for b, nm, ty, t in reversed(out_open):
                body = self.emit_binds(b, 'let %s : %s := %s in\n%s' % (nm, ty, t, body), cx)
            return body
        if k == 'ReturnStmt':
            b, t = self.expr(s['inner'][0], cx)
            return self.emit_binds(b, self.ret(t, cx), cx)
        if k in ('ExprWithCleanups',):
            return self.stmts([s['inner'][0]] + rest, cx, cont)
        if k == 'CXXThrowExpr':
            if not cx.monadic:
                raise Unsupported('throw in pure function')
            qt = s['inner'][0]['type']['qualType'] if s.get('inner') else 'exception'
            return 'Err "%s"' % qt.replace('const ', '')
        if k == 'BinaryOperator' and s.get('opcode') == '=' and self.strip(s['inner'][0]).get('kind') == 'CXXOperatorCallExpr':
            c0 = self.callee(self.strip(s['inner'][0]))
            if not c0 or c0[0] != 'vecidx' or self.strip(c0[1]).get('kind') != 'DeclRefExpr':
                raise Unsupported('assignment target')
            nm = self.strip(c0[1])['referencedDecl']['name']
            bi, ti = self.expr(c0[2], cx)
            b, t = self.expr(s['inner'][1], cx)
            v = cx.fresh('vs')
            return self.emit_binds(bi + b + [(v, '(vec_set %s %s %s)' % (cname(nm), ti, t))],
                                   'let %s : %s := %s in\n%s' % (cname(nm), cx.types[nm], v, nxt()), cx)
        if k == 'CXXMemberCallExpr' and self.callee(s) and self.callee(s)[0] == 'vecresize':
            c0 = self.callee(s)
            tgt = self.strip(c0[1])
            if tgt.get('kind') != 'DeclRefExpr':
                raise Unsupported('resize target')
            nm = tgt['referencedDecl']['name']
            b, t = self.expr(c0[2], cx)
            return self.emit_binds(b, 'let %s : %s := (vec_resize %s %s) in\n%s' % (cname(nm), cx.types[nm], cname(nm), t, nxt()), cx)
        if k == 'CXXTryStmt':
            # try { <statements> } catch (...) { throw E(...); }: every exception raised inside becomes E
            body_, handlers = s['inner'][0], s['inner'][1:]
            if len(handlers) != 1:
                raise Unsupported('try with several handlers')
            hb = [c for c in handlers[0].get('inner', []) if c.get('kind') == 'CompoundStmt']
            hs = hb[0].get('inner', []) if hb else []
            thr = self.strip(hs[0]) if len(hs) == 1 else {}
            if thr.get('kind') == 'ExprWithCleanups':
                thr = thr['inner'][0]
            if thr.get('kind') != 'CXXThrowExpr' or not thr.get('inner'):
                raise Unsupported('catch handler that is not a single throw')
            exc = thr['inner'][0]['type']['qualType'].replace('const ', '')
            av = sorted(v for v in self.assigned(body_, set()) if v in cx.types)
            cx.kcount += 1
            kn = 'k%d' % cx.kcount
            params = ' '.join('(%s : %s)' % (cname(v), cx.types[v]) for v in av) or '(_ : unit)'
            tup = ('(%s)' % ', '.join(cname(v) for v in av)) if len(av) != 1 else cname(av[0])
            tupty = ' * '.join(cx.types[v] for v in av) if av else 'unit'
            if not av:
                tup = 'tt'
            # the protected block as a computation of the assigned variables
            saved = cx.rty
            inner_term = self.stmts(list(body_.get('inner', [])), cx, lambda: 'Ok %s' % tup)
            pat = tup if len(av) <= 1 else "'" + tup
            return ('bind (catch_all (%s) "%s") (fun %s =>\n%s)' % (inner_term, exc, ('r_' + kn),
                    ('let %s := r_%s in\n' % (pat, kn) if av else '') + nxt()))
        if k == 'BinaryOperator' and s.get('opcode') == '=':
            tgt = self.strip(s['inner'][0])
            if tgt.get('kind') != 'DeclRefExpr':
                raise Unsupported('assignment target')
            nm = tgt['referencedDecl']['name']
            b, t = self.expr(s['inner'][1], cx)
            return self.emit_binds(b, 'let %s : %s := %s in\n%s' % (cname(nm), cx.types[nm], t, nxt()), cx)
        if k in ('CallExpr', 'CXXMemberCallExpr') and self.callee(s) and self.callee(s)[0] == 'fn':
            b, t = self.expr(s, cx)
            return self.emit_binds(b, nxt(), cx)
        if k == 'CXXOperatorCallExpr':
            cal = self.callee(s)
            if cal and cal[0] == 'assign':
                tgt = self.strip(cal[1])
                if tgt.get('kind') == 'MemberExpr' and self.strip(tgt['inner'][0]).get('kind') == 'CXXThisExpr' \
                        and tgt.get('name') in self.ambient:
                    nm = tgt['name']
                    cx.types.setdefault(nm, self.ambient[nm])
                    b, t = self.expr(cal[2], cx)
                    return self.emit_binds(b, 'let %s : %s := %s in\n%s' % (cname(nm), cx.types[nm], t, nxt()), cx)
                nm = tgt['referencedDecl']['name']
                ty = cx.types[nm]
                src = self.strip(cal[2])
                b, t = self.expr(cal[2], cx)
                sq = src.get('type', {}).get('qualType', '')
                if ty.startswith('option') and 'optional' not in sq and 'none_t' not in sq and t != 'None':
                    t = '(Some %s)' % t
                return self.emit_binds(b, 'let %s : %s := %s in\n%s' % (cname(nm), ty, t, nxt()), cx)
            raise Unsupported('operator call statement')
        if k == 'IfStmt':
            inner = s['inner']
            cnd, thn = inner[0], inner[1]
            els = inner[2] if len(inner) > 2 else None
            b, c = self.expr(cnd, cx)
            t_exits = self.always_exits(thn)
            e_exits = els is not None and self.always_exits(els)
            has_rest = bool(rest) or cont is not None
            if t_exits and e_exits:
                body = 'if %s\nthen %s\nelse %s' % (c, self.stmts([thn], cx, None), self.stmts([els], cx, None))
            elif t_exits:
                body = 'if %s\nthen %s\nelse %s' % (c, self.stmts([thn], cx, None),
                                                   self.stmts(([els] if els else []) + rest, cx, cont))
            elif e_exits:
                body = 'if %s\nthen %s\nelse %s' % (c, self.stmts([thn] + rest, cx, cont), self.stmts([els], cx, None))
            else:
                # join point
                av = sorted(self.assigned(thn, set()) | (self.assigned(els, set()) if els else set()))
                av = [v for v in av if v in cx.types]
                cx.kcount += 1
                kn = 'k%d' % cx.kcount
                params = ' '.join('(%s : %s)' % (cname(v), cx.types[v]) for v in av) or '(_ : unit)'
                args = ' '.join(cname(v) for v in av) or 'tt'
                jump = lambda: '%s %s' % (kn, args)
                depth = len(cx.scope)
                for v in av:
                    cx.scope.append((cname(v), cx.types[v]))
                kbody = nxt()
                del cx.scope[depth:]
                ktype = ' -> '.join([cx.types[v] for v in av] or ['unit']) + ' -> ' + cx.result_type()
                cx.scope.append((kn, ktype))
                tb = self.stmts([thn], cx, jump)
                eb = self.stmts([els], cx, jump) if els else jump()
                del cx.scope[depth:]
                body = 'let %s := fun %s =>\n%s in\nif %s\nthen %s\nelse %s' % (kn, params, kbody, c, tb, eb)
            return self.emit_binds(b, body, cx)
        if k == 'SwitchStmt':
            inner = s['inner']
            b, c = self.expr(inner[0], cx)
            body = inner[-1]
            out = None
            cases = []
            default = None
            for cs in body.get('inner', []):
                if cs['kind'] == 'CaseStmt':
                    val = self.strip(cs['inner'][0])
                    if val.get('kind') != 'IntegerLiteral':
                        raise Unsupported('case label')
                    if not self.always_exits(cs['inner'][-1]):
                        raise Unsupported('switch fall-through')
                    cases.append((val['value'], cs['inner'][-1]))
                elif cs['kind'] == 'DefaultStmt':
                    if not self.always_exits(cs['inner'][-1]):
                        raise Unsupported('switch default falls through')
                    default = cs['inner'][-1]
                else:
                    raise Unsupported('switch body ' + cs['kind'])
            out = self.stmts([default], cx, None) if default is not None else nxt()
            for v, st in reversed(cases):
                out = 'if Z.eqb %s (%s)\nthen %s\nelse %s' % (c, v, self.stmts([st], cx, None), out)
            return self.emit_binds(b, out, cx)
        if k == 'UnaryOperator' and s.get('opcode') in ('++', '--'):
            tgt = self.strip(s['inner'][0])
            if tgt.get('kind') != 'DeclRefExpr':
                raise Unsupported('increment target')
            nm = tgt['referencedDecl']['name']
            f = 'u64_add' if s['opcode'] == '++' else 'u64_sub'
            return 'let %s : %s := (%s %s 1) in\n%s' % (cname(nm), cx.types[nm], f, cname(nm), nxt())
        if k == 'CompoundAssignOperator':
            tgt = self.strip(s['inner'][0])
            if tgt.get('kind') != 'DeclRefExpr':
                raise Unsupported('compound assignment target')
            nm = tgt['referencedDecl']['name']
            b, t = self.expr(s['inner'][1], cx)
            ty = cx.types[nm]
            op = s.get('opcode')
            if ty == 'bool' and op == '&=':
                e = '(%s && %s)' % (cname(nm), t)
            elif ty == 'bool' and op == '|=':
                e = '(%s || %s)' % (cname(nm), t)
            elif ty == 'Z' and op in ('+=', '-=', '*='):
                e = '(%s %s %s)' % ({'+=': 'u64_add', '-=': 'u64_sub', '*=': 'u64_mul'}[op], cname(nm), t)
            else:
                raise Unsupported('compound assignment %s on %s' % (op, ty))
            return self.emit_binds(b, 'let %s : %s := %s in\n%s' % (cname(nm), ty, e, nxt()), cx)
        if k == 'WhileStmt':
            cnd, body = s['inner'][0], s['inner'][1]
            if not cx.monadic:
                raise Unsupported('loop in pure function')
            av = sorted(v for v in self.assigned(body, set()) if v in cx.types)
            cx.kcount += 1
            ln = '%s_loop%d' % (cx.coqname, cx.kcount)
            loopvars = [cname(v) for v in av]
            # lambda lifting: every enclosing binder that is not shadowed by a loop variable is passed along
            captured = []
            seen = set(loopvars)
            for nm, ty in reversed(cx.scope):
                if nm not in seen:
                    seen.add(nm)
                    captured.append((nm, ty))
            captured.reverse()
            cparams = ' '.join('(%s : %s)' % c for c in captured)
            cargs = ' '.join(c[0] for c in captured)
            params = ' '.join('(%s : %s)' % (cname(v), cx.types[v]) for v in av)
            args = ' '.join(loopvars)
            depth = len(cx.scope)
            for v in av:
                cx.scope.append((cname(v), cx.types[v]))
            b, c = self.expr(cnd, cx)
            again = lambda: '%s %s fuel_ %s' % (ln, cargs, args)
            body_t = self.stmts([body], cx, again)
            exit_t = nxt()
            del cx.scope[depth:]
            inner = self.emit_binds(b, 'if %s\nthen %s\nelse %s' % (c, body_t, exit_t), cx)
            cx.prelude.append('Fixpoint %s %s (fuel : nat) %s {struct fuel} : %s :=\n'
                              '  match fuel with\n  | O => Err "OutOfFuel"\n  | S fuel_ =>\n%s\n  end.\n' % (
                                  ln, cparams, params, cx.result_type(), indent(inner)))
            return '%s %s LOOP_FUEL %s' % (ln, cargs, args)
        if k == 'ForStmt':
            inner = s['inner']
            init, cond, inc, body = inner[0], inner[2], inner[3], inner[4]
            try:
                vd = init['inner'][0]
                var = vd['name']
                lo = int(self.strip(vd['inner'][0])['value'])
                assert cond['kind'] == 'BinaryOperator' and cond['opcode'] == '<'
                assert self.strip(cond['inner'][0])['referencedDecl']['name'] == var
                hi = int(self.strip(cond['inner'][1])['value'])
                assert inc['kind'] == 'UnaryOperator' and inc['opcode'] in ('++',)
            except Exception:
                # general counting loop: `for (T i = a; cond; ++i) body`  ==  `T i = a; while (cond) { body; ++i; }`
                if init.get('kind') != 'DeclStmt' or inc.get('kind') != 'UnaryOperator':
                    raise Unsupported('for loop shape')
                wh = {'kind': 'WhileStmt', 'inner': [cond, {'kind': 'CompoundStmt', 'inner': [body, inc]}]}
                return self.stmts([init, wh] + rest, cx, cont)
            if hi - lo > 16:
                raise Unsupported('loop trip count')
            cx.types[var] = 'Z'

            def unroll(i):
                if i >= hi:
                    cx.consts.pop(var, None)
                    return nxt()
                cx.consts[var] = i
                return self.stmts([body], cx, lambda: unroll(i + 1))
            return unroll(lo)
        raise Unsupported('statement kind %s in %s' % (k, cx.fname))

    def emit_binds(self, binds, body, cx):
        if any(not v.startswith('let:') for v, _ in binds) and not cx.monadic:
            raise Unsupported('effect in pure function %s' % cx.fname)
        out = body
        for v, m in reversed(binds):
            if v.startswith('let:'):
                out = 'let %s := %s in\n%s' % (v[4:], m, out)
            else:
                out = 'bind %s (fun %s =>\n%s)' % (m, v, out)
        return out

    # ---------------------------------------------------------------- functions
    def function(self, decl, key, coqname, record=None, ambient=None, skip_params=None, out_params=None):
        body = [c for c in decl.get('inner', []) if c.get('kind') == 'CompoundStmt']
        if not body:
            raise Unsupported('no body for ' + key)
        params = [c for c in decl.get('inner', []) if c.get('kind') == 'ParmVarDecl']
        monadic = self.may_fail(body[0])
        cx = Ctx(self, key, monadic, record)
        ps = []
        if record:
            ps.append('(this_ : %s)' % record)
        params = [p for p in params if p['name'] not in (skip_params or ())]
        for p in params:
            ty = self.ctype(p['type']['qualType'])
            cx.types[p['name']] = ty
            ps.append('(%s : %s)' % (cname(p['name']), ty))
        for nm, ty in (ambient or []):
            cx.types[nm] = ty
            ps.append('(%s : %s)' % (cname(nm), ty))
        rq = decl['type']['qualType'].split('(')[0].strip()
        rty = self.ctype(rq)
        cx.out_params = list(out_params or [])
        if cx.out_params:
            if rty != 'unit':
                raise Unsupported('output parameters on a function that returns a value')
            rty = ' * '.join(cx.types[o] for o in cx.out_params)
        self.funcs[key] = {'coq': coqname, 'monadic': monadic, 'ret': rty, 'nparams': len(ps)}
        cx.rty = rty
        cx.coqname = coqname
        if record:
            cx.scope.append(('this_', record))
        for p in params:
            cx.scope.append((cname(p['name']), cx.types[p['name']]))
        for nm, ty in (ambient or []):
            cx.scope.append((cname(nm), ty))
        term = self.stmts(list(body[0].get('inner', [])), cx, None)
        full = 'res (%s)' % rty if monadic else rty
        return '\n'.join(cx.prelude) + 'Definition %s %s : %s :=\n%s.\n' % (coqname, ' '.join(ps), full, indent(term))


def indent(t):
    out = []
    depth = 1
    for line in t.split('\n'):
        out.append('  ' * depth + line)
    return '\n'.join(out)


def find_decls(docs, kind, name):
    return [d for d in docs if d.get('kind') == kind and d.get('name') == name]


def with_body(decls):
    for d in decls:
        if any(c.get('kind') == 'CompoundStmt' for c in d.get('inner', [])):
            return d
    return None
