#!/usr/bin/env python3
"""Validate a seeded breaking change delivered by an independent sub-agent and run our check against it.
   tools/seedtest.py <Cxx> <A|B> [--checks Cyy,Czz]
Steps (all in the scratch worktree /tmp/seeds/wt-<Cxx>, never in /repo):
  1. clean tree: cmake build, demo must exit 0
  2. apply the diff: rebuild, the repository's own suite must pass, demo must exit non-zero
  3. run tools/check.py <id> --repo <worktree> for the property (and any further ids given)
  4. revert the worktree; store patch, demo, meta.json under /verif/seeded/<Cxx>-<variant>/
"""
import os, sys, subprocess, json, shutil, time, argparse

VERIF = os.path.dirname(os.path.dirname(os.path.abspath(__file__)))


def sh(cmd, cwd=None, timeout=3600):
    r = subprocess.run(cmd, shell=True, cwd=cwd, capture_output=True, text=True, timeout=timeout)
    return r.returncode, r.stdout + r.stderr


def main():
    ap = argparse.ArgumentParser()
    ap.add_argument('prop')
    ap.add_argument('variant')
    ap.add_argument('--checks', default=None)
    ap.add_argument('--src', default=None, help='directory with <variant>.diff, <variant>_demo.cpp, <variant>.txt')
    ap.add_argument('--round', default='', help='2 = second seeding round (worktree wt2-<prop>, deliverables out2-<prop>)')
    a = ap.parse_args()
    wt = '/tmp/seeds/wt%s-%s' % (a.round, a.prop)
    src = a.src or '/tmp/seeds/out%s-%s' % (a.round, a.prop)
    diff = os.path.join(src, a.variant + '.diff')
    demo = os.path.join(src, a.variant + '_demo.cpp')
    meta = {'property': a.prop, 'variant': a.variant, 'ran': []}
    sh('git checkout -- . && git clean -fdq -e _build', wt)
    # 1. baseline
    rc, out = sh('cmake -G Ninja -B _build -DCMAKE_BUILD_TYPE=RelWithDebInfo -DCMAKE_CXX_FLAGS=-Wno-error >/dev/null 2>&1; cmake --build _build 2>&1 | tail -3', wt)
    meta['ran'].append('cmake build of the clean worktree: rc=%d' % rc)
    build_demo = ('g++ -std=c++11 -DH5_USE_110_API=1 -I%s/include -I%s/_build/include -I/usr/include/hdf5/serial %s -L%s/_build -lnixio '
                  '-L/usr/lib/x86_64-linux-gnu/hdf5/serial -lhdf5 -lboost_date_time -lboost_regex -lboost_filesystem -lboost_system -pthread '
                  '-o /tmp/seeds/demo%s-%s-%s' % (wt, wt, demo, wt, a.round, a.prop, a.variant))
    rc, out = sh(build_demo)
    if rc != 0:
        print('demo does not build:', out[-2000:])
        return 2
    run_demo = 'cd /tmp/seeds && LD_LIBRARY_PATH=%s/_build /tmp/seeds/demo%s-%s-%s' % (wt, a.round, a.prop, a.variant)
    rc0, out0 = sh(run_demo)
    meta['demo_exit_clean'] = rc0
    print('demo on clean tree: exit', rc0)
    # 2. with the change
    rc, out = sh('git apply %s' % diff, wt)
    if rc != 0:
        print('diff does not apply:', out)
        return 2
    rc, out = sh('cmake --build _build 2>&1 | tail -3', wt)
    meta['compiles'] = (rc == 0 and 'error' not in out.lower())
    rcs, outs = sh('ctest --test-dir _build -j1 --timeout 900 2>&1 | tail -5', wt)
    meta['suite'] = outs.strip().split('\n')[-3:] if outs else []
    suite_ok = '100% tests passed' in outs
    meta['suite_passes'] = suite_ok
    print('suite with the change:', 'passes' if suite_ok else 'FAILS', '|', ' '.join(outs.split())[-120:])
    rc, out = sh(build_demo)
    rc1, out1 = sh(run_demo)
    meta['demo_exit_changed'] = rc1
    meta['demo_output_changed'] = out1[-600:]
    print('demo on changed tree: exit', rc1)
    valid = (rc0 == 0 and rc1 != 0 and suite_ok)
    meta['valid_seed'] = valid
    # 3. our checks
    checks = (a.checks.split(',') if a.checks else [a.prop])
    results = {}
    shutil.rmtree(os.path.join(wt, '_build'), ignore_errors=True)
    for c in checks:
        t0 = time.time()
        rc, out = sh('python3 tools/check.py %s --repo %s' % (c, wt), VERIF, timeout=7200)
        lines = [l for l in out.split('\n') if l.startswith('VIOLATION') or l.startswith('PASS') or l.startswith('FAIL') or l.startswith('KNOWN')]
        results[c] = {'exit': rc, 'lines': lines[:8], 'wall_s': round(time.time() - t0, 1)}
        # keep the first replay for the record
        for l in lines:
            if l.startswith('VIOLATION') and 'replay=' in l:
                rp = l.split('replay=')[1].split()[0]
                try:
                    results[c]['replay'] = open(rp).read()[:1500]
                except OSError:
                    pass
                break
        print('check %s: exit %d %s' % (c, rc, lines[-1] if lines else out[-300:]))
    meta['checks'] = results
    meta['caught_by'] = [c for c, r in results.items() if r['exit'] == 1]
    # 4. cleanup + store
    sh('git checkout -- . && git clean -fdq', wt)
    import repo as repolib
    tag = repolib.tag_for(wt)
    for d in ('repo-' + tag, 'coq-' + tag):
        shutil.rmtree(os.path.join(VERIF, 'build', d), ignore_errors=True)
    for d in os.listdir(os.path.join(VERIF, 'build', 'ocaml')) if os.path.isdir(os.path.join(VERIF, 'build', 'ocaml')) else []:
        if d.endswith('-' + tag):
            shutil.rmtree(os.path.join(VERIF, 'build', 'ocaml', d), ignore_errors=True)
    out_dir = os.path.join(VERIF, 'seeded', '%s-%s%s' % (a.prop, a.variant, a.round))
    os.makedirs(out_dir, exist_ok=True)
    shutil.copy(diff, os.path.join(out_dir, 'patch.diff'))
    shutil.copy(demo, os.path.join(out_dir, 'demo.cpp'))
    txt = os.path.join(src, a.variant + '.txt')
    if os.path.exists(txt):
        shutil.copy(txt, os.path.join(out_dir, 'description.txt'))
        meta['needs_to_manifest'] = open(txt).read()[:3000]
    meta['base_commit'] = sh('git rev-parse HEAD', wt)[1].strip()
    json.dump(meta, open(os.path.join(out_dir, 'meta.json'), 'w'), indent=1)
    print('valid seed:', valid, '| caught by:', meta['caught_by'])
    return 0


if __name__ == '__main__':
    sys.path.insert(0, os.path.join(VERIF, 'tools', 'vlib'))
    sys.exit(main())
