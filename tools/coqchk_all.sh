#!/bin/sh
# independent re-check of every compiled property file (and everything it depends on) with coqchk; prints the axioms
# each relies on.  Not part of the registered checks (takes ~1 min per property); output kept in notes/coqchk.txt.
cd /verif/coq || exit 2
out=/verif/notes/coqchk.txt
: > "$out"
rc=0
for p in C01 C02 C03 C04 C05 C06 C07 C08 C09 C10 C11 C12 C13 C14 C15 C16 C17 C18 C19 C20; do
  echo "== Properties_$p" >> "$out"
  if timeout 3000 coqchk -o -silent -Q . NixV NixV.Properties.Properties_$p > /tmp/coqchk.$$ 2>&1; then
    sed -n '/^\* Axioms/,/^\* Constants\/Inductives relying on type-in-type/p' /tmp/coqchk.$$ >> "$out"
    grep -A1 "relying on unsafe\|positivity is assumed\|type-in-type" /tmp/coqchk.$$ | grep -v "^--" >> "$out"
  else
    echo "coqchk FAILED" >> "$out"; tail -5 /tmp/coqchk.$$ >> "$out"; rc=1
  fi
done
rm -f /tmp/coqchk.$$
exit $rc
