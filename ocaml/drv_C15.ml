(* use: f64glue *)
(* C15 model driver: same case language as harness/drv_C15.cpp.  Before "##": the model (Data/Frame.v [fstep],
   the frame as its list of rows); after it: the specification ([sstep], the pointwise cell map kept as a log). *)
let dec_type t = match t with
  | "Bool" -> TBool | "Int32" -> TInt32 | "UInt32" -> TUInt32 | "Int64" -> TInt64 | "UInt64" -> TUInt64
  | "Double" -> TDouble | "String" -> TString
  | "Char" | "Nothing" -> TBad (cstr t)
  | "Int8" | "Int16" | "UInt8" | "UInt16" | "Float" | "Opaque" -> TOther (cstr t)
  | _ -> failwith ("bad type " ^ t)
let enc_type t = match t with
  | TBool -> "Bool" | TInt32 -> "Int32" | TUInt32 -> "UInt32" | TInt64 -> "Int64" | TUInt64 -> "UInt64"
  | TDouble -> "Double" | TString -> "String" | TOther n -> ostr n | TBad n -> ostr n
let after t = let i = OStr.index t ':' in OStr.sub t (i + 1) (OStr.length t - i - 1)
let dec_val t =
  if t = "none" then VNone else
  match OStr.sub t 0 (OStr.index t ':') with
  | "b" -> VBool (after t = "1")
  | "i32" -> VInt32 (z_of_string (after t)) | "u32" -> VUInt32 (z_of_string (after t))
  | "i64" -> VInt64 (z_of_string (after t)) | "u64" -> VUInt64 (z_of_string (after t))
  | "d" -> VDouble (dec_dbl t)
  | "s" -> VString (cstr (dec_str t))
  (* elements of the narrow column types: carried as the 32-bit integer of the same signedness / as the double of the same value *)
  | "i8" | "i16" | "c" -> VInt32 (z_of_string (after t))
  | "u8" | "u16" -> VUInt32 (z_of_string (after t))
  | "f" -> VDouble (f64_of_bits (Int64.bits_of_float (Int32.float_of_bits (Int32.of_string ("0x" ^ after t)))))
  | _ -> failwith ("bad value " ^ t)
let dec z = Zar.to_string (zarith_of_z z)
let enc_val v = match v with
  | VBool b -> "b:" ^ bool01 b
  | VInt32 z -> "i32:" ^ dec z | VUInt32 z -> "u32:" ^ dec z | VInt64 z -> "i64:" ^ dec z | VUInt64 z -> "u64:" ^ dec z
  | VDouble d -> enc_dbl d
  | VString s -> enc_str (ostr s)
  | VNone -> "none"
(* a value read into a vector<T> with a narrow element type T *)
let enc_val_as t v = match t, v with
  | TOther n, (VInt32 z | VUInt32 z) ->
    (match ostr n with "Int8" -> "i8:" | "Int16" -> "i16:" | "UInt8" -> "u8:" | "UInt16" -> "u16:" | _ -> "?:") ^ dec z
  | TOther _, VDouble d ->
    let b = bits_of_f64 d in
    if Int64.logand b 0x7ff0000000000000L = 0x7ff0000000000000L && Int64.logand b 0xfffffffffffffL <> 0L then "f:7fc00000"
    else OPrintf.sprintf "f:%08lx" (Int32.bits_of_float (Int64.float_of_bits b))
  | _, _ -> enc_val v
let sstr t = cstr (dec_str t)
let zs = z_of_string
let rec take n l = if n = 0 then ([], l) else match l with x :: r -> let (a, b) = take (n - 1) r in (x :: a, b) | [] -> failwith "too few tokens"
let counted toks = match toks with
  | n :: rest -> let (a, b) = take (oint_of_string n) rest in if b <> [] then failwith "too many tokens" else a
  | [] -> failwith "missing count"
let counted_scaled k toks = match toks with
  | n :: rest -> if OLst.length rest <> k * oint_of_string n then failwith "bad token count" else rest
  | [] -> failwith "missing count"
let rec pairs l = match l with a :: b :: r -> (a, b) :: pairs r | [] -> [] | _ -> failwith "odd token count"
let rec triples l = match l with a :: b :: c :: r -> (a, b, c) :: triples r | [] -> [] | _ -> failwith "bad token count"
let enc_list f l = "[" ^ OStr.concat "" (OLst.map (fun x -> " " ^ f x) l) ^ " ]"
let enc_cell ((k, n), v) = dec k ^ " " ^ enc_str (ostr n) ^ " " ^ enc_val v
let show_answer a = match a with
  | FDone -> "done" | FNoFrame -> "noframe" | FAbsent -> "absent"
  | FNum n -> dec n
  | FSchemaA cols ->
    ostring_of_int (OLst.length cols) ^
    OStr.concat "" (OLst.map (fun c -> " " ^ enc_str (ostr c.c_name) ^ " " ^ enc_str (ostr c.c_unit) ^ " " ^ enc_type c.c_type) cols)
  | FVals vs -> enc_list enc_val vs
  | FCells cs -> "[" ^ OStr.concat "" (OLst.map (fun c -> " " ^ enc_cell c) cs) ^ " ]"
  | FCell c -> enc_cell c
  | FStr s -> enc_str (ostr s)
  | FNums ns -> enc_list dec ns
  | FStrs ss -> enc_list (fun s -> enc_str (ostr s)) ss
let show_model r = match r with Ok a -> "OK " ^ show_answer a | Err e -> "ERR " ^ ostr e | UB w -> "UB " ^ ostr w
let show_spec v = match v with Must a -> "OK " ^ show_answer a | Reject -> "ERR" | Any -> "ANY"
(* the caller's vector before a column read: the harness fills it with 77 / "~" *)
let prefill t n =
  let v = (match t with
      | TInt32 -> VInt32 (z_of_int 77) | TUInt32 -> VUInt32 (z_of_int 77) | TInt64 -> VInt64 (z_of_int 77)
      | TUInt64 -> VUInt64 (z_of_int 77) | TDouble -> VDouble (dec_dbl "d:4053400000000000") | TString -> VString (cstr "~")
      | TOther n -> (match ostr n with "Int8" | "Int16" -> VInt32 (z_of_int 77) | "UInt8" | "UInt16" -> VUInt32 (z_of_int 77)
                                     | _ -> VDouble (dec_dbl "d:4053400000000000"))
      | TBad _ -> VInt32 (z_of_int 77)
      | _ -> failwith "bad element type") in
  OLst.init n (fun _ -> v)
let elt t = match dec_type t with
  | TInt32 | TUInt32 | TInt64 | TUInt64 | TDouble | TString as x -> x
  | TOther n as x when OLst.mem (ostr n) ["Int8"; "Int16"; "UInt8"; "UInt16"; "Float"] -> x
  | TBad n as x when ostr n = "Char" -> x
  | _ -> failwith ("bad element type " ^ t)
(* wcells_n:<route> / wcells_i:<route>: the route is how the harness builds the std::vector<Cell>; the request is the same *)
let strip_route toks = match toks with
  | c :: r when OStr.length c > 8 && (OStr.sub c 0 9 = "wcells_n:" || OStr.sub c 0 9 = "wcells_i:") -> OStr.sub c 0 8 :: r
  | _ -> toks
(* a leading @<h> names the live handle the harness goes through (creator, kept second handle, by id, through a Group,
   fresh ...): the model has one frame, every handle must give its answer *)
let strip_handle toks = match toks with
  | h :: r when OStr.length h >= 2 && h.[0] = '@' -> r
  | _ -> toks
let parse toks = match strip_route (strip_handle toks) with
  | "new" :: r ->
    FNew (OLst.map (fun (n, u, t) -> { c_name = sstr n; c_unit = sstr u; c_type = dec_type t }) (triples (counted_scaled 3 r)))
  | ["rows"; n] -> FRows (zs n)
  | ["nrows"] -> FNRows
  | ["schema"] -> FSchema
  | "wrow" :: row :: r -> FWRow (zs row, OLst.map dec_val (counted r))
  | "wcells_n" :: row :: r -> FWCells (zs row, OLst.map (fun (n, v) -> (ByName (sstr n), dec_val v)) (pairs (counted_scaled 2 r)))
  | "wcells_i" :: row :: r -> FWCells (zs row, OLst.map (fun (c, v) -> (ByIdx (zs c), dec_val v)) (pairs (counted_scaled 2 r)))
  | ["wcell"; row; col; v] -> FWCells (zs row, [(ByIdx (zs col), dec_val v)])
  | "wcol_n" :: n :: t :: off :: cnt :: r -> FWCol (ByName (sstr n), elt t, zs off, zs cnt, OLst.map dec_val (counted r))
  | "wcol_i" :: c :: t :: off :: cnt :: r -> FWCol (ByIdx (zs c), elt t, zs off, zs cnt, OLst.map dec_val (counted r))
  | ["rrow"; row] -> FRRow (zs row)
  | "rcells" :: row :: r -> FRCells (zs row, OLst.map sstr (counted r))
  | ["rcell_n"; row; n] -> FRCell (zs row, ByName (sstr n))
  | ["rcell_i"; row; c] -> FRCell (zs row, ByIdx (zs c))
  | ["rcol_n"; n; t; rs; off; pre] -> FRCol (ByName (sstr n), elt t, None, rs = "1", zs off, prefill (elt t) (oint_of_string pre))
  | ["rcol_i"; c; t; rs; off; pre] -> FRCol (ByIdx (zs c), elt t, None, rs = "1", zs off, prefill (elt t) (oint_of_string pre))
  | ["rcolc_n"; n; t; k; rs; off; pre] -> FRCol (ByName (sstr n), elt t, Some (zs k), rs = "1", zs off, prefill (elt t) (oint_of_string pre))
  | ["rcolc_i"; c; t; k; rs; off; pre] -> FRCol (ByIdx (zs c), elt t, Some (zs k), rs = "1", zs off, prefill (elt t) (oint_of_string pre))
  | "colidxs" :: r -> FColIdxs (OLst.map sstr (counted r))
  | "colnames" :: r -> FColNames (OLst.map zs (counted r))
  | ["colidx"; n] -> FColIdx (sstr n)
  | ["colname"; c] -> FColName (zs c)
  | ["reopen"; "ro"] -> FReopen true
  | ["reopen"; "rw"] -> FReopen false
  | _ -> failwith "bad command"
let ms = ref dfresh
let ss = ref sfresh
let handle toks =
  let o = parse toks in
  let (m', r) = fstep o !ms in
  let (s', v) = sstep o !ss in
  ms := m'; ss := s';
  (* a column read into a narrow vector<T> prints its elements as T *)
  let narrow = (match o with FRCol (_, (TOther _ as t), _, _, _, _) -> Some t | _ -> None) in
  let fix a = (match narrow, a with Some t, FVals vs -> "[" ^ OStr.concat "" (OLst.map (fun x -> " " ^ enc_val_as t x) vs) ^ " ]" | _ -> show_answer a) in
  let sm = (match r with Ok a -> "OK " ^ fix a | Err e -> "ERR " ^ ostr e | UB w -> "UB " ^ ostr w) in
  let sv = (match v with Must a -> "OK " ^ fix a | Reject -> "ERR" | Any -> "ANY") in
  sm ^ " ## " ^ sv
let () = run_file OSys.argv.(1) handle
