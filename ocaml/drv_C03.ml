(* use: hist_common *)
(* C03 model driver: the script interpreter of hist_common.ml; specification = the agreement lines of chk / lchk *)
let () = run_hist "C03"
