(* use: fileio_glue *)
(* C11 model driver — after close or flush the file is complete and released.  The interpreter is
   coq/FileIO/Script.v (extracted); parsing and printing are in ocaml/fileio_glue.ml, shared with C09. *)
let () = run_file OSys.argv.(1) handle
