(* C12 model driver: replays a case script (same language as harness/drv_C12.cpp) on the id-assignment model of
   coq/FileIO/Ids.v with the behaviour [current_behaviour] and the concrete engine [toy_gen].  After every
   operation it prints the model's observation (before ##) and the observation the property demands (after ##):
   every id well-formed, every entity still carrying the id it was created with, no id on two owners. *)
let st : state option ref = ref None
let beh = current_behaviour

let nat_of_int (i : int) : nat = let rec go k acc = if k <= 0 then acc else go (k - 1) (S acc) in go i O
let rec int_of_nat (n : nat) : int = match n with O -> 0 | S m -> 1 + int_of_nat m
let opt_ord (t : ostring) : nat option = let k = oint_of_string t in if k < 0 then None else Some (nat_of_int k)

let kind_of (s : ostring) : kind = match s with
  | "block" -> KBlock | "section" -> KSection | "property" -> KProperty | "array" -> KArray | "frame" -> KFrame
  | "tag" -> KTag | "mtag" -> KMultiTag | "group" -> KGroup | "source" -> KSource | "feature" -> KFeature
  | _ -> failwith "bad kind"

let name_of (s : state) (t : ostring) : string =
  if t = "-" then cstr ""
  else if t.[0] = '@' then
    (match id_of s (nat_of_int (oint_of_string (OStr.sub t 1 (OStr.length t - 1)))) with
     | Some id -> id
     | None -> cstr t)
  else cstr (dec_str t)

let show_obs ((p, d) : (bool * (nat * (bool * bool)) olist) * bool) : ostring =
  let (f, es) = p in
  OStr.concat " " (("F" ^ bool01 f ^ "1")
                   :: OLst.map (fun (k, (w, s)) -> ostring_of_int (int_of_nat k) ^ ":" ^ bool01 w ^ bool01 s) es)
  ^ " d=" ^ bool01 d

let answer (res : ostring) (spec_res : ostring) (s : state) : ostring =
  "OK " ^ res ^ " " ^ show_obs (observe s) ^ " ## OK " ^ spec_res ^ " " ^ show_obs (spec_observe s)

let apply (o : op) : state * state * bool =
  match !st with
  | None -> failwith "no file"
  | Some s -> let (s', ok) = step toy_gen beh s o in st := Some s'; (s, s', ok)

let handle toks =
  try match toks with
  | ["new"; t; e] ->
    let s = new_file toy_gen beh (z_of_string t) (z_of_string e) in
    st := Some s; answer "ok" "ok" s
  | ["create"; k; parent; name; r] ->
    let s0 = (match !st with Some s -> s | None -> failwith "no file") in
    let (s, s', ok) = apply (OCreate (kind_of k, opt_ord parent, name_of s0 name, opt_ord r)) in
    let res = if ok then "ok=" ^ ostring_of_int (int_of_nat s.st_next) else "rej" in
    answer res res s'
  | ["delete"; k] ->
    let (_, s', ok) = apply (ODelete (nat_of_int (oint_of_string k))) in
    let res = if ok then "ok" else "rej" in answer res res s'
  | ["forceid"] ->
    let (s, s', ok) = apply OForceId in
    if ok then answer ("ok chg=" ^ bool01 (ostr s.st_file <> ostr s'.st_file)) "ok chg=1" s' else answer "rej" "rej" s'
  | ["set"; k; _] ->
    let (_, s', ok) = apply (OSetter (nat_of_int (oint_of_string k))) in
    let res = if ok then "ok" else "rej" in answer res res s'
  | ["reopen"; m] ->
    let (_, s', _) = apply (OReopen (m = "rw")) in answer "ok" "ok" s'
  | "xcreate" :: t :: e :: k :: _ :: names ->
    let s0 = (match !st with Some s -> s | None -> failwith "no file") in
    let (s, s', ok) = apply (OCreateOther (z_of_string t, z_of_string e, kind_of k, OLst.map (name_of s0) names)) in
    let res = (if ok then "ok" else "rej") ^ " n=" ^ ostring_of_int (int_of_nat s'.st_next - int_of_nat s.st_next) in
    answer res res s'
  | "xfork" :: t :: e :: k :: _ :: names ->
    let s0 = (match !st with Some s -> s | None -> failwith "no file") in
    let (s, s', ok) = apply (OFork (z_of_string t, z_of_string e, kind_of k, OLst.map (name_of s0) names)) in
    let res = (if ok then "ok" else "rej") ^ " n=" ^ ostring_of_int (int_of_nat s'.st_next - int_of_nat s.st_next) in
    answer res res s'
  | ["forks"; n; k] ->
    (* a process (second 1000, entropy 1) draws 2 ids, forks n children (entropy 2..n+1) that draw k+3 ids each
       (own file, k blocks, two plain createId calls), and draws k more itself *)
    let kk = oint_of_string k in
    let cs = OLst.init (oint_of_string n) (fun i -> (z_of_int 1000, z_of_int (i + 2))) in
    let common = fork_common toy_gen beh (z_of_int 1000) (z_of_int 1) (nat_of_int 2) cs (nat_of_int (kk + 3)) (nat_of_int kk) in
    let line c = "OK forks=" ^ n ^ " k=" ^ k ^ " wellformed=1 common=" ^ c in
    line (bool01 common) ^ " ## " ^ line "0"
  | ["reset"] -> st := None; "OK -"
  | ["procs"; k; n] ->
    (* k processes started within one second (entropy values 1..k), n ids each *)
    let es = OLst.init (oint_of_string k) (fun i -> z_of_int (i + 1)) in
    let common = procs_common toy_gen beh (z_of_int 1000) es (nat_of_int (oint_of_string n)) in
    let line c = "OK procs=" ^ k ^ " n=" ^ n ^ " shared=1 wellformed=1 common=" ^ c in
    line (bool01 common) ^ " ## " ^ line "0"
  | _ -> failwith "bad command"
  with Failure _ -> "ERR std::logic_error"

let () = run_file OSys.argv.(1) handle
