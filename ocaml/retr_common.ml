(* ---- shared by drv_C05.ml / drv_C06.ml: the retrieval script language (same text as harness/retr_common.hpp) ----
   reset
   arr <aid> <rank> <shape..> <dim>*rank       dim = S <dt> <off|-> <unit|-> | R <k> <t1..tk> <unit|-> | L <nlabels> | F <nrows>
                                               | A <k> <t1..tk> <unit|->  (rank 1: alias range dimension = DRange over the array's own data)
   tag <np> <pos..> <ne> <ext..> <nu> <units..>                     (ne = 0: no extent)
   ref <aid> | feat <aid> <tagged|untagged|indexed>                 (attached to the tag AND the multi-tag of the case)
   mtag <rank> <shape..> <n> <posdata..> <ne> <extdata..> <nu> <units..>   (ne = 0: no extents array)
   offcnt <aid> <mode> | tagged <refidx> <mode> | taggeda <aid> <mode> | feature <k> <mode>
   moffcnt <aid> <mode> <n> <idx..> | moffcnt1 <aid> <mode> <idx>
   mtagged <refidx> <mode> <n> <idx..> | mtagged1 <refidx> <mode> <idx>
   mfeature <k> <mode> <n> <idx..> | mfeature1 <k> <mode> <idx>
   mode = incl | excl | default.   Model answer ## specification answer. *)
let behaviour_used =
  match OSys.getenv_opt "RETR_FLAGS" with
  | Some fl ->
    (* individual switches on top of code_today, e.g. RETR_FLAGS=pad_end_is_last,mt_point_sets_data_offset *)
    let has s = OLst.mem s (OStr.split_on_char ',' fl) in
    { pad_end_is_last = has "pad_end_is_last"; mt_point_sets_data_offset = has "mt_point_sets_data_offset";
      mt_invalid_range_throws = has "mt_invalid_range_throws"; mt_point_by_extent = has "mt_point_by_extent";
      mt_empty_guard = has "mt_empty_guard"; pad_index_range = has "pad_index_range" }
  | None ->
  match OSys.getenv_opt "RETR_MODEL" with
  | Some "today" -> code_today
  | Some "repaired" -> repaired_except_pinned
  | Some "ideal" -> repaired
  | _ -> current_behaviour

let arrays : (ostring, darray) OHashtbl.t = OHashtbl.create 8
(* unit of the column a data-frame dimension points at (dimension token FC), per array: None = no column index *)
let col_units : (ostring, string option olist) OHashtbl.t = OHashtbl.create 8
let the_tag = ref { t_pos = []; t_ext = []; t_units = []; t_refs = []; t_feats = [] }
let the_mtag = ref { m_pos = { n_shape = []; n_data = [] }; m_ext = None; m_units = []; m_refs = []; m_feats = [] }
let refs : darray olist ref = ref []
let feats : feature olist ref = ref []

let rec take k l = if k = 0 then [] else match l with [] -> failwith "short line" | h :: t -> h :: take (k - 1) t
let rec drop k l = if k = 0 then l else match l with [] -> failwith "short line" | _ :: t -> drop (k - 1) t
let unit_opt t = if t = "-" then None else Some (cstr (dec_str t))
(* Tag::units / MultiTag::units store the sanitised string (deblanked, mu -> u) *)
let unit_str t = unitSanitizer (cstr (dec_str t))

(* parse one dimension descriptor, return it and the remaining tokens *)
let parse_dim toks = match toks with
  | "S" :: dt :: off :: u :: rest ->
    (DSampled (dec_dbl dt, (if off = "-" then None else Some (dec_dbl off)), unit_opt u), rest)
  | "R" :: k :: rest ->
    let k = oint_of_string k in
    let ticks = OLst.map dec_dbl (take k rest) in
    (match drop k rest with
     | u :: rest' -> (DRange (ticks, unit_opt u), rest')
     | [] -> failwith "bad R")
  | "A" :: k :: rest ->
    (* alias range dimension of a 1-D array: a range dimension whose ticks are the array's own data and whose unit is
       the array's unit (RangeDimensionHDF5::redirectGroup) *)
    let k = oint_of_string k in
    let ticks = OLst.map dec_dbl (take k rest) in
    (match drop k rest with
     | u :: rest' -> (DRange (ticks, unit_opt u), rest')
     | [] -> failwith "bad A")
  | "L" :: n :: rest -> (DSet (z_of_string n), rest)
  | "F" :: n :: rest -> (DFrame (z_of_string n), rest)
  | "FC" :: n :: _ :: rest -> (DFrame (z_of_string n), rest)     (* with column index 0: same axis, only its unit differs *)
  | _ -> failwith "bad dim"

let rec parse_dims n toks = if n = 0 then [] else let (d, rest) = parse_dim toks in d :: parse_dims (n - 1) rest

(* <n> <items..> prefix of a token list *)
let counted f toks = match toks with
  | n :: rest -> let n = oint_of_string n in (OLst.map f (take n rest), drop n rest)
  | [] -> failwith "missing count"

let mode_of fn m = match m with
  | "incl" -> RangeMatch_Inclusive
  | "excl" -> RangeMatch_Exclusive
  | "default" -> if fn = `Offcnt then default_match_offcnt else default_match_retrieval
  | _ -> failwith "bad mode"
let incl_of m = match m with RangeMatch_Inclusive -> true | RangeMatch_Exclusive -> false

let zs l = "[" ^ OStr.concat " " (OLst.map string_of_z l) ^ "]"
let show_oc (o, c) = zs o ^ " " ^ zs c
let show_view shape (o, c) = zs c ^ " " ^ zs (view_ids shape o c)
let show_list f l = ostring_of_int (OLst.length l) ^ OStr.concat "" (OLst.map (fun x -> " {" ^ f x ^ "}") l)
let show_res f r = match r with Ok v -> "OK " ^ f v | Err e -> "ERR " ^ ostr e | UB w -> "UB " ^ ostr w

let arr aid = match OHashtbl.find_opt arrays aid with Some a -> a | None -> failwith ("no array " ^ aid)
let nth_opt l i = if i < 0 then None else OLst.nth_opt l i

type 'a sp = SAny | SRefuse | SIs of 'a
let of_answer = function Region x -> SIs x | Refuse -> SRefuse | Unconstrained -> SAny
let show_sp f = function SAny -> "ANY" | SRefuse -> "ERR nix::OutOfBounds" | SIs v -> "OK " ^ f v
let show_oc3 ((o, c), _) = zs o ^ " " ^ zs c
let show_view3 ((_, c), ids) = zs c ^ " " ^ zs ids
(* getOffsetAndCount alone does not look at the data bounds: a refusal is not demanded of it *)
let offcnt_sp s = match s with SRefuse -> SAny | x -> x

let idx_list toks = fst (counted z_of_string toks)
(* `cmd@route`: the same request through another public entry point - same model answer; only the default mode
   depends on the route (deprecated util::retrieve* twins: Inclusive; everything else, members included: Exclusive) *)
let unroute toks = match toks with
  | c :: a :: m :: rest when OStr.contains c '@' ->
    let k = OStr.index c '@' in
    let cmd = OStr.sub c 0 k and route = OStr.sub c (k + 1) (OStr.length c - k - 1) in
    let name = function RangeMatch_Inclusive -> "incl" | RangeMatch_Exclusive -> "excl" in
    let deprecated = OStr.length route > 2 && OStr.sub route 0 2 = "r_" in
    let m' = if m = "default" then name (if deprecated then default_match_deprecated else default_match_retrieval) else m in
    cmd :: a :: m' :: rest
  | _ -> toks

let handle toks =
  let b = behaviour_used in
  match unroute toks with
  | ["reset"] ->
    OHashtbl.reset arrays; refs := []; feats := [];
    the_tag := { t_pos = []; t_ext = []; t_units = []; t_refs = []; t_feats = [] };
    the_mtag := { m_pos = { n_shape = []; n_data = [] }; m_ext = None; m_units = []; m_refs = []; m_feats = [] };
    "OK done"
  | "arr" :: aid :: rank :: rest ->
    let rank = oint_of_string rank in
    let shape = OLst.map z_of_string (take rank rest) in
    let dims = parse_dims rank (drop rank rest) in
    OHashtbl.replace arrays aid { a_shape = shape; a_dims = dims };
    (* column units of the FC dimensions, in order *)
    let rec cols toks = (match toks with
        | [] -> []
        | "S" :: _ :: _ :: _ :: r -> None :: cols r
        | ("R" | "A") :: k :: r -> None :: cols (drop (oint_of_string k + 1) r)
        | ("L" | "F") :: _ :: r -> None :: cols r
        | "FC" :: _ :: u :: r -> Some (if u = "-" then cstr "" else cstr (dec_str u)) :: cols r
        | _ -> failwith "bad dims") in
    OHashtbl.replace col_units aid (cols (drop rank rest));
    "OK done"
  | "tag" :: rest ->
    let (pos, rest) = counted dec_dbl rest in
    let (ext, rest) = counted dec_dbl rest in
    let (units, _) = counted unit_str rest in
    the_tag := { t_pos = pos; t_ext = ext; t_units = units; t_refs = !refs; t_feats = !feats };
    "OK done"
  | "mtag" :: rank :: rest ->
    let rank = oint_of_string rank in
    let shape = OLst.map z_of_string (take rank rest) in
    let (pos, rest) = counted dec_dbl (drop rank rest) in
    let (ext, rest) = counted dec_dbl rest in
    let (units, _) = counted unit_str rest in
    the_mtag := { m_pos = { n_shape = shape; n_data = pos };
                  m_ext = (if ext = [] && pos <> [] then None else if ext = [] then None else Some { n_shape = shape; n_data = ext });
                  m_units = units; m_refs = !refs; m_feats = !feats };
    "OK done"
  | ["ref"; aid] ->
    refs := !refs @ [arr aid];
    the_tag := { !the_tag with t_refs = !refs }; the_mtag := { !the_mtag with m_refs = !refs };
    "OK done"
  | ["feat"; aid; lt] ->
    let l = (match lt with "tagged" -> LTagged | "untagged" -> LUntagged | "indexed" -> LIndexed | _ -> failwith "bad link") in
    feats := !feats @ [{ f_link = l; f_data = arr aid }];
    the_tag := { !the_tag with t_feats = !feats }; the_mtag := { !the_mtag with m_feats = !feats };
    "OK done"
  (* ---- functions of dataAccess.hpp called directly ---- *)
  | ["dimunit"; aid; d] ->
    let a = arr aid and d = oint_of_string d in
    (match OLst.nth_opt a.a_dims d, OLst.nth_opt (OHashtbl.find col_units aid) d with
     | Some (DFrame _), Some (Some cu) -> "OK " ^ enc_str (ostr (frame_dim_unit (Some cu)))
     | Some dim, _ -> "OK " ^ enc_str (ostr (getDimensionUnit dim))
     | None, _ -> failwith "bad dimension")
  | "indata" :: aid :: rest ->
    let a = arr aid in
    let (pos, rest) = counted z_of_string rest in
    let (cnt, _) = counted z_of_string rest in
    "OK " ^ bool01 (positionInData a.a_shape pos) ^ " " ^ bool01 (positionAndExtentInData a.a_shape pos cnt)
  | ["pti1"; aid; d; p; u; r] ->
    let a = arr aid in
    let rule = (match r with "L" -> PositionMatch_Less | "LE" -> PositionMatch_LessOrEqual | "GE" -> PositionMatch_GreaterOrEqual
                           | "G" -> PositionMatch_Greater | "EQ" -> PositionMatch_Equal | _ -> failwith "bad rule") in
    show_res (function Some i -> string_of_z i | None -> "none")
      (positionToIndex_one (dec_dbl p) (cstr (dec_str u)) rule (OLst.nth a.a_dims (oint_of_string d)))
  | "ptiv" :: aid :: d :: m :: rest ->
    let a = arr aid in
    let (ss, rest) = counted dec_dbl rest in
    let (es, rest) = counted dec_dbl rest in
    let (us, _) = counted (fun x -> cstr (dec_str x)) rest in
    let m = (match m with "incl" -> RangeMatch_Inclusive | "excl" -> RangeMatch_Exclusive | _ -> failwith "bad mode") in
    show_res (fun l -> ostring_of_int (OLst.length l) ^ OStr.concat "" (OLst.map (function
        | Some (x, y) -> " [" ^ string_of_z x ^ " " ^ string_of_z y ^ "]" | None -> " [none]") l))
      (positionToIndex_vec ss es us m (OLst.nth a.a_dims (oint_of_string d)))
  (* ---- Tag ---- *)
  | ["offcnt"; aid; m] ->
    let a = arr aid and m = mode_of `Offcnt m in
    show_res show_oc (getOffsetAndCount_tag b !the_tag a m)
    ^ " ## " ^ show_sp show_oc3 (offcnt_sp (of_answer (spec_tag_view (incl_of m) !the_tag a)))
  | ["wtagged"; r; m] | ["tagged"; r; m] ->
    let m = mode_of `Retr m and r = oint_of_string r in
    let res = taggedData_tag_ref b !the_tag (z_of_int r) m in
    (match nth_opt !refs r with
     | Some a -> show_res (show_view a.a_shape) res ^ " ## " ^ show_sp show_view3 (of_answer (spec_tag_view (incl_of m) !the_tag a))
     | None -> show_res (fun _ -> "") res ^ " ## ERR nix::OutOfBounds")
  | ["taggeda"; aid; m] ->
    let a = arr aid and m = mode_of `Retr m in
    show_res (show_view a.a_shape) (taggedData_tag b !the_tag a m)
    ^ " ## " ^ show_sp show_view3 (of_answer (spec_tag_view (incl_of m) !the_tag a))
  | ["feature"; k; m] ->
    let m = mode_of `Retr m and k = oint_of_string k in
    let res = featureData_tag b !the_tag (z_of_int k) m in
    (match nth_opt !feats k with
     | Some f -> show_res (show_view f.f_data.a_shape) res ^ " ## " ^ show_sp show_view3 (of_answer (spec_tag_feature (incl_of m) !the_tag f))
     | None -> show_res (fun _ -> "") res ^ " ## ERR nix::OutOfBounds")
  (* ---- MultiTag ---- *)
  | "moffcnt" :: aid :: m :: rest ->
    let a = arr aid and m = mode_of `Offcnt m and idxs = idx_list rest in
    show_res (show_list show_oc) (getOffsetAndCount_mtag b !the_mtag a idxs m)
    ^ " ## " ^ show_sp (show_list show_oc3) (of_answer (spec_mtag_offcnts (incl_of m) !the_mtag a idxs))
  | ["moffcnt1"; aid; m; i] ->
    let a = arr aid and m = mode_of `Offcnt m and i = z_of_string i in
    show_res show_oc (getOffsetAndCount_mtag1 b !the_mtag a i m)
    ^ " ## " ^ show_sp show_oc3 (offcnt_sp (of_answer (spec_mtag_view (incl_of m) !the_mtag a i)))
  | "mtagged" :: r :: m :: rest ->
    let m = mode_of `Retr m and r = oint_of_string r and idxs = idx_list rest in
    let res = taggedData_mtag_ref b !the_mtag idxs (z_of_int r) m in
    (match nth_opt !refs r with
     | Some a ->
       show_res (show_list (show_view a.a_shape)) res
       ^ " ## " ^ show_sp (show_list show_view3) (of_answer (spec_mtag_views (incl_of m) !the_mtag a idxs))
     | None -> show_res (fun _ -> "") res ^ " ## ERR nix::OutOfBounds")
  | ["mwtagged1"; r; m; i] | ["mtagged1"; r; m; i] ->
    let m = mode_of `Retr m and r = oint_of_string r and i = z_of_string i in
    let res = taggedData_mtag1_ref b !the_mtag i (z_of_int r) m in
    (match nth_opt !refs r with
     | Some a -> show_res (show_view a.a_shape) res ^ " ## " ^ show_sp show_view3 (of_answer (spec_mtag_view (incl_of m) !the_mtag a i))
     | None -> show_res (fun _ -> "") res ^ " ## ERR nix::OutOfBounds")
  | "mfeature" :: k :: m :: rest ->
    let m = mode_of `Retr m and k = oint_of_string k and idxs = idx_list rest in
    let res = featureData_mtag b !the_mtag idxs (z_of_int k) m in
    (match nth_opt !feats k with
     | Some f ->
       show_res (show_list (show_view f.f_data.a_shape)) res
       ^ " ## " ^ show_sp (show_list show_view3) (of_answer (spec_mtag_features (incl_of m) !the_mtag f idxs))
     | None -> show_res (fun _ -> "") res ^ " ## ERR nix::OutOfBounds")
  | ["mfeature1"; k; m; i] ->
    let m = mode_of `Retr m and k = oint_of_string k and i = z_of_string i in
    let res = featureData_mtag1 b !the_mtag i (z_of_int k) m in
    (match nth_opt !feats k with
     | Some f -> show_res (show_view f.f_data.a_shape) res ^ " ## " ^ show_sp show_view3 (of_answer (spec_mtag_feature (incl_of m) !the_mtag f i))
     | None -> show_res (fun _ -> "") res ^ " ## ERR nix::OutOfBounds")
  | _ -> failwith ("bad command " ^ OStr.concat " " toks)
