(* use: f64glue *)
(* C14 model driver: same case language as harness/drv_C14.cpp.  The part before "##" is the model
   (Data/Prop.v [step pinned], the code path as pinned), the part after it the specification
   ([spec_step], "the property holds what was last assigned"). *)
let dec_type t = match t with
  | "Bool" -> TBool | "Int32" -> TInt32 | "UInt32" -> TUInt32 | "Int64" -> TInt64 | "UInt64" -> TUInt64
  | "Double" -> TDouble | "String" -> TString
  | "Char" | "Nothing" -> TBad (cstr t)
  | "Int8" | "Int16" | "UInt8" | "UInt16" | "Float" | "Opaque" -> TOther (cstr t)
  | _ -> failwith ("bad type " ^ t)
let enc_type t = match t with
  | TBool -> "Bool" | TInt32 -> "Int32" | TUInt32 -> "UInt32" | TInt64 -> "Int64" | TUInt64 -> "UInt64"
  | TDouble -> "Double" | TString -> "String" | TOther n -> ostr n | TBad n -> ostr n
let after t = let i = OStr.index t ':' in OStr.sub t (i + 1) (OStr.length t - i - 1)
let dec_val t =
  if t = "none" then VNone else
  match OStr.sub t 0 (OStr.index t ':') with
  | "b" -> VBool (after t = "1")
  | "i32" -> VInt32 (z_of_string (after t)) | "u32" -> VUInt32 (z_of_string (after t))
  | "i64" -> VInt64 (z_of_string (after t)) | "u64" -> VUInt64 (z_of_string (after t))
  | "d" -> VDouble (dec_dbl t)
  | "s" -> VString (cstr (dec_str t))
  | _ -> failwith ("bad value " ^ t)
let dec z = Zar.to_string (zarith_of_z z)
let enc_val v = match v with
  | VBool b -> "b:" ^ bool01 b
  | VInt32 z -> "i32:" ^ dec z | VUInt32 z -> "u32:" ^ dec z | VInt64 z -> "i64:" ^ dec z | VUInt64 z -> "u64:" ^ dec z
  | VDouble d -> enc_dbl d
  | VString s -> enc_str (ostr s)
  | VNone -> "none"
let dec_vals toks = match toks with
  | n :: rest -> if oint_of_string n <> OLst.length rest then failwith "bad value count" else OLst.map dec_val rest
  | [] -> failwith "bad value count"
let opt f o = match o with Some x -> f x | None -> "-"
let show_answer a = match a with
  | ADone -> "done"
  | ANoProp -> "noprop"
  | AAbsent -> "absent"
  | ACount n -> dec n
  | ABits bs -> "[" ^ OStr.concat "" (OLst.map (fun b -> " " ^ bool01 b) bs) ^ " ]"
  | AVals vs -> "[" ^ OStr.concat "" (OLst.map (fun v -> " " ^ enc_val v) vs) ^ " ]"
  | AText s -> enc_str (ostr s)
  | ASigns (a, b, c) -> dec a ^ " " ^ dec b ^ " " ^ dec c
  | AObs o ->
    "dt=" ^ enc_type o.o_type ^ " n=" ^ dec o.o_count ^ " v=[" ^ OStr.concat "" (OLst.map (fun v -> " " ^ enc_val v) o.o_vals) ^ " ]"
    ^ " u=" ^ opt (fun s -> enc_str (ostr s)) o.o_unit ^ " e=" ^ opt enc_dbl o.o_unc ^ " d=" ^ opt (fun s -> enc_str (ostr s)) o.o_def
let show_model r = match r with
  | Ok a -> "OK " ^ show_answer a
  | Err e -> "ERR " ^ ostr e
  | UB w -> "UB " ^ ostr w
let show_spec x = match x with Some a -> "OK " ^ show_answer a | None -> "ERR"
(* a route suffix (set:retype, obs:alt, veq:swap ...) says how the harness builds its Variants / reads them: same request *)
let strip_route toks = match toks with
  | c :: r when OStr.contains c ':' -> OStr.sub c 0 (OStr.index c ':') :: r
  | _ -> toks
let get_type t = match t with
  | "CStr" -> TString | "None" -> TBad (cstr "Nothing") | _ -> dec_type t
(* a leading @<h> names the live handle the harness goes through: the model has one property *)
let strip_handle toks = match toks with
  | h :: r when OStr.length h >= 2 && h.[0] = '@' -> r
  | _ -> toks
let parse toks = match strip_route (strip_handle toks) with
  | ["new_t"; t] -> NewT (dec_type t)
  | ["new_v"; v] -> NewV (dec_val v)
  | "new_vs" :: r -> NewVs (dec_vals r)
  | "set" :: r -> SetVals (dec_vals r)
  | ["clear"] -> Clear
  | ["clear_none"] -> ClearNone
  | ["unit"; s] -> SetUnit (cstr (dec_str s))
  | ["unit_none"] -> UnitNone
  | ["unc"; d] -> SetUnc (dec_dbl d)
  | ["unc_none"] -> UncNone
  | ["def"; s] -> SetDef (cstr (dec_str s))
  | ["def_none"] -> DefNone
  | ["reopen"; "ro"] -> Reopen true
  | ["reopen"; "rw"] -> Reopen false
  | ["obs"] -> Obs
  | ["count"] -> Count
  | ["veq"; a; b] -> VEq (dec_val a, dec_val b)
  | ["vget"; v; "NoneT"] | ["vgeto"; v; "NoneT"] -> VGetNoneT (dec_val v)
  | ["vget"; v; t] | ["vgeto"; v; t] -> VGet (get_type t, dec_val v)
  | ["vstr"; v] -> VShow (dec_val v)
  | ["vsup"; t] -> VSup (dec_type t)
  | ["vswap"; a; b] -> VSwap (dec_val a, dec_val b)
  | ["cmp"; n] -> Cmp (cstr (dec_str n))
  | ["pstr"] -> PShow
  | _ -> failwith "bad command"
(* Which tree the model mirrors.  Default: the repaired behaviour (Data/Prop.v [repaired]); the environment
   variable C14_MODEL=pinned selects the four deviations of the originally pinned tree (for replaying old findings). *)
let tree_quirks =
  match OSys.getenv_opt "C14_MODEL" with
  | Some "pinned" -> { q_resize_first = true;        (* PropertyHDF5::values resized before the per-element type check *)
                       q_create_late_check = true;   (* createProperty(name, vector) created before the mixed types were found *)
                       q_accept_unholdable = true;   (* createProperty(name, DataType) accepted Int8/Int16/UInt8/UInt16/Float/Opaque *)
                       q_ro_unc_leak = true }        (* a refused uncertainty(d) on a read-only file showed through until close *)
  | _ -> repaired    (* the four deviations were repaired in /repo (fix: commits b9b9717 491c620 2f44815 945de75) *)
let ms = ref fresh
let ss = ref afresh
let handle toks =
  let o = parse toks in
  let (m', r) = step tree_quirks o !ms in
  let (s', x) = spec_step o !ss in
  ms := m'; ss := s';
  (* compare() of equally named properties answers the bare word "ids" *)
  let raw a = (match o, a with Cmp _, AText s -> ostr s | _ -> show_answer a) in
  (match r with Ok a -> "OK " ^ raw a | Err e -> "ERR " ^ ostr e | UB w -> "UB " ^ ostr w)
  ^ " ## " ^ (match x with Some a -> "OK " ^ raw a | None -> "ERR")
let () = run_file OSys.argv.(1) handle
