(* use: hist_common *)
(* C02 model driver: the script interpreter of hist_common.ml; specification = every reopen shows the same tree *)
let () = run_hist "C02"
