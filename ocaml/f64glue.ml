(* ---- binary64 bit patterns <-> extracted Flocq binary_float (include with "(* use: f64glue *)") ---- *)
let f64_of_bits (b : int64) : binary_float =
  let s = Int64.compare b 0L < 0 in
  let e = Int64.to_int (Int64.logand (Int64.shift_right_logical b 52) 0x7ffL) in
  let m = Int64.logand b 0xfffffffffffffL in
  if e = 0 && m = 0L then B754_zero s
  else if e = 2047 then (if m = 0L then B754_infinity s else B754_nan)
  else
    let mz = Zar.of_int64 m in
    if e = 0 then B754_finite (s, pos_of_zarith mz, z_of_int (-1074))
    else B754_finite (s, pos_of_zarith (Zar.add mz (Zar.shift_left Zar.one 52)), z_of_int (e - 1075))
let bits_of_f64 (x : binary_float) : int64 =
  let sign s = if s then Int64.min_int else 0L in
  match x with
  | B754_zero s -> sign s
  | B754_infinity s -> Int64.logor (sign s) 0x7ff0000000000000L
  | B754_nan -> 0x7ff8000000000000L
  | B754_finite (s, m, e) ->
    (* canonical: either subnormal (e = -1074, m < 2^52) or normal (2^52 <= m < 2^53) *)
    let mz = zarith_of_pos m and ez = int_of_z e in
    (* renormalise non-canonical representations produced by intermediate model values *)
    let rec norm mz ez =
      if Zar.geq mz (Zar.shift_left Zar.one 53) then norm (Zar.shift_right mz 1) (ez + 1)
      else if Zar.lt mz (Zar.shift_left Zar.one 52) && ez > -1074 then norm (Zar.shift_left mz 1) (ez - 1)
      else (mz, ez) in
    let (mz, ez) = norm mz ez in
    if Zar.lt mz (Zar.shift_left Zar.one 52) then Int64.logor (sign s) (Zar.to_int64 mz)
    else
      let frac = Zar.to_int64 (Zar.sub mz (Zar.shift_left Zar.one 52)) in
      Int64.logor (sign s) (Int64.logor (Int64.shift_left (Int64.of_int (ez + 1075)) 52) frac)
(* d:<16 hex> *)
let dec_dbl (t : ostring) : binary_float =
  f64_of_bits (Int64.of_string ("0x" ^ OStr.sub t 2 16))
let enc_dbl (x : binary_float) : ostring = OPrintf.sprintf "d:%016Lx" (bits_of_f64 x)
