(* Script interpreter over the extracted entity-database model (coq/Store/Db*.v); the language and the output
   text are those of harness/hist_common.hpp (see the comment there).  Every line is executed in two worlds:
     cur : the model with [current_behaviour]  -> the answer before "##" (must equal the implementation's)
     rep : the model with [repaired]           -> the specification's answer after "##"
   Specification per line (mode "C03" / "C08"):
     chk / lchk lines (C03): the agreement line computed from the ABSTRACT container of the repaired world
                             (the list of members in creation order; every lookup finds exactly its member)
     every other line (C08): "ERR t=0" when the repaired model rejects the call (the call must be rejected and
                             leave no trace), "NOTRACE" otherwise (if the implementation rejects it, no trace)
     what a mode does not judge is answered ANY (C03: NOCRASH — whatever a lookup answers, it must not crash). *)

let oint_of_string_opt = int_of_string_opt
let rec nat_of_int n = if n <= 0 then O else S (nat_of_int (n - 1))
let rec int_of_nat n = match n with O -> 0 | S m -> 1 + int_of_nat m

let noid = "00000000-0000-0000-0000-000000000000"
let ids_memo : (int, string) OHashtbl.t = OHashtbl.create 64
let ids (k : nat) : string =
  let i = int_of_nat k in
  match OHashtbl.find_opt ids_memo i with
  | Some s -> s
  | None -> let s = cstr (OPrintf.sprintf "1d000000-0000-4000-8000-%012d" i) in OHashtbl.add ids_memo i s; s
let sanitize (u : string) : string = unitSanitizer u
let unit_ok (u : string) : bool = let o = ostr u in o = "" || o = "none" || isSIUnit u

exception Refuse of ostring
let mode_ : ostring ref = ref "C03"

type slot = { kind : char; parent : int; name : ostring; mutable bound : bool; mutable oid : int;
              mutable lost : bool; (* re-identified, noticed at the last liveness refresh: dead for the implementation driver *)
              mutable linked : bool (* some link may have pointed to it at some time *) }
(* [ss]: the session of coq/Store/DbSession.v (the file, the open mode, the deleted-but-open objects); [st] is its file *)
type world = { mutable ss : sess; beh : behaviour; mutable tbl : slot array; mutable n : int;
               ord_of_oid : (int, int) OHashtbl.t; mutable last_dump : ostring;
               mutable quiet : bool (* blind build: the implementation driver observes nothing, so no dump / digest is printed *) }

let new_world beh = { ss = init_sess; beh = beh; tbl = [||]; n = 0; ord_of_oid = OHashtbl.create 64; last_dump = ""; quiet = false }
let reset_world w = w.quiet <- false; w.ss <- init_sess; w.tbl <- [||]; w.n <- 0; OHashtbl.reset w.ord_of_oid

let slot_of w k = if k < 0 || k >= w.n then None else Some w.tbl.(k)
let is_bound w k = match slot_of w k with Some s -> s.bound | None -> false
let is_alive_oid w o = alive (w.ss.s_db) (nat_of_int o)
let slot_alive w s = (not s.lost) && is_alive_oid w s.oid
let is_live w k = match slot_of w k with Some s -> s.bound && slot_alive w s | None -> false

let kind_of_char c = match c with
  | 'B' -> KBlock | 'S' -> KSection | 'P' -> KProperty | 'A' -> KArray | 'D' -> KFrame | 'T' -> KTag
  | 'M' -> KMTag | 'G' -> KGroup | 'R' -> KSource | 'X' -> KFeature | _ -> failwith "bad kind"
let char_of_kind k = match k with
  | KBlock -> 'B' | KSection -> 'S' | KProperty -> 'P' | KArray -> 'A' | KFrame -> 'D' | KTag -> 'T'
  | KMTag -> 'M' | KGroup -> 'G' | KSource -> 'R' | KFeature -> 'X'
let dtype_of_string t = match t with
  | "Bool" -> DBool | "Char" -> DChar | "Float" -> DFloat | "Double" -> DDouble | "Int8" -> DInt8 | "Int16" -> DInt16
  | "Int32" -> DInt32 | "Int64" -> DInt64 | "UInt8" -> DUInt8 | "UInt16" -> DUInt16 | "UInt32" -> DUInt32
  | "UInt64" -> DUInt64 | "String" -> DString | "Opaque" -> DOpaque | "Nothing" -> DNothing | _ -> failwith ("bad dtype " ^ t)
let string_of_dtype d = match d with
  | DBool -> "Bool" | DChar -> "Char" | DFloat -> "Float" | DDouble -> "Double" | DInt8 -> "Int8" | DInt16 -> "Int16"
  | DInt32 -> "Int32" | DInt64 -> "Int64" | DUInt8 -> "UInt8" | DUInt16 -> "UInt16" | DUInt32 -> "UInt32"
  | DUInt64 -> "UInt64" | DString -> "String" | DOpaque -> "Opaque" | DNothing -> "Nothing"
let lslot_of_string t = match t with
  | "ref" -> LRefs | "src" -> LSrcs | "ga" -> LGArr | "gd" -> LGFrm | "gt" -> LGTag | "gm" -> LGMtg | _ -> failwith "bad slot"
let lslot_kind sl = match sl with LRefs -> 'A' | LSrcs -> 'R' | LGArr -> 'A' | LGFrm -> 'D' | LGTag -> 'T' | LGMtg -> 'M'

(* ---- tokens ---- *)
let dec_ref t = if t = "-" || t = "none" then -1 else oint_of_string t
let sub_from s i = OStr.sub s i (OStr.length s - i)
let dec_sarg w (t : ostring) : string =
  if OStr.length t >= 2 && t.[1] = ':' then begin
    match t.[0] with
    | 's' -> cstr (dec_str t)
    | 'n' -> let k = oint_of_string (sub_from t 2) in
      (match slot_of w k with Some s -> cstr s.name | None -> failwith "n: of a future line")
    | 'i' -> let k = oint_of_string (sub_from t 2) in
      (match slot_of w k with Some s when s.bound -> ids (nat_of_int s.oid) | _ -> cstr noid)
    | _ -> failwith "bad string argument"
  end else failwith "bad string argument"

(* receiver: a live entity whose kind is in [kinds]; returns its oid *)
let recv w k kinds =
  if not (is_live w k) then raise (Refuse "driver::receiver");
  let s = w.tbl.(k) in
  if not (OStr.contains kinds s.kind) then raise (Refuse "driver::receiver");
  s.oid
(* argument handle *)
let arg w k kind : harg =
  if k < 0 then HNone else begin
    if k >= w.n then failwith "reference to a future line";
    let s = w.tbl.(k) in
    if s.kind <> kind then raise (Refuse "driver::kind");
    if not s.bound then HNone else begin
      if not (slot_alive w s) then begin
        let p = s.parent in
        if p >= 0 && not (is_live w p) then raise (Refuse "driver::orphan");
        (* a deleted entity that a deleted holder may still link to keeps a valid handle in the implementation *)
        if s.linked then raise (Refuse "driver::zombie")
      end;
      HEnt (nat_of_int s.oid)
    end
  end

(* parent token: (model parent, parent kind char or 'F') ; refuses dead / unknown receivers *)
let parent_of w (ptok : ostring) (kc : char) : nat option * char =
  if ptok = "F" then begin
    if kc <> 'B' && kc <> 'S' then raise (Refuse "driver::receiver");
    (None, 'F') end
  else begin
    let pk = oint_of_string ptok in
    if not (is_live w pk) then raise (Refuse "driver::receiver");
    let s = w.tbl.(pk) in
    let ok = match s.kind, kc with
      | 'S', ('S' | 'P') -> true
      | 'B', ('A' | 'D' | 'T' | 'M' | 'G' | 'R') -> true
      | 'R', 'R' -> true
      | ('T' | 'M'), 'X' -> true
      | _ -> false in
    if not ok then raise (Refuse "driver::receiver");
    (Some (nat_of_int s.oid), s.kind)
  end

(* index getters without a front-end bound check *)
let checked_index pkc kc = match pkc, kc with
  | 'S', 'P' -> false | 'R', 'R' -> false | 'M', 'X' -> false | _ -> true

(* ---- printing ---- *)
(* the implementation driver recognises an entity by its id: a re-identified entity is unknown to it *)
let ord_of w (o : nat) : ostring =
  match OHashtbl.find_opt w.ord_of_oid (int_of_nat o) with
  | Some k -> (match find_ent (w.ss.s_db) o with
      | Some e when int_of_nat (e_idx e) <> int_of_nat (e_oid e) -> "?"
      | _ -> ostring_of_int k)
  | None -> "?"
let ord_opt w (o : nat option) = match o with Some x -> ord_of w x | None -> "-"
let brack l = "[" ^ OStr.concat " " l ^ "]"
let enc (s : string) = enc_str (ostr s)

(* a name that is the id of a known entity is printed as i:<ordinal> *)
let enc_name w (s : string) : ostring =
  let o = ostr s in
  let pre = "1d000000-0000-4000-8000-" in
  if OStr.length o = 36 && OStr.sub o 0 24 = pre then
    (match oint_of_string_opt (OStr.sub o 24 12) with
     | Some oid -> (match OHashtbl.find_opt w.ord_of_oid oid with Some k -> "i:" ^ ostring_of_int k | None -> enc s)
     | None -> enc s)
  else enc s

let show_field w f = match f with
  | FStr (l, Some s) when ostr l = "n" -> "n=" ^ enc_name w s
  | FStr (l, v) -> ostr l ^ "=" ^ (match v with Some s -> enc s | None -> "-")
  | FRef (l, v) -> ostr l ^ "=" ^ ord_opt w v
  | FRefs (l, v) -> ostr l ^ "=" ^ brack (OLst.map (ord_of w) v)
  | FStrs (l, v) -> ostr l ^ "=" ^ (match v with Some x -> brack (OLst.map enc x) | None -> "-")
  | FRaws (l, v) -> ostr l ^ "=" ^ (match v with Some x -> brack (OLst.map ostr x) | None -> "-")
  | FZs (l, v) -> ostr l ^ "=" ^ brack (OLst.map string_of_z v)
  | FDt (l, v) -> ostr l ^ "=" ^ string_of_dtype v
  | FCols (l, v) -> ostr l ^ "=" ^ brack (OLst.map (fun c -> enc c.c_name ^ ":" ^ string_of_dtype c.c_dtype ^ ":" ^ enc c.c_unit) v)
  | FDims (l, v) -> ostr l ^ "=" ^ brack (OLst.map (fun d -> match d with
      | DimSet -> "set" | DimRange -> "range" | DimSampled -> "sampled" | DimAlias -> "alias"
      | DimFrame f -> "frame:" ^ ord_opt w f) v)

let dump w : ostring =
  let (root, lines) = observe (w.ss.s_db) in
  let known = ref [] and unknown = ref [] in
  OLst.iter (fun ln ->
      let key = if ln.ln_id_ok then OHashtbl.find_opt w.ord_of_oid (int_of_nat ln.ln_oid) else None in
      let ks = match key with Some k -> ostring_of_int k | None -> "?" in
      let ps = match ln.ln_parent with None -> "F" | Some p -> ord_of w p in
      (* a frame left behind by today's createDataFrame with an empty type has neither a type nor a name
         attribute: the implementation's getters throw (printed "!") *)
      let broken = (match ln.ln_kind with KFrame -> OLst.exists (fun f -> match f with FStr (l, Some v) -> ostr l = "t" && ostr v = "" | _ -> false) ln.ln_fields | _ -> false) in
      let show f = (match f with
          | FStr (l, _) when broken && (ostr l = "t" || ostr l = "n") -> ostr l ^ "=!"
          | _ -> show_field w f) in
      let txt = OStr.make 1 (char_of_kind ln.ln_kind) ^ ks ^ " p=" ^ ps ^ " " ^
                OStr.concat " " (OLst.map show ln.ln_fields) in
      match key with
      | Some k -> known := (k, txt) :: !known
      | None -> unknown := txt :: !unknown) lines;
  let known = OLst.stable_sort (fun (a, _) (b, _) -> compare a b) (OLst.rev !known) in
  let all = OLst.map snd known @ OLst.sort compare !unknown in
  OStr.concat " | " (("F " ^ OStr.concat " " (OLst.map (show_field w) root)) :: all)

let fnv (s : ostring) : int =
  let h = ref 2166136261 in
  OStr.iter (fun c -> h := (!h lxor OChr.code c) land 0xFFFFFFFF; h := (!h * 16777619) land 0xFFFFFFFF) s;
  !h

(* ---- running an op ---- *)
let run_sop w (x : sop) : value res =
  let (s', r) = sstep ids sanitize unit_ok w.beh w.ss x in
  w.ss <- s'; r
let run_op w (o : op) : value res = run_sop w (SOp o)

let show_err r = match r with Err e -> "ERR " ^ ostr e | UB u -> "UB " ^ ostr u | Ok _ -> assert false
let show_value w v = match v with
  | VUnit -> "-"
  | VBool b -> bool01 b
  | VNat n -> ostring_of_int (int_of_nat n)
  | VEnt o -> ord_opt w o
  | VEnts l -> brack (OLst.map (ord_of w) l)
let show w r = match r with Ok v -> "OK " ^ show_value w v | _ -> show_err r

exception Thrown

(* a query inside chk: the value text, or "!" when the call throws *)
exception ModelUB of ostring
let q w (o : op) : ostring = match run_op w o with Ok v -> show_value w v | Err _ -> "!" | UB u -> raise (ModelUB (ostr u))

let sl_arg_kind = lslot_kind

let chk_line w (ptok : ostring) (kc : char) : ostring =
  let (p, pkc) = parent_of w ptok kc in
  let k = kind_of_char kc in
  let named = kc <> 'X' in
  let n = (match run_op w (OCount (p, k)) with Ok (VNat n) -> int_of_nat n | _ -> raise Thrown) in
  let idx = ref [] and byname = ref [] and byid = ref [] and hasn = ref [] and hasi = ref [] and hash = ref [] in
  for i = 0 to n - 1 do
    let r = run_op w (OGetIdx (p, k, nat_of_int i)) in
    match r with
    | Ok (VEnt (Some oid)) ->
      (match find_ent (w.ss.s_db) oid with
       | Some e ->
         let id = ids (e_idx e) and nm = e_name e in
         (* C++ geti_full: id(), name(), has(handle) — a throw there makes the whole entry "!" *)
         (match run_op w (OHasH (p, k, HEnt oid)) with
          | Ok (VBool hh) ->
            idx := ord_of w oid :: !idx;
            byid := q w (OGet (p, k, id)) :: !byid;
            hasi := q w (OHas (p, k, id)) :: !hasi;
            hash := bool01 hh :: !hash;
            if named then begin
              byname := q w (OGet (p, k, nm)) :: !byname;
              hasn := q w (OHas (p, k, nm)) :: !hasn end
          | _ -> idx := "!" :: !idx; byname := "!" :: !byname; byid := "!" :: !byid; hasn := "!" :: !hasn;
            hasi := "!" :: !hasi; hash := "!" :: !hash)
       | None -> idx := "!" :: !idx; byname := "!" :: !byname; byid := "!" :: !byid; hasn := "!" :: !hasn;
         hasi := "!" :: !hasi; hash := "!" :: !hash)
    | Ok (VEnt None) -> idx := "-" :: !idx; byname := "!" :: !byname; byid := "!" :: !byid; hasn := "!" :: !hasn;
      hasi := "!" :: !hasi; hash := "!" :: !hash
    | _ -> idx := "!" :: !idx; byname := "!" :: !byname; byid := "!" :: !byid; hasn := "!" :: !hasn;
      hasi := "!" :: !hasi; hash := "!" :: !hash
  done;
  let r l = brack (OLst.rev !l) in
  let out = "cnt=" ^ ostring_of_int n ^ " idx=" ^ r idx ^ (if named then " byname=" ^ r byname else "") ^ " byid=" ^ r byid ^
            (if named then " hasn=" ^ r hasn else "") ^ " hasi=" ^ r hasi ^ " hash=" ^ r hash ^
            " enum=" ^ q w (OList (p, k)) in
  let pk = if ptok = "F" then -1 else oint_of_string ptok in
  let gone = ref [] in
  for j = 0 to w.n - 1 do
    let s = w.tbl.(j) in
    if s.bound && not (slot_alive w s) && s.kind = kc && s.parent = pk then begin
      let id = ids (nat_of_int s.oid) in
      let hh = (try (match arg w j kc with a -> q w (OHasH (p, k, a))) with Refuse _ -> "!") in
      gone := (ostring_of_int j ^ ":" ^ q w (OHas (p, k, id)) ^ ":" ^ q w (OGet (p, k, id)) ^ ":" ^ hh) :: !gone
    end
  done;
  out ^ " gone=" ^ brack (OLst.rev !gone)

(* the specification's agreement line: the abstract container *)
let chk_spec w (ptok : ostring) (kc : char) : ostring =
  let (p, _) = parent_of w ptok kc in
  let k = kind_of_char kc in
  let named = kc <> 'X' in
  let l = OLst.map (fun e -> ord_of w (e_oid e)) (children (w.ss.s_db) p k) in
  let ones = brack (OLst.map (fun _ -> "1") l) in
  let ll = brack l in
  let pk = if ptok = "F" then -1 else oint_of_string ptok in
  let gone = ref [] in
  for j = 0 to w.n - 1 do
    let s = w.tbl.(j) in
    if s.bound && not (slot_alive w s) && s.kind = kc && s.parent = pk then begin
      (* the id of a deleted member matches nothing — unless a live member is NAMED like that id (a legal name) *)
      let id = ostr (ids (nat_of_int s.oid)) in
      (* has by the stale handle: 0 — not asked ("!") when the drivers refuse the handle as possibly zombie-held *)
      let hh = if s.linked then "!" else "0" in
      match OLst.find_opt (fun e -> ostr (e_name e) = id) (children (w.ss.s_db) p k) with
      | Some x -> gone := (ostring_of_int j ^ ":1:" ^ ord_of w (e_oid x) ^ ":" ^ hh) :: !gone
      | None -> gone := (ostring_of_int j ^ ":0:-:" ^ hh) :: !gone
    end
  done;
  "cnt=" ^ ostring_of_int (OLst.length l) ^ " idx=" ^ ll ^ (if named then " byname=" ^ ll else "") ^ " byid=" ^ ll ^
  (if named then " hasn=" ^ ones else "") ^ " hasi=" ^ ones ^ " hash=" ^ ones ^ " enum=" ^ ll ^ " gone=" ^ brack (OLst.rev !gone)

let holder w hk (sl : lslot) : nat =
  if not (is_live w hk) then raise (Refuse "driver::receiver");
  let s = w.tbl.(hk) in
  let ok = match sl, s.kind with
    | LRefs, ('T' | 'M') -> true
    | LSrcs, ('A' | 'D' | 'T' | 'M' | 'G') -> true
    | (LGArr | LGFrm | LGTag | LGMtg), 'G' -> true
    | _ -> false in
  if not ok then raise (Refuse "driver::receiver");
  nat_of_int s.oid

let lchk_line w hk (sl : lslot) : ostring =
  let h = holder w hk sl in
  let n = (match run_op w (OLCount (h, sl)) with Ok (VNat n) -> int_of_nat n | _ -> raise Thrown) in
  let idx = ref [] and byname = ref [] and byid = ref [] and hasn = ref [] and hasi = ref [] and hash = ref [] in
  let bad () = byname := "!" :: !byname; byid := "!" :: !byid; hasn := "!" :: !hasn; hasi := "!" :: !hasi; hash := "!" :: !hash in
  for i = 0 to n - 1 do
    match run_op w (OLGetIdx (h, sl, nat_of_int i)) with
    | Ok (VEnt (Some oid)) ->
      (match find_ent (w.ss.s_db) oid with
       | Some e ->
         let id = ids (e_idx e) and nm = e_name e in
         (match run_op w (OLHas (h, sl, HEnt oid)) with
          | Ok (VBool hh) ->
            idx := ord_of w oid :: !idx;
            byname := q w (OLGet (h, sl, nm)) :: !byname;
            byid := q w (OLGet (h, sl, id)) :: !byid;
            hasn := q w (OLHasS (h, sl, nm)) :: !hasn;
            hasi := q w (OLHasS (h, sl, id)) :: !hasi;
            hash := bool01 hh :: !hash
          | _ -> idx := "!" :: !idx; bad ())
       | None -> idx := "!" :: !idx; bad ())
    | Ok (VEnt None) -> idx := "-" :: !idx; bad ()
    | _ -> idx := "!" :: !idx; bad ()
  done;
  let r l = brack (OLst.rev !l) in
  "cnt=" ^ ostring_of_int n ^ " idx=" ^ r idx ^ " byname=" ^ r byname ^ " byid=" ^ r byid ^ " hasn=" ^ r hasn ^
  " hasi=" ^ r hasi ^ " hash=" ^ r hash ^ " enum=" ^ q w (OLList (h, sl))

let lchk_spec w hk (sl : lslot) : ostring =
  let h = holder w hk sl in
  let oids = (match find_ent (w.ss.s_db) h with Some e -> get_l sl e.e_links | None -> []) in
  let ms = OLst.filter_map (fun o -> find_ent (w.ss.s_db) o) oids in
  let l = OLst.map (ord_of w) oids in
  let ones = brack (OLst.map (fun _ -> "1") l) in
  let ll = brack l in
  (* by name: names are unique per PARENT, the targets of one link container may have different parents
     (entity sources): the lookup answers with the first member of that id, else the first of that name *)
  let byname = OLst.map (fun t ->
      let n = ostr (e_name t) in
      match OLst.find_opt (fun x -> ostr (ids (e_idx x)) = n) ms with
      | Some x -> ord_of w (e_oid x)
      | None -> (match OLst.find_opt (fun x -> ostr (e_name x) = n) ms with Some x -> ord_of w (e_oid x) | None -> "-")) ms in
  "cnt=" ^ ostring_of_int (OLst.length l) ^ " idx=" ^ ll ^ " byname=" ^ brack byname ^ " byid=" ^ ll ^ " hasn=" ^ ones ^
  " hasi=" ^ ones ^ " hash=" ^ ones ^ " enum=" ^ ll

(* ---- one line in one world; returns the head ("OK v" / "ERR cls" / "UB why") ---- *)
let ntake l n = OLst.filteri (fun i _ -> i < n) l
let rec drop l n = if n <= 0 then l else match l with [] -> [] | _ :: r -> drop r (n - 1)

let do_mk w toks : ostring =
  match toks with
  | _ :: ptok :: kt :: name :: ty :: extra ->
    let k = w.n in
    let kc = kt.[0] in
    (* the slot exists from now on, bound or not *)
    let pk = if ptok = "F" then -1 else oint_of_string ptok in
    w.tbl <- Array.append w.tbl [| { kind = kc; parent = pk; name = ""; bound = false; oid = -1; lost = false; linked = false } |];
    w.n <- k + 1;
    let nm_c = dec_sarg w name in
    w.tbl.(k) <- { (w.tbl.(k)) with name = ostr nm_c };
    let ty_c = dec_sarg w ty in
    let (p, pkc) = parent_of w ptok kc in
    let x = (match kc, extra with
        | ('B' | 'S' | 'G' | 'R'), _ -> XNone
        | 'A', "from" :: mt :: n :: dt :: _ -> XArrayT (dtype_of_string mt, z_of_string n, (if dt = "-" then DNothing else dtype_of_string dt))
        | 'A', dt :: rank :: dims -> XArray (dtype_of_string dt, OLst.map z_of_string (ntake dims (oint_of_string rank)))
        | 'D', n :: rest ->
          let n = oint_of_string n in
          let rec cols i r = if i >= n then [] else (match r with
              | a :: b :: c :: r' -> { c_name = cstr (dec_str a); c_dtype = dtype_of_string b; c_unit = cstr (dec_str c) } :: cols (i + 1) r'
              | _ -> failwith "bad columns") in
          XFrame (cols 0 rest)
        | 'T', n :: rest -> XTag (OLst.map cstr (ntake rest (oint_of_string n)))
        | 'M', [r] -> XMTag (arg w (dec_ref r) 'A')
        | 'P', ["t"; dt] -> XPropT (dtype_of_string dt)
        | 'P', "v" :: n :: rest -> XPropV (OLst.map dtype_of_string (ntake rest (oint_of_string n)))
        | 'X', ["h"; r; lt] -> XFeatH (arg w (dec_ref r) 'A', cstr lt)
        | 'X', ["s"; s; lt] -> XFeatS (dec_sarg w s, cstr lt)
        | _ -> failwith "bad mk line") in
    (match run_op w (OCreate (p, kind_of_char kc, nm_c, ty_c, x)) with
     | Ok (VEnt (Some oid)) ->
       let o = int_of_nat oid in
       w.tbl.(k).bound <- true; w.tbl.(k).oid <- o;
       OHashtbl.replace w.ord_of_oid o k;
       "OK " ^ ostring_of_int k
     | Ok _ -> failwith "create returned no entity"
     | r -> show_err r)
  | _ -> failwith "bad mk line"

let fspec w (fk : ostring) (a : ostring) (kc : char) : efilter =
  (* what the implementation driver refuses: a filter the entity kind has no getter for *)
  let named = kc <> 'X' and typed = kc <> 'X' && kc <> 'P' in
  let has_meta = OStr.contains "BRADTMG" kc and has_src = OStr.contains "ADTMG" kc in
  let oid_of r = (let k = dec_ref r in match slot_of w k with
      | Some s when s.bound && slot_alive w s -> Some (nat_of_int s.oid) | _ -> None) in
  match fk with
  | "id" -> FId (dec_sarg w a)
  | "name" -> if named then FName (dec_sarg w a) else raise (Refuse "driver::kind")
  | "notname" -> if named then FNotName (dec_sarg w a) else raise (Refuse "driver::kind")
  | "type" -> if typed then FType (dec_sarg w a) else raise (Refuse "driver::kind")
  | "meta" -> if has_meta then FMeta (oid_of a) else raise (Refuse "driver::kind")
  | "src" -> if has_src then FSrc (oid_of a) else raise (Refuse "driver::kind")
  | _ -> failwith ("bad filter " ^ fk)

let do_line w toks : ostring =
  let num t = oint_of_string t in
  match toks with
  | "mk" :: _ -> do_mk w toks
  | [("del" | "has" | "get") as c; ptok; kt; s] ->
    let kc = kt.[0] in let (p, _) = parent_of w ptok kc in
    let k = kind_of_char kc and key = dec_sarg w s in
    show w (run_op w (match c with "del" -> ODelete (p, k, key) | "has" -> OHas (p, k, key) | _ -> OGet (p, k, key)))
  | [("delh" | "hash") as c; ptok; kt; r] ->
    let kc = kt.[0] in let (p, _) = parent_of w ptok kc in
    let k = kind_of_char kc in
    let a = arg w (dec_ref r) kc in
    show w (run_op w (if c = "delh" then ODeleteH (p, k, a) else OHasH (p, k, a)))
  | ["geti"; ptok; kt; i] ->
    let kc = kt.[0] in let (p, _) = parent_of w ptok kc in
    show w (run_op w (OGetIdx (p, kind_of_char kc, nat_of_int (num i))))
  | ["cnt"; ptok; kt] -> let kc = kt.[0] in let (p, _) = parent_of w ptok kc in show w (run_op w (OCount (p, kind_of_char kc)))
  | ["ls"; ptok; kt] -> let kc = kt.[0] in let (p, _) = parent_of w ptok kc in show w (run_op w (OList (p, kind_of_char kc)))
  | ["chk"; ptok; kt] -> (try "OK " ^ chk_line w ptok kt.[0] with Thrown -> "ERR model::chk")
  | ["lchk"; h; sl] -> (try "OK " ^ lchk_line w (num h) (lslot_of_string sl) with Thrown -> "ERR model::chk")
  | [("ladd" | "lrm" | "lhas") as c; h; sl; r] ->
    let sl = lslot_of_string sl in
    let hh = holder w (num h) sl in
    let a = arg w (dec_ref r) (lslot_kind sl) in
    show w (run_op w (match c with "ladd" -> OLAdd (hh, sl, a) | "lrm" -> OLRemove (hh, sl, a) | _ -> OLHas (hh, sl, a)))
  | [("ladds" | "lrms" | "lhass" | "lget") as c; h; sl; s] ->
    let sl = lslot_of_string sl in
    let hh = holder w (num h) sl in
    let key = dec_sarg w s in
    show w (run_op w (match c with "ladds" -> OLAddS (hh, sl, key) | "lrms" -> OLRemoveS (hh, sl, key)
                               | "lhass" -> OLHasS (hh, sl, key) | _ -> OLGet (hh, sl, key)))
  | ["lgeti"; h; sl; i] -> let sl = lslot_of_string sl in let hh = holder w (num h) sl in
    show w (run_op w (OLGetIdx (hh, sl, nat_of_int (num i))))
  | ["lcnt"; h; sl] -> let sl = lslot_of_string sl in let hh = holder w (num h) sl in show w (run_op w (OLCount (hh, sl)))
  | ["lls"; h; sl] -> let sl = lslot_of_string sl in let hh = holder w (num h) sl in show w (run_op w (OLList (hh, sl)))
  | "lset" :: h :: sl :: n :: refs ->
    let sl = lslot_of_string sl in
    let hh = holder w (num h) sl in
    let l = OLst.map (fun r -> arg w (dec_ref r) (lslot_kind sl)) (ntake refs (num n)) in
    show w (run_op w (OLSet (hh, sl, l)))
  | ["settype"; o; s] -> let oid = recv w (num o) "BSRADTMG" in show w (run_op w (OSetType (nat_of_int oid, dec_sarg w s)))
  | ["setdef"; o; s] -> let oid = recv w (num o) "BSRADTMGP" in
    show w (run_op w (OSetDef (nat_of_int oid, if s = "-" then None else Some (dec_sarg w s))))
  | ["setmeta"; o; r] -> let oid = recv w (num o) "BRADTMG" in let a = arg w (dec_ref r) 'S' in show w (run_op w (OSetMeta (nat_of_int oid, a)))
  | ["setmetas"; o; s] -> let oid = recv w (num o) "BRADTMG" in show w (run_op w (OSetMetaS (nat_of_int oid, dec_sarg w s)))
  | ["setlink"; o; r] -> let oid = recv w (num o) "S" in let a = arg w (dec_ref r) 'S' in show w (run_op w (OSetLink (nat_of_int oid, a)))
  | ["setlinks"; o; s] -> let oid = recv w (num o) "S" in show w (run_op w (OSetLinkS (nat_of_int oid, dec_sarg w s)))
  | ["setpos"; o; r] -> let oid = recv w (num o) "M" in let a = arg w (dec_ref r) 'A' in show w (run_op w (OSetPos (nat_of_int oid, a)))
  | ["setposs"; o; s] -> let oid = recv w (num o) "M" in show w (run_op w (OSetPosS (nat_of_int oid, dec_sarg w s)))
  | ["setext"; o; r] -> let oid = recv w (num o) "M" in let a = arg w (dec_ref r) 'A' in show w (run_op w (OSetExt (nat_of_int oid, a)))
  | ["setexts"; o; s] -> let oid = recv w (num o) "M" in show w (run_op w (OSetExtS (nat_of_int oid, dec_sarg w s)))
  | ["setdata"; o; r] -> let oid = recv w (num o) "X" in let a = arg w (dec_ref r) 'A' in show w (run_op w (OSetData (nat_of_int oid, a)))
  | ["setdatas"; o; s] -> let oid = recv w (num o) "X" in show w (run_op w (OSetDataS (nat_of_int oid, dec_sarg w s)))
  | "setunits" :: o :: rest -> let oid = recv w (num o) "TM" in
    let u = (match rest with ["-"] -> None | n :: us -> Some (OLst.map (fun t -> cstr (dec_str t)) (ntake us (num n))) | _ -> failwith "bad setunits") in
    show w (run_op w (OSetUnits (nat_of_int oid, u)))
  | "setextent" :: o :: rank :: dims -> let oid = recv w (num o) "A" in
    show w (run_op w (OSetExtent (nat_of_int oid, OLst.map z_of_string (ntake dims (num rank)))))
  | "setvals" :: o :: n :: dts -> let oid = recv w (num o) "P" in
    show w (run_op w (OSetValues (nat_of_int oid, OLst.map dtype_of_string (ntake dts (num n)))))
  | "settpos" :: o :: n :: ds -> let oid = recv w (num o) "T" in
    show w (run_op w (OSetTagPos (nat_of_int oid, OLst.map cstr (ntake ds (num n)))))
  | "settext" :: o :: rest -> let oid = recv w (num o) "T" in
    let x = (match rest with ["-"] -> None | n :: ds -> Some (OLst.map cstr (ntake ds (num n))) | _ -> failwith "bad settext") in
    show w (run_op w (OSetTagExt (nat_of_int oid, x)))
  | ["dim"; o; k] ->
    let oid = recv w (num o) "A" in
    let d = (match k with "set" -> DimSet | "range" -> DimRange | "sampled" -> DimSampled | "alias" -> DimAlias | _ -> failwith "bad dimension kind") in
    show w (run_op w (ODimAdd (nat_of_int oid, d, HNone)))
  | "dim" :: o :: "frame" :: r :: rest ->
    let oid = recv w (num o) "A" in
    (* the overload with a column index: the front end compares it with the frame's columns FIRST (index >= #columns since b527e42:
       OutOfBounds — of a none handle that dereferences nothing: UninitializedEntity either way) *)
    let a = arg w (dec_ref r) 'D' in
    let too_big = (match rest, a with
        | [c], HEnt f -> (match find_ent (w.ss.s_db) f with
            | Some e -> oint_of_string c >= OLst.length e.e_pay.p_cols
            | None -> false)
        | _ -> false) in
    if too_big then (match w.ss.s_mode with Some _ -> "ERR nix::OutOfBounds" | None -> "ERR nix::UninitializedEntity")
    else show w (run_op w (ODimAdd (nat_of_int oid, DimFrame None, a)))
  | ["deldims"; o] -> let oid = recv w (num o) "A" in show w (run_op w (ODimClear (nat_of_int oid)))
  | ["frows"; o; n] -> let oid = recv w (num o) "D" in show w (run_op w (OSetExtent (nat_of_int oid, [z_of_string n])))
  (* writes of fields the model does not carry: well-formed by construction of the generators *)
  | [("setlabel" | "setunit" | "setorigin"); o; _] -> let oid = recv w (num o) "A" in show w (run_op w (OTouch (nat_of_int oid, [KArray])))
  | "setpoly" :: o :: _ -> let oid = recv w (num o) "A" in show w (run_op w (OTouch (nat_of_int oid, [KArray])))
  | ["wdata"; o; _] -> let oid = recv w (num o) "A" in show w (run_op w (OTouch (nat_of_int oid, [KArray])))
  | ["dimset"; o; _; _] -> let oid = recv w (num o) "A" in show w (run_op w (OTouch (nat_of_int oid, [KArray])))
  | ["wrow"; o; _; _] -> let oid = recv w (num o) "D" in show w (run_op w (OTouch (nat_of_int oid, [KFrame])))
  | [("punit" | "puncert"); o; _] -> let oid = recv w (num o) "P" in show w (run_op w (OTouch (nat_of_int oid, [KProperty])))
  | ["setrepo"; o; _] -> let oid = recv w (num o) "S" in show w (run_op w (OTouch (nat_of_int oid, [KSection])))
  | ["forcecreated"; "F"; _] -> (match w.ss.s_mode with Some MRW -> "OK -" | _ -> "ERR nix::hdf5::H5Error")
  | ["forcecreated"; o; _] -> let oid = recv w (num o) "BSRADTMGPX" in
    show w (run_op w (OTouch (nat_of_int oid, [KBlock; KSection; KSource; KArray; KFrame; KTag; KMTag; KGroup; KProperty; KFeature])))
  | ["sdata"; o; mt; n] -> let oid = recv w (num o) "A" in
    show w (run_op w (OSetDataT (nat_of_int oid, dtype_of_string mt, [z_of_string n])))
  | "adata" :: o :: mt :: axis :: rank :: cnt -> let oid = recv w (num o) "A" in
    show w (run_op w (OAppendData (nat_of_int oid, dtype_of_string mt, OLst.map z_of_string (ntake cnt (num rank)), nat_of_int (num axis))))
  | ["setlt"; o; lt] -> let oid = recv w (num o) "X" in show w (run_op w (OSetLtype (nat_of_int oid, cstr lt)))
  | ["touchupd"; o; _] -> let oid = recv w (num o) "BSRADTMGPX" in
    show w (run_op w (OTouch (nat_of_int oid, [KBlock; KSection; KSource; KArray; KFrame; KTag; KMTag; KGroup; KProperty; KFeature])))
  | ["wrowbad"; o; row; how] ->
    (* refused by the library: the row is past the end / the value cannot be converted / there are more values than columns;
       a frame without rows refuses every row *)
    let oid = recv w (num o) "D" in
    (match find_ent (w.ss.s_db) (nat_of_int oid), w.ss.s_mode with
     | Some e, Some _ ->
       let rows = (match e.e_pay.p_extent with [n] -> int_of_z n | _ -> 0) in
       if how = "row" && oint_of_string row < rows then show w (run_op w (OTouch (nat_of_int oid, [KFrame])))
       else "ERR nix::hdf5::H5Error"
     | _ -> "ERR nix::UninitializedEntity")
  | ["lsf"; ptok; kt; fk; a] ->
    let kc = kt.[0] in let (p, _) = parent_of w ptok kc in
    let f = fspec w fk a kc in
    let l = brack (OLst.map (ord_of w) (list_filtered ids (w.ss.s_db) p (kind_of_char kc) f)) in
    "OK flt=" ^ l ^ " idx=" ^ l
  | ["llsf"; h; sl; fk; a] ->
    let sl = lslot_of_string sl in let hh = holder w (num h) sl in
    let f = fspec w fk a (lslot_kind sl) in
    let l = brack (OLst.map (ord_of w) (members_filtered ids (w.ss.s_db) hh sl f)) in
    "OK flt=" ^ l ^ " idx=" ^ l
  | ["dimsf"; o; want] ->
    let oid = recv w (num o) "A" in
    let kname d = (match d with DimSet -> "set" | DimRange -> "range" | DimSampled -> "sampled" | DimAlias -> "alias" | DimFrame _ -> "frame") in
    let l = brack (OLst.map (fun (i, d) -> ostring_of_int (int_of_nat i) ^ ":" ^ kname d)
                     (dims_filtered (w.ss.s_db) (nat_of_int oid) (fun d -> kname d = want))) in
    "OK flt=" ^ l ^ " idx=" ^ l
  | ["posq"; o] ->
    let oid = recv w (num o) "M" in
    "OK hp=" ^ bool01 (has_positions (w.ss.s_db) (nat_of_int oid)) ^ " np=" ^
    (match position_count (w.ss.s_db) (nat_of_int oid) with Some n -> string_of_z n | None -> "!")
  | "colq" :: o :: nn :: rest ->
    let oid = recv w (num o) "D" in
    let nn = num nn in
    let names = OLst.map (fun t -> cstr (dec_str t)) (ntake rest nn) in
    let rest' = drop rest nn in
    let idx = (match rest' with ni :: r -> OLst.map (fun t -> nat_of_int (num t)) (ntake r (num ni)) | [] -> []) in
    (match find_ent (w.ss.s_db) (nat_of_int oid) with
     | Some e ->
       let cols = e.e_pay.p_cols in
       let ci = col_indices cols names and cn = col_names cols idx in
       let a = if OLst.exists (fun x -> x = None) ci then "!" else brack (OLst.map (fun x -> match x with Some i -> ostring_of_int (int_of_nat i) | None -> "?") ci) in
       let b = if OLst.exists (fun x -> x = None) cn then "!" else brack (OLst.map (fun x -> match x with Some s -> enc s | None -> "?") cn) in
       "OK ci=" ^ a ^ " cn=" ^ b
     | None -> "ERR model::frame")
  | ["flush"] -> show w (run_sop w SFlush)
  | c :: _ -> failwith ("bad command " ^ c)
  | [] -> failwith "empty line"


(* ---- the delete report (C04), computed on the model's own dump text exactly as harness/hist_common.hpp does ---- *)
let split_fields (line : ostring) : ostring list =
  let out = ref [] and cur = OBuffer.create 32 and depth = ref 0 in
  OStr.iter (fun ch ->
      if ch = '[' then incr depth;
      if ch = ']' then decr depth;
      if ch = ' ' && !depth = 0 then begin
        if OBuffer.length cur > 0 then out := OBuffer.contents cur :: !out;
        OBuffer.clear cur end
      else OBuffer.add_char cur ch) line;
  if OBuffer.length cur > 0 then out := OBuffer.contents cur :: !out;
  OLst.rev !out
let split_bar (d : ostring) : ostring list =
  let n = OStr.length d in
  let rec go i acc =
    let rec find j = if j + 3 > n then -1 else if OStr.sub d j 3 = " | " then j else find (j + 1) in
    let j = find i in
    if j < 0 then OLst.rev (OStr.sub d i (n - i) :: acc) else go (j + 3) (OStr.sub d i (j - i) :: acc) in
  go 0 []
let is_num (s : ostring) = s <> "" && (let ok = ref true in OStr.iter (fun c -> if c < '0' || c > '9' then ok := false) s; !ok)
let ref_class (k : char) (label : ostring) : int =
  if OLst.mem label ["B"; "S"; "P"; "A"; "D"; "T"; "M"; "G"; "R"; "X"; "refs"; "src"; "ga"; "gd"; "gt"; "gm"] then 1
  else if label = "meta" || label = "link" || label = "data" then 2
  else if k = 'M' && (label = "pos" || label = "ext") then 2
  else if label = "dims" then 3 else 0
let list_items (v : ostring) : ostring list =
  let n = OStr.length v in
  if n < 2 || v.[0] <> '[' then [] else OLst.filter (fun x -> x <> "") (OStr.split_on_char ' ' (OStr.sub v 1 (n - 2)))
let label_value (f : ostring) : (ostring * ostring) option =
  match OStr.index_opt f '=' with
  | Some i -> Some (OStr.sub f 0 i, OStr.sub f (i + 1) (OStr.length f - i - 1))
  | None -> None
let starts_with (p : ostring) (s : ostring) = OStr.length s >= OStr.length p && OStr.sub s 0 (OStr.length p) = p
let dangling_in (d : ostring) (dead : int list) : ostring list =
  let out = ref [] in
  OLst.iter (fun ln ->
      match split_fields ln with
      | [] -> ()
      | h :: fs ->
        let k = h.[0] in
        OLst.iter (fun f -> match label_value f with
            | None -> ()
            | Some (label, v) ->
              let items = (match ref_class k label with
                  | 1 -> list_items v
                  | 2 -> [v]
                  | 3 -> OLst.filter_map (fun x -> if starts_with "frame:" x then Some (sub_from x 6) else None) (list_items v)
                  | _ -> []) in
              OLst.iter (fun x -> if is_num x && OLst.mem (oint_of_string x) dead then out := (h ^ "." ^ label ^ ":" ^ x) :: !out) items) fs)
    (split_bar d);
  OLst.rev !out
let scrub_dump (d : ostring) (dead : int list) : ostring =
  let gone x = is_num x && OLst.mem (oint_of_string x) dead in
  let lines = OLst.filter_map (fun ln ->
      match split_fields ln with
      | [] -> None
      | h :: fs ->
        let k = h.[0] in
        let o = sub_from h 1 in
        if (k <> 'F' || OStr.length h > 1) && gone o then None else
          Some (OStr.concat " " (h :: OLst.map (fun f -> match label_value f with
              | None -> f
              | Some (label, v) ->
                let v' = (match ref_class k label with
                    | 1 -> brack (OLst.filter (fun x -> not (gone x)) (list_items v))
                    | 2 -> if gone v then "-" else v
                    | 3 -> brack (OLst.map (fun x -> if starts_with "frame:" x && gone (sub_from x 6) then "frame:-" else x) (list_items v))
                    | _ -> v) in
                label ^ "=" ^ v') fs))) (split_bar d) in
  OStr.concat " | " lines

(* the entities the implementation driver regards as dead: deleted, or no longer known under their id *)
let dead_slots w : int list =
  let out = ref [] in
  for j = w.n - 1 downto 0 do
    let s = w.tbl.(j) in
    if s.bound && not (slot_alive w s) then out := j :: !out
  done;
  !out

let delete_report w (before : ostring) (after : ostring) (was_alive : bool array) : ostring =
  let all_dead = dead_slots w in
  let now_dead = OLst.filter (fun j -> j < Array.length was_alive && was_alive.(j)) all_dead in
  let zv = OLst.filter (fun j -> handle_valid w.beh w.ss.s_db w.ss.s_ghosts (HEnt (nat_of_int w.tbl.(j).oid))) all_dead in
  " dead=" ^ brack (OLst.map ostring_of_int now_dead) ^ " dang=" ^ brack (dangling_in after all_dead) ^
  " zv=" ^ brack (OLst.map ostring_of_int zv) ^ " frame=" ^ bool01 (scrub_dump before now_dead = after)

let tail_of before now = OPrintf.sprintf " t=%d h=%08x" (if before = now then 0 else 1) (fnv now)

(* the complete answer of one world *)
let answer w toks : ostring =
  match toks with
  | ["new"] -> reset_world w; w.last_dump <- dump w; "OK -" ^ tail_of w.last_dump w.last_dump
  | ["quiet"; x] -> w.quiet <- (x = "on"); "OK -"
  | ["hobs"; o] ->
    (* a handle is an object identity and carries no state (observe_file_only): the entity seen through the kept handle is
       the entity of the dump *)
    (try ignore (recv w (oint_of_string o) "BSRADTMGPX"); "OK same=1 diff=-" with Refuse what -> "ERR " ^ what)
  | "reopen" :: rest ->
    w.quiet <- false;
    let kind = (match rest with [] -> "rw" | k :: _ -> k) in
    ignore (run_sop w SClose);
    if kind = "other" || kind = "otherw" then begin
      (* another process: a fresh session on the same file, which it closes again *)
      ignore (run_sop w (SOpen (if kind = "other" then MRO else MRW)));
      ignore (run_sop w SClose) end;
    ignore (run_sop w (SOpen (if kind = "ro" then MRO else MRW)));      (* "def": File::open(path), the default mode is ReadWrite *)
    for j = 0 to w.n - 1 do
      let s = w.tbl.(j) in
      (* the implementation driver finds its entities again by id: dead or re-identified ones become none handles *)
      let gone = not (is_alive_oid w s.oid) ||
                 (match find_ent (w.ss.s_db) (nat_of_int s.oid) with Some e -> int_of_nat (e_idx e) <> s.oid | None -> true) in
      if s.bound && gone then s.bound <- false
    done;
    let before = w.last_dump in
    w.last_dump <- dump w;
    (* close_reopen_observe: the tree after the reopen is the tree before the close *)
    "OK - same=1 diff=- n=" ^ ostring_of_int (OLst.length (w.ss.s_db).ents) ^ tail_of before w.last_dump
  | ["observe"] -> "OK " ^ dump w
  | ["uuid"; s] -> "OK " ^ bool01 (looksLikeUUID (cstr (dec_str s)))
  | _ ->
    let was_alive = Array.init w.n (fun j -> let s = w.tbl.(j) in s.bound && slot_alive w s) in
    let head = (try do_line w toks with Refuse what -> "ERR " ^ what | ModelUB u -> "UB " ^ u) in
    (* bookkeeping of possible link targets, as in harness/hist_common.hpp *)
    let is_ok = OStr.length head >= 2 && OStr.sub head 0 2 = "OK" in
    let mark_ref r = let k = dec_ref r in if k >= 0 && k < w.n then w.tbl.(k).linked <- true in
    let mark_str t = (try
        let v = ostr (dec_sarg w t) in
        for j = 0 to w.n - 1 do
          let sl = w.tbl.(j) in
          if sl.bound && (ostr (ids (nat_of_int sl.oid)) = v || sl.name = v) then sl.linked <- true
        done with _ -> ()) in
    (if is_ok then match toks with
      | ("ladd" :: _ :: _ :: r :: _) -> mark_ref r
      | (("setmeta" | "setlink" | "setpos" | "setext" | "setdata") :: _ :: r :: _) -> mark_ref r
      | ("ladds" :: _ :: _ :: t :: _) -> mark_str t
      | (("setmetas" | "setlinks" | "setposs" | "setexts" | "setdatas") :: _ :: t :: _) -> mark_str t
      | ("lset" :: _ :: _ :: n :: refs) -> OLst.iter mark_ref (ntake refs (oint_of_string n))
      | ("dim" :: _ :: "frame" :: r :: _) -> mark_ref r
      | ("dim" :: o :: "alias" :: _) -> mark_ref o
      | ("mk" :: _ :: "M" :: _ :: _ :: r :: _) -> mark_ref r
      | ("mk" :: _ :: "X" :: _ :: _ :: "h" :: r :: _) -> mark_ref r
      | ("mk" :: _ :: "X" :: _ :: _ :: "s" :: t :: _) -> mark_str t
      | _ -> ());
    (* the implementation driver recomputes liveness (by id) after every successful delete *)
    (match toks with
     | ("del" | "delh") :: _ when head = "OK 1" ->
       for j = 0 to w.n - 1 do
         let s = w.tbl.(j) in
         if s.bound then (match find_ent (w.ss.s_db) (nat_of_int s.oid) with
             | Some e when int_of_nat (e_idx e) <> s.oid -> s.lost <- true
             | _ -> ())
       done
     | _ -> ());
    if w.quiet then head ^ " q" else begin
    let before = w.last_dump in
    w.last_dump <- dump w;
    let head = (match toks with
        | ("del" | "delh") :: _ when head = "OK 1" && !mode_ = "C04" -> head ^ delete_report w before w.last_dump was_alive
        | _ -> head) in
    head ^ tail_of before w.last_dump end

let cur = new_world current_behaviour
let rep = new_world repaired

let strip_tail (a : ostring) : ostring =
  (* drop " t=. h=........" *)
  let n = OStr.length a in
  if n > 15 && OStr.sub a (n - 15) 3 = " t=" then OStr.sub a 0 (n - 15) else a

let is_err a = OStr.length a >= 3 && OStr.sub a 0 3 = "ERR"

(* after undefined behaviour the implementation's process is gone: the rest of the case cannot be compared *)
let poisoned = ref false
let is_ub a = OStr.length a >= 2 && OStr.sub a 0 2 = "UB"

let run_hist (mode : ostring) =
  mode_ := mode;
  let handle toks =
    if toks = ["new"] then poisoned := false;
    if !poisoned then "UB the process died earlier in this case ## ANY" else
    let a = (try answer cur toks with Failure m -> "ERR driver::script " ^ m) in
    let b = (try answer rep toks with Failure m -> "ERR driver::script " ^ m) in
    let spec = (match toks with
        | "reopen" :: _ -> if mode = "C02" then b else "ANY"
        | ("del" | "delh") :: _ when mode = "C04" -> if is_err b then "ANY" else b
        | ("lsf" | "llsf" | "dimsf" | "posq" | "colq" | "hobs") :: _ -> if is_err b then "ANY" else strip_tail b
        | "quiet" :: _ -> "ANY"
        | ("new" | "observe" | "uuid") :: _ -> "ANY"
        | ["chk"; ptok; kt] ->
          if mode = "C03" then (try "OK " ^ chk_spec rep ptok kt.[0] with Refuse what -> "ERR " ^ what | Failure _ -> "ANY") else "ANY"
        | ["lchk"; h; sl] ->
          if mode = "C03" then (try "OK " ^ lchk_spec rep (oint_of_string h) (lslot_of_string sl) with Refuse what -> "ERR " ^ what | Failure _ -> "ANY") else "ANY"
        | _ -> if mode = "C08" then (if is_err b then "ERR t=0" else "NOTRACE") else "NOCRASH") in
    if is_ub a then poisoned := true;
    a ^ " ## " ^ spec in
  (* run_file prints "<lineno> <answer>" *)
  run_file OSys.argv.(1) handle
