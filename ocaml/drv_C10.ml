(* C10 model driver: same case language as harness/drv_C10.cpp *)
let fv a b c = { formatVersion_vx = z_of_string a; formatVersion_vy = z_of_string b; formatVersion_vz = z_of_string c }
let show_res f r = match r with
  | Ok v -> "OK " ^ f v
  | Err e -> "ERR " ^ ostr e
  | UB w -> "UB " ^ ostr w
let rb r = match r with Ok b -> bool01 b | Err e -> "!" ^ ostr e | UB _ -> "!UB"
let any_fail rs = OLst.find_opt (fun r -> match r with Ok _ -> false | _ -> true) rs
let handle toks = match toks with
  | ["ops"; a1; a2; a3; b1; b2; b3] ->
    let a = fv a1 a2 a3 and b = fv b1 b2 b3 in
    let rs = [formatVersion_op_lt a b; formatVersion_op_gt a b; formatVersion_op_le a b; formatVersion_op_ge a b] in
    let spec = "OK " ^ OStr.concat " " [bool01 (eq_specb a b); bool01 (lexltb a b); bool01 (not (eq_specb a b));
                          bool01 (lexltb b a); bool01 (not (lexltb b a)); bool01 (not (lexltb a b));
                          bool01 (canRead_specb a b); bool01 (eq_specb a b)] in
    (match any_fail rs with
     | Some r -> show_res (fun _ -> "") r
     | None ->
       "OK " ^ OStr.concat " " [bool01 (formatVersion_op_eq a b); rb (formatVersion_op_lt a b); bool01 (formatVersion_op_ne a b);
                          rb (formatVersion_op_gt a b); rb (formatVersion_op_le a b); rb (formatVersion_op_ge a b);
                          bool01 (formatVersion_canRead a b); bool01 (formatVersion_canWrite a b)]) ^ " ## " ^ spec
  | "ctor" :: _n :: vs ->
    let r = show_res (fun a ->
        let x = string_of_z a.formatVersion_vx and y = string_of_z a.formatVersion_vy and z = string_of_z a.formatVersion_vz in
        x ^ " " ^ y ^ " " ^ z ^ " | 3 " ^ x ^ " " ^ y ^ " " ^ z ^ " | " ^ x ^ "." ^ y ^ "." ^ z)
        (formatVersion_of_vector (OLst.map z_of_string vs)) in
    r ^ " ## " ^ (if OLst.length vs = 3 then r else "ERR")
  | ["idx"; a1; a2; a3; i] -> show_res string_of_z (formatVersion_op_index (fv a1 a2 a3) (z_of_string i))
  | ["open"; x; y; z; mode; force; defect] ->
    let m = (match mode with "rw" -> ReadWrite | "ro" -> ReadOnly | _ -> Overwrite) in
    let ver = [z_of_string x; z_of_string y; z_of_string z] in
    let ver = (match defect with "ver2" -> [z_of_string x; z_of_string y] | "ver4" -> ver @ [Z0] | _ -> ver) in
    let is_fmt = OStr.length defect > 4 && OStr.sub defect 0 4 = "fmt=" in
    let fmt_val = if is_fmt then dec_str (OStr.sub defect 4 (OStr.length defect - 4)) else "" in
    let h = { h_format = (match defect with "noformat" -> None | "badformat" -> Some (cstr "xin")
                                           | _ -> if is_fmt then Some (cstr fmt_val) else Some fILE_FORMAT);
              h_version = (match defect with "noversion" -> None | _ -> Some ver);
              h_id = (match defect with "noid" -> None | _ -> Some (cstr "id")) } in
    let c = (match defect with
        | "nonh5" -> NotHDF5
        | "plainh5" -> H5file ({ h_format = None; h_version = None; h_id = None }, false, Z0)
        | _ -> H5file (h, true, Zpos XH)) in
    (* the property: a file that lacks the format / version / id header is refused (Force and Overwrite aside) *)
    let vx = z_of_string x and vy = z_of_string y and vz = z_of_string z in
    let at_least_120 = not (lexltb { formatVersion_vx = vx; formatVersion_vy = vy; formatVersion_vz = vz }
                              { formatVersion_vx = z_of_int 1; formatVersion_vy = z_of_int 2; formatVersion_vz = Z0 }) in
    let header_broken = (match defect with
        | "noformat" | "badformat" | "noversion" | "plainh5" | "nonh5" -> true
        | "noid" -> at_least_120
        | _ -> is_fmt && fmt_val <> ostr fILE_FORMAT) in
    let spec = if mode = "ow" then "OK blocks=0"
      else if defect = "nonh5" then "ERR"
      else if header_broken && force <> "1" then "ERR"
      else if defect <> "none" && not (is_fmt && fmt_val = ostr fILE_FORMAT) then "ANY"
      else if gate_specb (z_of_string x) (z_of_string y) (z_of_string z) m (force = "1")
      then (if mode = "ow" then "OK blocks=0" else "OK blocks=1") else "ERR" in
    show_res (fun n -> "blocks=" ^ string_of_z n) (open_file c m (force = "1")) ^ " ## " ^ spec
  | _ -> failwith "bad command"
let () = run_file OSys.argv.(1) handle
