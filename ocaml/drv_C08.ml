(* use: hist_common *)
(* C08 model driver: the script interpreter of hist_common.ml; specification = a rejected call leaves no trace *)
let () = run_hist "C08"
