(* use: fileio_glue *)
(* C09 model driver — file open modes.  The interpreter is coq/FileIO/Script.v (extracted); parsing and
   printing are in ocaml/fileio_glue.ml, shared with C11. *)
let () = run_file OSys.argv.(1) handle
