(* ---- glue shared by all model drivers; appended after the extracted model ---- *)
let rec pos_of_zarith (n : Zar.t) : positive =
  if Zar.equal n Zar.one then XH
  else if Zar.is_odd n then XI (pos_of_zarith (Zar.shift_right n 1))
  else XO (pos_of_zarith (Zar.shift_right n 1))
let z_of_zarith (n : Zar.t) : z =
  if Zar.sign n = 0 then Z0 else if Zar.sign n > 0 then Zpos (pos_of_zarith n) else Zneg (pos_of_zarith (Zar.neg n))
let rec zarith_of_pos (p : positive) : Zar.t = match p with
  | XH -> Zar.one
  | XO q -> Zar.shift_left (zarith_of_pos q) 1
  | XI q -> Zar.succ (Zar.shift_left (zarith_of_pos q) 1)
let zarith_of_z (x : z) : Zar.t = match x with Z0 -> Zar.zero | Zpos p -> zarith_of_pos p | Zneg p -> Zar.neg (zarith_of_pos p)
let z_of_string (s : ostring) : z = z_of_zarith (Zar.of_string s)
let z_of_int (i : int) : z = z_of_zarith (Zar.of_int i)
let int_of_z (x : z) : int = Zar.to_int (zarith_of_z x)
let limit62 = Zar.shift_left Zar.one 62
(* integers are printed in decimal below 2^62 and as 0x-hex from there on (both drivers agree) *)
let string_of_z (x : z) : ostring =
  let n = zarith_of_z x in
  if Zar.lt n limit62 then Zar.to_string n else "0x" ^ Zar.format "%x" n
(* Coq ascii / string <-> OCaml char / string *)
let char_of_ascii (a : ascii) : char = match a with
  | Ascii (b0, b1, b2, b3, b4, b5, b6, b7) ->
    let bit b k = if b then 1 lsl k else 0 in
    OChr.chr (bit b0 0 + bit b1 1 + bit b2 2 + bit b3 3 + bit b4 4 + bit b5 5 + bit b6 6 + bit b7 7)
let ascii_of_char (c : char) : ascii =
  let n = OChr.code c in
  let b k = (n lsr k) land 1 = 1 in
  Ascii (b 0, b 1, b 2, b 3, b 4, b 5, b 6, b 7)
let ostr (s : string) : ostring =
  let buf = OBuffer.create 16 in
  let rec go s = match s with EmptyString -> () | String (a, r) -> OBuffer.add_char buf (char_of_ascii a); go r in
  go s; OBuffer.contents buf
let cstr (s : ostring) : string =
  let r = ref EmptyString in
  for i = OStr.length s - 1 downto 0 do r := String (ascii_of_char s.[i], !r) done; !r
let split_line (l : ostring) : ostring olist = OLst.filter (fun s -> s <> "") (OStr.split_on_char ' ' l)
let hexval c = match c with
  | '0'..'9' -> OChr.code c - 48 | 'a'..'f' -> OChr.code c - 87 | 'A'..'F' -> OChr.code c - 55
  | _ -> failwith "bad hex"
(* s:<hex> *)
let dec_str (t : ostring) : ostring =
  let n = (OStr.length t - 2) / 2 in
  OStr.init n (fun i -> OChr.chr (hexval t.[2 + 2 * i] * 16 + hexval t.[3 + 2 * i]))
let enc_str (s : ostring) : ostring =
  "s:" ^ OStr.concat "" (OLst.init (OStr.length s) (fun i -> OPrintf.sprintf "%02x" (OChr.code s.[i])))
let bool01 b = if b then "1" else "0"
(* run every line of the case file through [handle]; one output line per input line *)
let run_file (path : ostring) (handle : ostring olist -> ostring) : unit =
  let ic = open_in path in
  let n = ref 0 in
  (try
    while true do
      let line = input_line ic in
      incr n;
      if line <> "" && line.[0] <> '#' then begin
        match split_line line with
        | [] -> ()
        | toks -> print_string (ostring_of_int !n ^ " " ^ handle toks ^ "\n")
      end
    done
  with End_of_file -> ());
  close_in ic
