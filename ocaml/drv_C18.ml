(* use: f64glue *)
(* C18 model driver: same case language as harness/drv_C18.cpp.  Before "##": the model that
   mirrors util.cpp; after "##": the specification (units as parts, brute-force grammar). *)
let arg t = cstr (dec_str t)
let enc s = enc_str (ostr s)
let show_err r = match r with Err e -> "ERR " ^ ostr e | UB w -> "UB " ^ ostr w | Ok _ -> assert false
let show_split r = match r with
  | Ok ((p, u), w) -> "OK " ^ enc p ^ " " ^ enc u ^ " " ^ enc w
  | _ -> show_err r
let show_bool r = match r with Ok b -> "OK " ^ bool01 b | _ -> show_err r
(* a scaling is printed as k:<k>:<n> = the factor 10^k, reached through the power n (n only sets the
   tolerance with which the C++ double is compared, see tools/props/C18.py) *)
let show_k n r = match r with Ok k -> "OK k:" ^ string_of_z k ^ ":" ^ string_of_z n | _ -> show_err r
let model_n a = match splitUnit a with
  | Ok ((_, _), w) -> if ostr w = "" then z_of_int 1 else (match stoi w with Ok n -> n | _ -> z_of_int 1)
  | _ -> z_of_int 1
let spec_n w = match power_val w with Some n -> n | None -> z_of_int 1
let spec_n_raw a = match spec_parse a with Some ((_, _), w) -> spec_n w | None -> z_of_int 1
let cat3 p u w = print_unit p u w
let issi_line s = "OK " ^ bool01 (isSIUnit s) ^ " " ^ bool01 (isAtomicSIUnit s) ^ " " ^ bool01 (isCompoundSIUnit s)
let spec_issi_line s =
  let si = spec_issi s and at = spec_atomic s in
  "OK " ^ bool01 si ^ " " ^ bool01 at ^ " " ^ bool01 (si && not at)
let spec_k n a = match a with SAny -> "ANY" | SReject -> "ERR" | SVal k -> "OK k:" ^ string_of_z k ^ ":" ^ string_of_z n
let spec_b a = match a with SAny -> "ANY" | SReject -> "OK 0" | SVal b -> "OK " ^ bool01 b
let handle toks = match toks with
  | ["split"; s] ->
    let s = arg s in
    let spec = (match spec_parse s with
        | Some ((p, u), w) -> "OK " ^ enc p ^ " " ^ enc u ^ " " ^ enc (power_text w)
        | None -> "ANY") in
    show_split (splitUnit s) ^ " ## " ^ spec
  | ["split3"; p; u; w] ->
    let p = arg p and u = arg u and w = arg w in
    let spec = if parts_ok p u w then "OK " ^ enc p ^ " " ^ enc u ^ " " ^ enc (power_text w) else "ANY" in
    show_split (splitUnit (cat3 p u w)) ^ " ## " ^ spec
  | ["issi"; s] -> let s = arg s in issi_line s ^ " ## " ^ spec_issi_line s
  | ["issi3"; p; u; w] ->
    let p = arg p and u = arg u and w = arg w in
    issi_line (cat3 p u w) ^ " ## " ^ (if parts_ok p u w then "OK 1 1 0" else "ANY")
  | ["scalable"; a; b] ->
    let a = arg a and b = arg b in
    show_bool (isScalable a b) ^ " ## " ^ spec_b (spec_scalable_raw a b)
  | ["scalable6"; pa; ua; wa; pb; ub; wb] ->
    let pa = arg pa and ua = arg ua and wa = arg wa and pb = arg pb and ub = arg ub and wb = arg wb in
    show_bool (isScalable (cat3 pa ua wa) (cat3 pb ub wb)) ^ " ## " ^ spec_b (spec_scalable pa ua wa pb ub wb)
  | ["scaling"; a; b] ->
    let a = arg a and b = arg b in
    show_k (model_n a) (getSIScaling a b) ^ " ## " ^ spec_k (spec_n_raw a) (spec_scaling_raw a b)
  | ["scaling6"; pa; ua; wa; pb; ub; wb] ->
    let pa = arg pa and ua = arg ua and wa = arg wa and pb = arg pb and ub = arg ub and wb = arg wb in
    show_k (model_n (cat3 pa ua wa)) (getSIScaling (cat3 pa ua wa) (cat3 pb ub wb))
    ^ " ## " ^ spec_k (spec_n wa) (spec_scaling pa ua wa pb ub wb)
  | ["sanitize"; s] -> "OK " ^ enc (unitSanitizer (arg s))
  | ["deblank"; s] -> "OK " ^ enc (deblankString (arg s))
  | ("vscalable" | "setsame") :: rest ->
    let take_list toks = (match toks with
        | n :: r -> let n = oint_of_string n in
          let rec go k r acc = if k = 0 then (OLst.rev acc, r) else (match r with x :: r' -> go (k - 1) r' (arg x :: acc) | [] -> failwith "short list") in
          go n r []
        | [] -> failwith "short list") in
    let (a, r1) = take_list rest in
    let (b, r2) = take_list r1 in
    if r2 <> [] then failwith "trailing tokens" else
    if OLst.hd toks = "setsame" then "OK " ^ bool01 (isSetAtSamePos a b) ^ " ## OK " ^ bool01 (spec_set_same a b)
    else begin
      (* specification: different lengths -> false; otherwise the pairs in order, by the raw-string oracle *)
      let spec =
        if OLst.length a <> OLst.length b then "OK 0" else
        let rec go xs ys = (match xs, ys with
            | x :: xs', y :: ys' -> (match spec_scalable_raw x y with
                | SVal true -> go xs' ys' | SVal false | SReject -> "OK 0" | SAny -> "ANY")
            | _, _ -> "OK 1") in
        go a b in
      show_bool (isScalableVec a b) ^ " ## " ^ spec
    end
  | ["splitc"; s] ->
    let s = arg s in
    let show l = "OK " ^ ostring_of_int (OLst.length l) ^ OStr.concat "" (OLst.map (fun a -> " " ^ enc a) l) in
    (match splitCompoundUnit s with Ok l -> show l | r -> show_err r)
    ^ " ## " ^ (match spec_split_compound s with Some l -> show l | None -> "ANY")
  | [("tosec_d" | "tokel_d") as c; u; v] ->
    let r = if c = "tosec_d" then convertToSeconds_d (arg u) (dec_dbl v) else convertToKelvin_d (arg u) (dec_dbl v) in
    (match r with
     | Ok (CExact x) -> "OK " ^ enc_dbl x
     | Ok (CScaled (x, k)) -> "OK x:" ^ OStr.sub (enc_dbl x) 2 16 ^ ":" ^ string_of_z k
     | _ -> show_err r)
  | [("tosec_i" | "tokel_i") as c; u; v] ->
    let r = if c = "tosec_i" then convertToSeconds_i (arg u) (z_of_string v) else convertToKelvin_i (arg u) (z_of_string v) in
    (match r with
     | Ok (CExact n) -> "OK i:" ^ string_of_z n
     | Ok (CScaled (n, k)) -> "OK y:" ^ string_of_z n ^ ":" ^ string_of_z k
     | _ -> show_err r)
  | ["deblank_inplace"; s] -> "OK " ^ enc (deblankString (arg s))
  | ["namecheck"; s] -> "OK " ^ bool01 (nameCheck (arg s))
  | ["namesan"; s] -> "OK " ^ enc (nameSanitizer (arg s))
  | ["chkname"; s] -> (match checkEntityName (arg s) with Ok _ -> "OK ok" | r -> show_err r)
  | ["chktype"; s] -> (match checkEntityType (arg s) with Ok _ -> "OK ok" | r -> show_err r)
  | ["chkempty"; s] -> (match checkEmptyString (arg s) with Ok _ -> "OK ok" | r -> show_err r)
  | ["chknt"; n; ty] -> (match checkEntityNameAndType (arg n) (arg ty) with Ok _ -> "OK ok" | r -> show_err r)
  (* round trips: the model is the identity *)
  | ["timert"; n] -> "OK " ^ n
  | ["numrt"; n] -> "OK " ^ n
  | ["strnum"; s] -> (match stoi (arg s) with Ok v -> "OK " ^ string_of_z v | _ -> "OK 0")
  | ["deref"; v] -> if v = "none" then "OK 0 7" else "OK " ^ v ^ " " ^ v
  | _ -> failwith "bad command"
let () = run_file OSys.argv.(1) handle
