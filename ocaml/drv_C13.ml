(* use: f64glue *)
(* C13 model driver: same case language as harness/drv_C13.cpp.
   Every line: "<model outcome> ## <specification outcome>".  The model outcome comes from
   Dims.dstep current_behaviour (the code path, order of checks and backend effects), the
   specification outcome from Dims.sp_step (plain list of descriptors, legal-then-effect). *)
let rec nat_of_int n = if n <= 0 then O else S (nat_of_int (n - 1))

let parse_dtype s = match s with
  | "Bool" -> TBool | "Int8" -> TInt8 | "Int16" -> TInt16 | "Int32" -> TInt32 | "Int64" -> TInt64
  | "UInt8" -> TUInt8 | "UInt16" -> TUInt16 | "UInt32" -> TUInt32 | "UInt64" -> TUInt64
  | "Float" -> TFloat | "Double" -> TDouble | "String" -> TString
  | _ -> failwith ("bad dtype " ^ s)
let show_dtype t = match t with
  | TBool -> "Bool" | TInt8 -> "Int8" | TInt16 -> "Int16" | TInt32 -> "Int32" | TInt64 -> "Int64"
  | TUInt8 -> "UInt8" | TUInt16 -> "UInt16" | TUInt32 -> "UInt32" | TUInt64 -> "UInt64"
  | TFloat -> "Float" | TDouble -> "Double" | TString -> "String"

let str t = cstr (dec_str t)
let opt_str t = if t = "none" then None else Some (str t)
let show_str s = enc_str (ostr s)
let show_ostr o = match o with Some s -> show_str s | None -> "-"
let show_odbl o = match o with Some d -> enc_dbl d | None -> "-"
let show_list f l = "[" ^ OStr.concat "" (OLst.map (fun x -> " " ^ f x) l) ^ " ]"
let show_res f r = match r with Ok a -> f a | Err e -> "!" ^ ostr e | UB _ -> "!UB"
let kind_letter k = match k with KSampled -> "S" | KSet -> "T" | KRange -> "R" | KFrame -> "F"

let show_dobs idx d = match d with
  | OSampled (l, u, x, off) -> "S " ^ string_of_z idx ^ " " ^ show_ostr l ^ " " ^ show_ostr u ^ " " ^ enc_dbl x ^ " " ^ show_odbl off
  | OSet (l, ls) -> "T " ^ string_of_z idx ^ " " ^ show_ostr l ^ " " ^ show_list show_str ls
  | ORange (a, l, u, t) -> "R " ^ string_of_z idx ^ " " ^ bool01 a ^ " " ^ show_ostr l ^ " " ^ show_ostr u ^ " " ^ show_list enc_dbl t
  | OFrame (c, fname, l, u, ty, sz) ->
    "F " ^ string_of_z idx ^ " " ^ (match c with Some c -> string_of_z c | None -> "-") ^ " " ^ show_res show_str fname ^ " " ^
    show_res show_str l ^ " " ^ show_res show_str u ^ " " ^ show_res show_dtype ty ^ " " ^ show_res string_of_z sz

let show_obs o =
  "n=" ^ string_of_z o.o_count ^
  OStr.concat "" (OLst.map (fun (i, d) -> " | " ^ string_of_z i ^ ":" ^
                                          (match d with None -> "none" | Some (idx, d) -> show_dobs idx d)) o.o_dims) ^
  " | " ^ (if o.o_zero then "0:some" else "0:none") ^ " " ^ (if o.o_next then "+1:some" else "+1:none") ^
  " | A " ^ show_ostr o.o_label ^ " " ^ show_ostr o.o_unit ^ " " ^
  (match o.o_data with Some l -> show_list enc_dbl l | None -> "-")

let show_cell c = match c with CI z -> Zar.to_string (zarith_of_z z) | CD d -> enc_dbl d | CS s -> show_str s

let show_ans a = match a with
  | ACells l -> show_list show_cell l
  | ADone -> "-"
  | AIndex i -> string_of_z i
  | ABool b -> bool01 b
  | ACount n -> string_of_z n
  | AKind None -> "none"
  | AKind (Some (k, i)) -> kind_letter k ^ " " ^ string_of_z i
  | ADims l -> show_list (fun (i, k) -> string_of_z i ^ kind_letter k) l
  | ATick d -> enc_dbl d
  | ATicks l -> show_list enc_dbl l
  | AStr s -> show_str s
  | AType t -> show_dtype t
  | AObs o -> show_obs o

let show_model r = match r with Ok a -> "OK " ^ show_ans a | Err e -> "ERR " ^ ostr e | UB w -> "UB " ^ ostr w
let show_spec r = match r with SOk a -> "OK " ^ show_ans a | SReject -> "ERR" | SAny -> "ANY"

let state : (state * sstate) option ref = ref None

let run o =
  match !state with
  | None -> "ERR nix::UninitializedEntity ## ERR"
  | Some (m, s) ->
    let (m', r) = dstep current_behaviour o m in
    let (s', q) = sp_step o s in
    state := Some (m', s');
    show_model r ^ " ## " ^ show_spec q

let fref t =
  if t = "none" then FNone
  else if OStr.length t > 8 && OStr.sub t 0 8 = "foreign:" then FForeign (nat_of_int (oint_of_string (OStr.sub t 8 (OStr.length t - 8))))
  else FOrd (nat_of_int (oint_of_string t))
let dbls l = OLst.map dec_dbl l
let rec take n l = if n = 0 then [] else match l with x :: r -> x :: take (n - 1) r | [] -> failwith "short line"
let counted l = match l with n :: r -> OLst.map str (take (oint_of_string n) r) | [] -> failwith "count expected"
let z = z_of_string

let parse_kind k = match k with "S" -> KSampled | "T" -> KSet | "R" -> KRange | "F" -> KFrame | _ -> failwith "bad kind"

(* a via<k> prefix only changes the public route by which the harness obtains the dimension handle *)
let strip_route toks = match toks with
  | v :: rest when OStr.length v = 4 && OStr.sub v 0 3 = "via" -> rest
  | _ -> toks

let rec handle toks = match strip_route toks with
  | "new" :: dt :: rank :: len :: nfr :: rest ->
    let t = parse_dtype dt in
    let rec frames k rest = if k = 0 then ([], rest) else
        match rest with
        | name :: rows :: nc :: r ->
          let nc = oint_of_string nc in
          let rec cols j r = if j = 0 then ([], r) else
              match r with
              | cn :: cu :: ct :: r' -> let (cs, r'') = cols (j - 1) r' in (((str cn, str cu), parse_dtype ct) :: cs, r'')
              | _ -> failwith "bad column" in
          let (cs, r') = cols nc r in
          let (more, r'') = frames (k - 1) r' in
          ({ fr_name = str name; fr_rows = z rows; fr_cols = cs } :: more, r'')
        | _ -> failwith "bad frame" in
    let (fs, rest') = frames (oint_of_string nfr) rest in
    let ffs = (match rest' with n :: r -> fst (frames (oint_of_string n) r) | [] -> []) in
    let rk = nat_of_int (oint_of_string rank) and ln = nat_of_int (oint_of_string len) in
    state := Some (dinit t rk ln fs ffs, sinit t rk ln fs ffs);
    "OK -"
  | ["reopen"; m] -> run (Reopen (m = "ro"))
  | ["observe"] -> run Observe
  | ["s_at"; i; k] -> run (SAt (z i, z k))
  | ["r_at"; i; k] -> run (RTickAt (z i, z k))
  | ["dims_f"; k] -> run (DimsOfKind (parse_kind k))
  | ["range_of_array"] -> run RangeOfArray
  | ["f_ticks"; i; c; rs; vs; off] -> run (FTicks (z i, (if c = "-" then None else Some (z c)), rs = "1", z vs, z off))
  | ["drop_b2"] -> run DropForeignBlock
  | ["recreate"; k] -> run (RecreateFrame (nat_of_int (oint_of_string k)))
  | "append_set" :: r -> run (AppendSet (counted r))
  | "append_range" :: l :: u :: ticks -> run (AppendRange (dbls ticks, str l, str u))
  | ["append_sampled"; x; l; u; off] -> run (AppendSampled (dec_dbl x, str l, str u, dec_dbl off))
  | ["append_alias"] -> run AppendAlias
  | ["append_df_idx"; f; c] -> run (AppendFrameIdx (fref f, z c))
  | ["append_df_name"; f; n] -> run (AppendFrameName (fref f, str n))
  | ["append_df"; f] -> run (AppendFrame (fref f))
  | ["create_set"; i] -> run (CreateSet (z i))
  | "create_range" :: i :: ticks -> run (CreateRange (z i, dbls ticks))
  | ["create_sampled"; i; x] -> run (CreateSampled (z i, dec_dbl x))
  | ["create_alias"] -> run CreateAlias
  | ["delete_dims"] -> run DeleteDims
  | ["count"] -> run Count
  | ["get"; i] -> run (GetDim (z i))
  | ["dims"] -> run Dims
  | ["a_label"; l] -> run (ALabel (opt_str l))
  | ["a_unit"; u] -> run (AUnit (opt_str u))
  | "a_data" :: v -> run (AData (dbls v))
  | ["s_label"; i; l] -> run (SLabel (z i, opt_str l))
  | ["s_unit"; i; u] -> run (SUnit (z i, opt_str u))
  | ["s_interval"; i; x] -> run (SInterval (z i, dec_dbl x))
  | ["s_offset"; i; x] -> run (SOffset (z i, if x = "none" then None else Some (dec_dbl x)))
  | ["t_label"; i; l] -> run (TLabel (z i, opt_str l))
  | ["t_labels"; i; "none"] -> run (TLabels (z i, None))
  | "t_labels" :: i :: r -> run (TLabels (z i, Some (counted r)))
  | ["r_label"; i; l] -> run (RLabel (z i, opt_str l))
  | ["r_unit"; i; u] -> run (RUnit (z i, opt_str u))
  | "r_ticks" :: i :: t -> run (RTicks (z i, dbls t))
  | ["r_tickat"; i; k] -> run (RTickAt (z i, z k))
  | ["r_ticks_sc"; i; st; c] -> run (RTicksSC (z i, z st, z c))
  | ["r_axis"; i; c; st] -> run (RAxis (z i, z c, z st))
  | ["f_q"; i; q; c] ->
    let q = (match q with "label" -> QLabel | "unit" -> QUnit | "type" -> QType | _ -> failwith "bad query") in
    run (FQuery (z i, q, if c = "-" then None else Some (z c)))
  | _ -> failwith "bad command"
let () = run_file OSys.argv.(1) handle
