(* use: f64glue *)
(* C17 model driver: same case language as harness/drv_C17.cpp.
   Model half  = the extracted code-path model (Access/Slice.v, Access/View.v) under [current_behaviour]
                 (environment C17_MODEL = today | repaired | full | bits:<7 x 0/1> overrides, for runs against patched copies);
   spec half   = the extracted brute-force evaluators of Access/SliceSpec.v (after " ## ").
   The model and the specification keep separate copies of the array: a write the specification refuses
   does not reach the specification's copy, so a later `aread` shows a violated frame condition. *)
let beh =
  match (try OSys.getenv "C17_MODEL" with Not_found -> "") with
  | "today" -> code_today
  | "repaired" -> repaired_except_pinned
  | "full" -> repaired
  | s when OStr.length s = 12 && OStr.sub s 0 5 = "bits:" ->
    let b i = s.[5 + i] = '1' in
    { slice_reads_argument_vectors = b 0; slice_point_snaps = b 1; extent_check_wraps = b 2;
      view_check_wraps = b 3; pads_with_positions = b 4; scalar_template_empty_count = b 5; tget3_empty_count = b 6 }
  | _ -> current_behaviour

let show_res f r = match r with Ok o -> "OK " ^ f o | Err e -> "ERR " ^ ostr e | UB w -> "UB " ^ ostr w
let show_zs l = OStr.concat " " (OLst.map string_of_z l)
let show_v = function VI z -> string_of_z z | _ -> "?"
let show_vals l = "[" ^ OStr.concat "" (OLst.map (fun v -> " " ^ show_v v) l) ^ " ]"

(* split the tokens after the command at ";" *)
let sections toks =
  let rec go cur acc = function
    | [] -> OLst.rev (OLst.rev cur :: acc)
    | ";" :: r -> go [] (OLst.rev cur :: acc) r
    | t :: r -> go (t :: cur) acc r in
  go [] [] toks

let bases = ["Hz"; "s"; "V"; "A"]
(* "none" or <prefix><base unit>: the split util::splitUnit computes (C18), done here on the token *)
let unit_of tok : (string * string) option =
  if tok = "none" || tok = "-" then None
  else
    let n = OStr.length tok in
    let ends b = let k = OStr.length b in n >= k && OStr.sub tok (n - k) k = b in
    match OLst.find_opt ends bases with
    | Some b -> Some (cstr (OStr.sub tok 0 (n - OStr.length b)), cstr b)
    | None -> failwith ("unknown unit " ^ tok)

let dim_of = function
  | ["S"; dt; off; u] -> DSampled (dec_dbl dt, (if off = "-" then None else Some (dec_dbl off)), unit_of u)
  | "R" :: u :: ticks -> DRange (OLst.map dec_dbl ticks, unit_of u)
  | ["L"; n] -> DSet (OLst.init (oint_of_string n) (fun i -> cstr ("l" ^ ostring_of_int i)))
  | ["F"; n] -> DFrame (z_of_string n)
  | _ -> failwith "bad dimension"

let zs l = OLst.map z_of_string l

(* state *)
let dims = ref []
let m_arr = ref (id_array [])
let s_arr = ref (id_array [])
let m_view : view option ref = ref None
let s_view : view option ref = ref None

let all_finite l = OLst.for_all fis_finite l
let same_rank v (cnt : z olist) (off : z olist) =
  let r = OLst.length v.v_count in
  (cnt = [] || OLst.length cnt = r) && (off = [] || OLst.length off = r)

let rec nat_of_int n = if n <= 0 then O else S (nat_of_int (n - 1))

let rec handle toks = match toks with
  | "arr" :: rest ->
    (match sections rest with
     | shape :: ds ->
       let shape = zs shape in
       dims := OLst.map dim_of (OLst.filter (fun d -> d <> []) ds);
       m_arr := id_array shape; s_arr := id_array shape; m_view := None; s_view := None;
       "OK done"
     | _ -> failwith "bad arr")
  | "slice" :: rest ->
    (match sections rest with
     | [st; en; us; [mode]] ->
       let st = OLst.map dec_dbl st and en = OLst.map dec_dbl en and us = OLst.map unit_of us in
       let rm = if mode = "incl" then RangeMatch_Inclusive else RangeMatch_Exclusive in
       let shape = !m_arr.a_shape in
       let model = show_res (fun (ext, vals) -> show_zs ext ^ " |" ^ OStr.concat "" (OLst.map (fun v -> " " ^ show_v v) vals))
           (slice_read beh !dims !m_arr st en us rm) in
       let spec =
         if OLst.length !dims < OLst.length st || OLst.length !dims < OLst.length en || OLst.length !dims < OLst.length us
         then "ERR"
         else if not (spec_domain !dims shape st en us && all_finite st && all_finite en) then "ANY"
         else (match spec_slice !dims shape st en us rm with
             | Ok ls -> "OK " ^ show_zs (OLst.map (fun l -> z_of_int (OLst.length l)) ls) ^ " |"
                        ^ OStr.concat "" (OLst.map (fun i -> " " ^ string_of_z i) (spec_ids shape ls))
             | _ -> "ERR") in
       model ^ " ## " ^ spec
     | _ -> failwith "bad slice")
  | "indata" :: rest ->
    (match sections rest with
     | [pos; cnt] ->
       let pos = zs pos and cnt = zs cnt in
       let shape = !m_arr.a_shape in
       let model = show_res bool01 (position_and_extent_in_data beh shape pos cnt) in
       let spec = if OLst.length pos = OLst.length cnt && not (OLst.mem Z0 cnt)
         then "OK " ^ bool01 (spec_in_data shape pos cnt) else "ANY" in
       model ^ " ## " ^ spec
     | _ -> failwith "bad indata")
  | "view" :: rest ->
    (match sections rest with
     | [cnt; off] ->
       let cnt = zs cnt and off = zs off in
       let shape = !m_arr.a_shape in
       let m = mk_view beh shape cnt off in
       let s = spec_mk_view shape cnt off in
       m_view := (match m with Ok v -> Some v | _ -> None);
       s_view := (match s with Ok v -> Some v | _ -> None);
       show_res (fun _ -> "done") m ^ " ## " ^ (match s with Ok _ -> "OK done" | _ -> "ERR")
     | _ -> failwith "bad view")
  | ["aread"] -> "OK " ^ show_vals !m_arr.a_cells ^ " ## OK " ^ show_vals !s_arr.a_cells
  | ["vextent"] ->
    (match !m_view with None -> "ERR std::logic_error" | Some v -> "OK " ^ show_zs (view_extent v))
    ^ " ## " ^ (match !s_view with None -> "ANY" | Some v -> "OK " ^ show_zs (view_extent v))
  | "vread" :: rest ->
    (match sections rest with
     | [cnt; off] ->
       let cnt = zs cnt and off = zs off in
       let model = (match !m_view with
           | None -> "ERR std::logic_error"
           | Some v -> show_res show_vals (view_read beh v !m_arr cnt off)) in
       let spec = (match !s_view with
           | None -> "ANY"
           | Some v ->
             if not (same_rank v cnt off) then "ERR"
             else (match spec_view_read v !s_arr cnt off with Ok vals -> "OK " ^ show_vals vals | _ -> "ERR oob")) in
       model ^ " ## " ^ spec
     | _ -> failwith "bad vread")
  | "vwrite" :: rest ->
    (match sections rest with
     | [cnt; off; [v0]] ->
       let cnt = zs cnt and off = zs off and gen = gen_from (z_of_string v0) in
       let model = (match !m_view with
           | None -> "ERR std::logic_error"
           | Some v ->
             let r = view_write beh v !m_arr cnt off gen in
             (match r with Ok a -> m_arr := a | _ -> ());
             show_res (fun _ -> "done") r) in
       let spec = (match !s_view with
           | None -> "ANY"
           | Some v ->
             if not (same_rank v cnt off) then "ERR"
             else (match spec_view_write v !s_arr cnt off gen with
                 | Ok a -> s_arr := a; "OK done"
                 | _ -> "ERR oob")) in
       model ^ " ## " ^ spec
     | _ -> failwith "bad vwrite")
  | op :: rest when op = "vget" || op = "vset" || op = "aget" || op = "aset" ->
    (* the templates DataSet::getData(value, offset) / setData(value, offset): value = scalar ("s") or a vector of n elements *)
    (match sections rest with
     | [kind] :: off :: more ->
       let off = zs off in
       let vshape, buf = if kind = "s" then [], z_of_int 1 else [z_of_string kind], z_of_string kind in
       let gen = (match more with [[v0]] -> gen_from (z_of_string v0) | _ -> gen_from Z0) in
       let on_view = op.[0] = 'v' and is_get = (op = "vget" || op = "aget") in
       if on_view then begin
         let model = (match !m_view with
             | None -> "ERR std::logic_error"
             | Some v ->
               if is_get then show_res show_vals (view_get_value beh v !m_arr vshape buf off)
               else (let r = view_set_value beh v !m_arr vshape buf off gen in
                     (match r with Ok a -> m_arr := a | _ -> ());
                     show_res (fun _ -> "done") r)) in
         let spec = (match !s_view with
             | None -> "ANY"
             | Some v ->
               let r = OLst.length v.v_count in
               if not ((vshape = [] || r = 1) && (off = [] || OLst.length off = r)) then "ERR"
               else if is_get then (match spec_get_value v !s_arr vshape off with Ok vals -> "OK " ^ show_vals vals | _ -> "ERR oob")
               else (match spec_set_value v !s_arr vshape off gen with Ok a -> s_arr := a; "OK done" | _ -> "ERR oob")) in
         model ^ " ## " ^ spec
       end else begin
         (* the control: the same call on the DataArray; the specification's answer is the repaired model's on its own copy *)
         if is_get then
           show_res show_vals (arr_get_value beh !m_arr vshape buf off) ^ " ## " ^
           (match arr_get_value repaired_except_pinned !s_arr vshape buf off with Ok vals -> "OK " ^ show_vals vals | _ -> "ERR")
         else begin
           let r = arr_set_value beh !m_arr vshape buf off gen in
           (match r with Ok a -> m_arr := a | _ -> ());
           let sp = arr_set_value repaired_except_pinned !s_arr vshape buf off gen in
           (match sp with Ok a -> s_arr := a | _ -> ());
           show_res (fun _ -> "done") r ^ " ## " ^ (match sp with Ok _ -> "OK done" | _ -> "ERR")
         end
       end
     | _ -> failwith "bad value op")
  | op :: rest when op = "tgetall" || op = "tget3" || op = "tgetat" || op = "tsetall" || op = "tset" ->
    (* every template route of DataSet.hpp through the view, for every typed container *)
    (match sections rest with
     | (rt :: ext0) :: more ->
       let ext0 = zs ext0 in
       let r = (match rt, ext0 with
           | "sc", _ -> RScalar
           | "c1", [n] -> RCArr1 n
           | "c2", [m; n] -> RCArr2 (m, n)
           | "vec", _ -> RVector
           | "val", _ -> RValarray
           | "ma", _ -> RMulti (nat_of_int (OLst.length ext0))
           | "nd", _ -> RNDArray
           | _ -> failwith "bad route") in
       let show_get (ext, vals) = show_zs ext ^ " | " ^ show_vals vals in
       let rank_ok v (l : z olist) = l = [] || OLst.length l = OLst.length v.v_count in
       let model_get f = (match !m_view with None -> "ERR std::logic_error" | Some v -> show_res show_get (f v)) in
       let model_set f = (match !m_view with
           | None -> "ERR std::logic_error"
           | Some v -> let r = f v in (match r with Ok a -> m_arr := a | _ -> ()); show_res (fun _ -> "done") r) in
       (match op, more with
        | "tgetall", [] ->
          model_get (fun v -> view_tgetall beh v !m_arr r) ^ " ## " ^
          (match !s_view with
           | None -> "ANY"
           | Some v -> (match spec_tgetall v !s_arr r with Ok x -> "OK " ^ show_get x | _ -> "ERR"))
        | "tget3", [cnt; off] ->
          let cnt = zs cnt and off = zs off in
          model_get (fun v -> view_tget3 beh v !m_arr r cnt off) ^ " ## " ^
          (match !s_view with
           | None -> "ANY"
           | Some v ->
             (match route_resize r cnt with
              | Ok _ when rank_ok v cnt && rank_ok v off ->
                (match spec_tget3 v !s_arr r cnt off with Ok x -> "OK " ^ show_get x | _ -> "ERR oob")
              | _ -> "ERR"))
        | "tgetat", [off] ->
          let off = zs off in
          let vshape = route_shape r ext0 in
          model_get (fun v -> view_tgetat beh v !m_arr r ext0 off) ^ " ## " ^
          (match !s_view with
           | None -> "ANY"
           | Some v ->
             if not (rank_ok v vshape && rank_ok v off) then "ERR"
             else (match spec_get_value v !s_arr vshape off with Ok vals -> "OK " ^ show_get (ext0, vals) | _ -> "ERR oob"))
        | "tsetall", [[v0]] ->
          model_set (fun v -> view_tsetall beh v !m_arr r ext0 (gen_from (z_of_string v0))) ^ " ## ERR"
        | "tset", [off; [v0]] ->
          let off = zs off and gen = gen_from (z_of_string v0) in
          let vshape = route_shape r ext0 in
          model_set (fun v -> view_tset beh v !m_arr r ext0 off gen) ^ " ## " ^
          (match !s_view with
           | None -> "ANY"
           | Some v ->
             if not (rank_ok v vshape && rank_ok v off) then "ERR"
             else (match spec_set_value v !s_arr vshape off gen with Ok a -> s_arr := a; "OK done" | _ -> "ERR oob"))
        | _ -> failwith "bad typed op")
     | _ -> failwith "bad typed op")
  | "vsetextent" :: sh ->
    (match !m_view with None -> "ERR std::logic_error" | Some v -> show_res (fun _ -> "done") (view_set_extent v (zs sh))) ^ " ## " ^
    (match !s_view with None -> "ANY" | Some _ -> "ERR")
  | ["vtype"] -> (match !m_view with None -> "ERR std::logic_error" | Some _ -> "OK Int64") ^ " ## " ^
                 (match !s_view with None -> "ANY" | Some _ -> "OK Int64")
  | "slice3" :: rest ->
    (match sections rest with
     | [st; en] -> handle (("slice" :: st) @ (";" :: en) @ [";"; ";"; "default"])
     | _ -> failwith "bad slice3")
  | "posin" :: pos ->
    let pos = zs pos in
    "OK " ^ bool01 (position_in_data !m_arr.a_shape pos) ^ " ## OK " ^ bool01 (spec_pos_in_data !m_arr.a_shape pos)
  | ["dimunit"; j] ->
    "OK " ^ (match dim_unit (OLst.nth !dims (oint_of_string j)) with None -> "none" | Some (p, b) -> ostr p ^ ostr b)
  | ["p2i"; j; p; u; r] ->
    let rule = (match r with "L" -> PositionMatch_Less | "LE" -> PositionMatch_LessOrEqual | "GE" -> PositionMatch_GreaterOrEqual
                           | "G" -> PositionMatch_Greater | "EQ" -> PositionMatch_Equal | _ -> failwith "bad rule") in
    show_res (function Some i -> string_of_z i | None -> "none")
      (position_to_index_scalar (OLst.nth !dims (oint_of_string j)) (dec_dbl p) (unit_of u) rule)
  | "p2iv" :: rest ->
    (match sections rest with
     | [[j; mode]; st; en; us] ->
       let rm = if mode = "incl" then RangeMatch_Inclusive else RangeMatch_Exclusive in
       show_res (fun l -> ostring_of_int (OLst.length l) ^
                          OStr.concat "" (OLst.map (function Some (a, b) -> " [" ^ string_of_z a ^ " " ^ string_of_z b ^ "]" | None -> " [none]") l))
         (position_to_index_pairs (OLst.nth !dims (oint_of_string j)) (OLst.map dec_dbl st) (OLst.map dec_dbl en) (OLst.map unit_of us) rm)
     | _ -> failwith "bad p2iv")
  | _ -> failwith "bad command"
let () = run_file OSys.argv.(1) handle
