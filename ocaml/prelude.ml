(* prepended before the extracted model: aliases for the OCaml standard modules and types the
   extracted code may shadow (Z, N, String, List, ...) *)
module Zar = Z
module OStr = String
module OLst = List
module OChr = Char
module OPrintf = Printf
module OSys = Sys
module OHashtbl = Hashtbl
module OBuffer = Buffer
type ostring = string
type 'a olist = 'a list
let ostring_of_int = string_of_int
let oint_of_string = int_of_string
