(* use: f64glue *)
(* C01 model driver: same case language as harness/drv_C01.cpp.
   Every line: "<model outcome> ## <specification outcome>"; the model outcome comes from
   NDArr.step (row-major array model), the specification outcome from NDSpec.spec_step
   (pointwise history specification). *)
let f32_of_bits (b : int) : binary_float =
  let s = (b lsr 31) land 1 = 1 in
  let e = (b lsr 23) land 0xff in
  let m = b land 0x7fffff in
  if e = 0 && m = 0 then B754_zero s
  else if e = 255 then (if m = 0 then B754_infinity s else B754_nan)
  else if e = 0 then B754_finite (s, pos_of_zarith (Zar.of_int m), z_of_int (-149))
  else B754_finite (s, pos_of_zarith (Zar.of_int (m + 0x800000)), z_of_int (e - 150))
let bits_of_f32 (x : binary_float) : int =
  let sign s = if s then 0x80000000 else 0 in
  match x with
  | B754_zero s -> sign s
  | B754_infinity s -> sign s lor 0x7f800000
  | B754_nan -> 0x7fc00000
  | B754_finite (s, m, e) ->
    let rec norm mz ez =
      if mz >= 0x1000000 then norm (mz lsr 1) (ez + 1)
      else if mz < 0x800000 && ez > -149 then norm (mz lsl 1) (ez - 1)
      else (mz, ez) in
    let (mz, ez) = norm (Zar.to_int (zarith_of_pos m)) (int_of_z e) in
    if mz < 0x800000 then sign s lor mz
    else sign s lor ((ez + 150) lsl 23) lor (mz - 0x800000)

let parse_dtype s = match s with
  | "Bool" -> TBool | "Int8" -> TInt8 | "Int16" -> TInt16 | "Int32" -> TInt32 | "Int64" -> TInt64
  | "UInt8" -> TUInt8 | "UInt16" -> TUInt16 | "UInt32" -> TUInt32 | "UInt64" -> TUInt64
  | "Float" -> TFloat | "Double" -> TDouble | "String" -> TString
  | _ -> failwith ("bad dtype " ^ s)

let parse_val dt t = match dt with
  | TFloat -> VF (f32_of_bits (oint_of_string ("0x" ^ OStr.sub t 2 8)))
  | TDouble -> VD (dec_dbl t)
  | TString -> VS (cstr (dec_str t))
  | _ -> VI (z_of_string t)

let show_val v = match v with
  | VI z -> Zar.to_string (zarith_of_z z)
  | VD d -> enc_dbl d
  | VF f -> OPrintf.sprintf "f:%08x" (bits_of_f32 f)
  | VS s -> enc_str (ostr s)

let show_list f l = "[" ^ OStr.concat "" (OLst.map (fun x -> " " ^ f x) l) ^ " ]"

let show_obs o = match o with
  | ObsUnit -> "OK -"
  | ObsVals vs -> "OK " ^ show_list show_val vs
  | ObsShape sh -> "OK " ^ show_list string_of_z sh
  | ObsCal (cs, o) ->
    "OK poly" ^ OStr.concat "" (OLst.map (fun c -> " " ^ enc_dbl c) cs) ^ " origin " ^
    (match o with Some d -> enc_dbl d | None -> "none")

(* split a token list at ";" *)
let sections toks =
  let rec go acc cur l = match l with
    | [] -> OLst.rev (OLst.rev cur :: acc)
    | ";" :: r -> go (OLst.rev cur :: acc) [] r
    | x :: r -> go acc (x :: cur) r in
  go [] [] toks

let zs l = OLst.map z_of_string l

let state : (st * sst * dtype) option ref = ref None
(* the specification has no array although the model (= the code) has one: a failed create-and-fill left it behind *)
let spec_gone = ref false

let run_ops ops =
  match !state with
  | None -> "ERR nix::UninitializedEntity ## ERR"
  | Some (m, s, dt) ->
    let last = ref ("OK -", "OK -") in
    let m = ref m and s = ref s in
    OLst.iter (fun o ->
      let (m', r) = step !m o in
      let (s', q) = spec_step !s o in
      m := m'; s := s';
      let nan = (match r with UB w -> ostr w = ostr nan_cast_why | _ -> false) in
      let ms = (match r with
          | Ok o -> show_obs o
          | Err e -> "ERR " ^ ostr e
          | UB w -> if nan then "ANY" else "UB " ^ ostr w) in
      let ss = if nan then "ANY" else if !spec_gone then "ERR" else (match q with Some o -> show_obs o | None -> "ERR") in
      last := (ms, ss)) ops;
    state := Some (!m, !s, dt);
    fst !last ^ " ## " ^ snd !last

let last_dt = ref TInt8
let cur_dt () = match !state with Some (_, _, dt) -> dt | None -> !last_dt

(* typed container routes: the route builds the request (NDArr.route_op), from the extent the model
   resp. the specification currently has; the request then runs like any other call *)
let parse_route name ext = match name with
  | "sc" -> RScalar
  | "c1" -> (match ext with [n] -> RCArr1 n | _ -> failwith "c1 needs one extent")
  | "c2" -> (match ext with [m; n] -> RCArr2 (m, n) | _ -> failwith "c2 needs two extents")
  | "vec" -> RVector
  | "val" -> RValarray
  | "ma" -> RMulti (let rec nat_of k = if k = 0 then O else S (nat_of (k - 1)) in nat_of (OLst.length ext))
  | "nd" -> RNDArray
  | _ -> failwith ("bad route " ^ name)

let run_typed r q =
  match !state with
  | None -> "ERR nix::UninitializedEntity ## ERR"
  | Some (m, s, _) ->
    let mo = route_op r m.disk.a_shape q and so = route_op r (s_shape s) q in
    (match mo, so with
     | Ok o, Ok o' when o = o' -> run_ops [o]
     | Ok o, _ when !spec_gone -> run_ops [o]
     | Err e, _ when !spec_gone -> "ERR " ^ ostr e ^ " ## ERR"
     | Err e, Err _ -> "ERR " ^ ostr e ^ " ## ERR"
     | UB w, _ -> "UB " ^ ostr w ^ " ## ERR"
     | _ -> failwith "model and specification build different requests")

let handle toks = match toks with
  | "create" :: dt :: compr :: shape ->
    let t = parse_dtype dt in
    let c = (match compr with "none" -> CNone | "deflate" -> CDeflate | "fileauto" -> CFileAuto | _ -> failwith "bad compression") in
    let sh = zs shape in
    state := Some (start t c sh, spec_start t sh, t); spec_gone := false;
    "OK -"
  | ["reopen"; m] ->
    (* closing and reopening the file works whether or not the array exists *)
    if !state = None then "OK - ## OK -" else run_ops [OClose; OOpen (if m = "ro" then RO else RW)]
  | "write" :: rest ->
    (match sections rest with
     | [off; cnt; vals] -> run_ops [OWrite (zs off, zs cnt, OLst.map (parse_val (cur_dt ())) vals)]
     | _ -> failwith "write needs 3 sections")
  | "writeall" :: rest ->
    (match sections rest with
     | [sh; vals] -> run_ops [OWriteAll (zs sh, OLst.map (parse_val (cur_dt ())) vals)]
     | _ -> failwith "writeall needs 2 sections")
  | "append" :: axis :: rest ->
    (match sections rest with
     | [cnt; vals] -> run_ops [OAppend (z_of_string axis, zs cnt, OLst.map (parse_val (cur_dt ())) vals)]
     | _ -> failwith "append needs 2 sections")
  | "extent" :: sh -> run_ops [OExtent (zs sh)]
  | ["shape"] -> run_ops [OShape]
  | "read" :: rest ->
    (match sections rest with [off; cnt] -> run_ops [ORead (false, None, zs off, zs cnt)] | _ -> failwith "read")
  | "raw" :: rest ->
    (match sections rest with [off; cnt] -> run_ops [ORead (true, None, zs off, zs cnt)] | _ -> failwith "raw")
  | "readas" :: dt :: rest ->
    (match sections rest with [off; cnt] -> run_ops [ORead (false, Some (parse_dtype dt), zs off, zs cnt)] | _ -> failwith "readas")
  | "rawas" :: dt :: rest ->
    (match sections rest with [off; cnt] -> run_ops [ORead (true, Some (parse_dtype dt), zs off, zs cnt)] | _ -> failwith "rawas")
  | ["readvec"] -> run_ops [OReadVec]
  | "tcreate" :: elem :: stored :: compr :: route :: rest ->
    (match sections rest with
     | [ext; vals] ->
       let te = parse_dtype elem in
       let ts = if stored = "Nothing" then te else parse_dtype stored in
       let c = (match compr with "none" -> CNone | "deflate" -> CDeflate | "fileauto" -> CFileAuto | _ -> failwith "bad compression") in
       let r = parse_route route (zs ext) in
       last_dt := ts;
       let vs = OLst.map (parse_val te) vals in
       (* behaviour switch: NDArr.create_fill_rolls_back; NIXV_C01_MODEL=repaired|today overrides it for replays
          against patched / unpatched copies without editing Coq *)
       let rollback = (match OSys.getenv_opt "NIXV_C01_MODEL" with
           | Some "repaired" -> true | Some "today" -> false | _ -> create_fill_rolls_back) in
       let (oa, outcome) = create_fill rollback te ts c r (zs ext) vs in
       let sp = spec_create_fill te ts r (zs ext) vs in
       let placeholder = spec_start ts (zs ext) in
       (match oa with
        | Some a -> state := Some ({ disk = a; sess = Some RW }, (match sp with Some h -> h | None -> placeholder), ts);
          spec_gone := (sp = None)
        | None -> state := None; spec_gone := false);
       let nan = (match outcome with UB w -> ostr w = ostr nan_cast_why | _ -> false) in
       let ms = (match outcome with Ok _ -> "OK -" | Err e -> "ERR " ^ ostr e | UB w -> if nan then "ANY" else "UB " ^ ostr w) in
       ms ^ " ## " ^ (if nan then "ANY" else match sp with Some _ -> "OK -" | None -> "ERR")
     | _ -> failwith "tcreate needs 2 sections")
  | ["has"] ->
    (match !state with Some _ -> "OK 1 1" | None -> "OK 0 0") ^ " ## " ^
    (match !state with Some _ when not !spec_gone -> "OK 1 1" | _ -> "OK 0 0")
  | "polyc" :: _ :: cs -> run_ops [OPoly (Some (OLst.map dec_dbl cs))]
  | "rawwrite" :: rest ->
    (match sections rest with
     | [off; cnt; vals] -> run_ops [OWrite (zs off, zs cnt, OLst.map (parse_val (cur_dt ())) vals)]
     | _ -> failwith "rawwrite needs 3 sections")
  | "ndidx" :: dt :: rest ->
    (match sections rest with
     | [sh; vals; idx] ->
       (match nd_index (zs sh) (zs idx) with
        | Ok pos -> "OK " ^ show_val (OLst.nth (OLst.map (parse_val (parse_dtype dt)) vals) (int_of_z pos))
        | Err e -> "ERR " ^ ostr e
        | UB w -> "UB " ^ ostr w)
     | _ -> failwith "ndidx needs 3 sections")
  | "ndset" :: dt :: rest ->
    (match sections rest with
     | [sh; vals; idx; [v]] ->
       (match nd_index (zs sh) (zs idx) with
        | Ok pos ->
          let p = int_of_z pos and nv = parse_val (parse_dtype dt) v in
          "OK " ^ show_list show_val (OLst.mapi (fun i x -> if i = p then nv else x) (OLst.map (parse_val (parse_dtype dt)) vals))
        | Err e -> "ERR " ^ ostr e
        | UB w -> "UB " ^ ostr w)
     | _ -> failwith "ndset needs 4 sections")
  | "applypoly" :: _ :: origin :: rest ->
    (match sections rest with
     | [_; cs; xs] ->
       "OK " ^ show_list enc_dbl (OLst.map (fun x -> apply_poly (OLst.map dec_dbl cs) (dec_dbl origin) (dec_dbl x)) xs)
     | _ -> failwith "applypoly needs 3 sections")
  | ["str2dt"; s] ->
    (match string_to_dtype_name (cstr (dec_str s)) with
     | Ok n -> "OK " ^ ostr n
     | Err e -> "ERR " ^ ostr e
     | UB w -> "UB " ^ ostr w)
  | "tsetall" :: route :: rest ->
    (match sections rest with
     | [ext; vals] -> run_typed (parse_route route (zs ext)) (TSetAll (zs ext, OLst.map (parse_val (cur_dt ())) vals))
     | _ -> failwith "tsetall needs 2 sections")
  | "tset" :: route :: rest ->
    (match sections rest with
     | [ext; off; vals] -> run_typed (parse_route route (zs ext)) (TSet (zs ext, zs off, OLst.map (parse_val (cur_dt ())) vals))
     | _ -> failwith "tset needs 3 sections")
  | "tgetall" :: route :: ext -> run_typed (parse_route route (zs ext)) TGetAll
  | "tget" :: route :: rest ->
    (match sections rest with
     | [ext; off; cnt] -> run_typed (parse_route route (zs ext)) (TGet (zs off, zs cnt))
     | _ -> failwith "tget needs 3 sections")
  | "tgetat" :: route :: rest ->
    (match sections rest with
     | [ext; off] -> run_typed (parse_route route (zs ext)) (TGetAt (zs ext, zs off))
     | _ -> failwith "tgetat needs 2 sections")
  | ["poly"; "none"] -> run_ops [OPoly None]
  | "poly" :: cs -> run_ops [OPoly (Some (OLst.map dec_dbl cs))]
  | ["origin"; "none"] -> run_ops [OOrigin None]
  | ["origin"; d] -> run_ops [OOrigin (Some (dec_dbl d))]
  | ["cal"] -> run_ops [OCal]
  | _ -> failwith "bad command"
(* handle routes: `@h cmd ...` runs cmd through another handle to the same array - the model has ONE array, so the
   handle does not matter *)
let handle_any toks = match toks with
  | h :: rest when OStr.length h > 0 && h.[0] = '@' -> handle rest
  | _ -> handle toks
let () = run_file OSys.argv.(1) handle_any
