(* C16 model driver for the value-type stream of harness/drv_C16.cpp: the NDSize comparison operators are the
   code regenerated from include/nix/NDSize.hpp (Gen/GenNDSize.v), operator+ and operator[] the hand operations of
   Base/NDSizeOps.v.  Lines the model does not speak about are answered ANY. *)
let nd rank v = OLst.init rank (fun _ -> z_of_int v)
let show_nd l = "rank=" ^ string_of_int (OLst.length l) ^ " [" ^ OStr.concat "" (OLst.map (fun x -> " " ^ string_of_z x) l) ^ " ]"
let show_res f r = match r with Ok o -> "OK " ^ f o | Err e -> "ERR " ^ ostr e | UB w -> "UB " ^ ostr w
let b01 b = if b then "1" else "0"
let handle toks = match toks with
  | ["value"; "ndarith"; f; r1; r2] ->
    let a = nd (oint_of_string r1) 6 and b = nd (oint_of_string r2) 3 in
    (match f with
     | "add" -> show_res show_nd (nd_add a b)
     | "lt" -> show_res b01 (nd_lt a b) | "le" -> show_res b01 (nd_le a b)
     | "gt" -> show_res b01 (nd_gt a b) | "ge" -> show_res b01 (nd_ge a b)
     | "eq" -> show_res b01 (nd_eq a b) | "ne" -> show_res b01 (nd_ne a b)
     | _ -> "ANY")
  | ["value"; "ndindex"; r; i] -> show_res string_of_z (nd_get (nd (oint_of_string r) 7) (z_of_string i))
  | _ -> "ANY"
let () = run_file OSys.argv.(1) handle
