(* glue shared by the C09 and C11 model drivers: parse a script line into a [cmd] of coq/FileIO/Script.v,
   run [sstep], print the model's answer and, after " ## ", the specification's answer.
   The language is documented in harness/fileio_common.hpp. *)
let rec nat_of_int (n : int) : nat = if n <= 0 then O else S (nat_of_int (n - 1))

let show_pval v = match v with PInt z -> string_of_z z | PCount n -> "#" ^ string_of_z n
let show_tree (t : tree) : ostring =
  let arr a = ostr a.a_name ^ "=" ^ OStr.concat "," (OLst.map string_of_z a.a_data) in
  let blk b = ostr b.b_name ^ "/" ^ string_of_z b.b_extra ^ "(" ^ OStr.concat ";" (OLst.map arr b.b_arrs) ^ ")" in
  let prp p = ostr p.p_name ^ "=" ^ show_pval p.p_val in
  let sec s = ostr s.s_name ^ "/" ^ string_of_z s.s_subs ^ "(" ^ OStr.concat ";" (OLst.map prp s.s_props) ^ ")" in
  "B[" ^ OStr.concat "|" (OLst.map blk t.t_blocks) ^ "]S[" ^ OStr.concat "|" (OLst.map sec t.t_secs) ^ "]"

let show_atom a = match a with
  | AStr s -> ostr s
  | AKV (k, z) -> ostr k ^ "=" ^ string_of_z z
  | ANum z -> string_of_z z
  | ATree t -> show_tree t
let show_answer a = match a with
  | AnsOk l -> "OK " ^ OStr.concat " " (OLst.map show_atom l)
  | AnsErr -> "ERR"

let mode_of s = match s with "ro" -> ReadOnly | "rw" -> ReadWrite | "ow" -> Overwrite | _ -> failwith "bad mode"
let comp_of s = match s with "none" -> CompNone | "deflate" -> CompDeflate | "auto" -> CompAuto | _ -> failwith "bad compression"
let zs l = OLst.map z_of_string l

let parse1 toks = match toks with
  | ["fs"; v] -> CFs (cstr v)
  | ["hdr"; d] ->
    let rest n = OStr.sub d n (OStr.length d - n) in
    let hd = (match d with
        | "noformat" -> DNoFormat
        | "badformat" -> DFormat (cstr "xin")
        | "noversion" -> DNoVersion
        | "noid" -> DNoId
        | _ -> if OStr.length d > 4 && OStr.sub d 0 4 = "fmt=" then DFormat (cstr (dec_str (rest 4)))
               else if OStr.length d > 4 && OStr.sub d 0 4 = "ver=" then DVersion (zs (OStr.split_on_char '.' (rest 4)))
               else failwith "bad defect") in
    CHdr (cstr d, hd)
  | ["open"; m; c; f] -> COpen (mode_of m, comp_of c, f = "1")
  | ["blk"; n] -> CContent (cstr "blk", TBlk (cstr n))
  | ["sec"; n] -> CContent (cstr "sec", TSec (cstr n))
  | "arr" :: b :: n :: vals -> CContent (cstr "arr", TArr (cstr b, cstr n, zs vals))
  | "set" :: b :: a :: vals -> CContent (cstr "set", TSet (cstr b, cstr a, zs vals))
  | ["prop"; s; n; v] -> CContent (cstr "prop", TProp (cstr s, cstr n, z_of_string v))
  | ["delblk"; n] -> CContent (cstr "delblk", TDelBlk (cstr n))
  | ["delsec"; n] -> CContent (cstr "delsec", TDelSec (cstr n))
  | ["delarr"; b; n] -> CContent (cstr "delarr", TDelArr (cstr b, cstr n))
  | ["rich"; n] -> CContent (cstr "rich", TRich (cstr n))
  | ["dump"] -> CDump
  | ["snap"] -> CSnap
  | ["cmp"] -> CCmp
  | ["sha0"] -> CSha0
  | ["sha?"] -> CShaQ
  | ["romut"; name; c; f; uc] -> CRoMut (cstr name, comp_of c, f = "1", uc = "1")
  | ["rwmut"; name] -> CRwMut (cstr name)
  | ["nomut"; name; m] -> CNoMut (cstr name, m = "ro")
  | ["mutin"; name; uc] -> CMutIn (cstr name, uc = "1")
  | ["battery"] -> CBattery
  | ["flush"] -> CFlush
  | ["close"] -> CClose
  | ["hold"; k; n] -> CHold (cstr k, nat_of_int (oint_of_string n))
  | ["drop"; k; n] -> CDrop (cstr k, nat_of_int (oint_of_string n))
  | ["stale"; name; cls; kind] -> CStale (cstr name, cls = "touch", cstr kind)
  | ["killrun"] -> CKillrun
  | _ -> failwith ("bad command: " ^ OStr.concat " " toks)

let parse toks = match toks with
  | ["open2"; m; c; f] -> COpen2 (mode_of m, comp_of c, f = "1")
  | ["mutin2"; name; uc] -> CMutIn2 (cstr name, uc = "1")
  | ["blk2"; n] -> CBlk2 (cstr n)
  | ["dump2"] -> CDump2
  | ["flush2"] -> CFlush2
  | ["close2"] -> CClose2
  | _ -> C1 (parse1 toks)

let state = ref init2

let handle toks =
  let c = parse toks in
  let ((st, ans), sp) = sstep2 !state c in
  state := st;
  let m = show_answer ans in
  match sp with
  | SameAsModel -> m
  | Spec a -> m ^ " ## " ^ show_answer a
  | AnyAnswer -> m ^ " ## ANY"
