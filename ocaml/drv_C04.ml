(* use: hist_common *)
(* C04 model driver: the script interpreter of hist_common.ml; specification = the repaired model's answer to every
   delete, with its report: nothing dangling, no handle of a removed entity valid, the dump afterwards = the dump
   before without the removed entities *)
let () = run_hist "C04"
