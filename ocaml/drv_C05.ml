(* use: f64glue *)
(* use: retr_common *)
(* C05 model driver: the retrieval script language is interpreted by ocaml/retr_common.ml over the extracted
   coq/Access/Retrieval.v (model, replayed with [current_behaviour] unless RETR_MODEL=today|repaired|ideal) and
   coq/Access/RetrievalSpec.v (the brute-force specification: the part after ##) *)
let () = run_file OSys.argv.(1) handle
