(* use: f64glue *)
(* C19 model driver: same script language as harness/drv_C19.cpp (documented there).
   The script is interpreted into a small mutable description of the file; at `validate` that
   description is turned into the observation tree [vfile] of coq/Valid/Validator.v (entity ids =
   creation ordinals as decimal strings), the extracted model [validate_current] is run on it and
   its result list is printed in the canonical form of the C++ driver.

   After ` ## ` the specification's demands on a validator's answer for this file are printed in
   a small verdict language (the textual form of ValidSpec.verdict, computed by the extracted
   [verdicts]); tools/props/C19.py judges the implementation's answer with it:

     SPEC J=<0|1> <clause>*
       NOERR              the file satisfies every documented hard rule: no E line at all
       NE:<id>            entity <id> (ordinal | unknown) satisfies every documented hard rule:
                          no E line about it
       E:<id>             entity <id> breaches a hard rule listed in C19: at least one E line about it
       EU:<n>:<s:text>    n dimensions breach the rule with this message: at least n E lines
                          `unknown` with this text
       W:<id>:<s:text>    soft breach: at least one W line about <id> with this text
       WU:<n>:<s:text>    the same for dimensions, at least n
     J = the extracted Coq [judge] applied to the model's own answer (cross-check of the Python
     implementation of the clause semantics; not used for the verdict on the implementation).

   Unit predicates: the model and the specification take util::isSIUnit, util::isCompoundSIUnit and
   util::isScalable as parameters (the unit algebra is property C18).  Here they are instantiated by
   the table [unit_table] below, which covers exactly the unit strings the generator uses; an
   unknown unit string aborts the driver. *)

(* ---- table-based unit predicates -------------------------------------------------------------- *)
(* unit -> (atomic, compound, base unit, power) as util::splitUnit / isAtomicSIUnit / isCompoundSIUnit decide *)
let unit_table : (ostring * (bool * bool * ostring * ostring)) olist = [
  ("s", (true, false, "s", ""));   ("ms", (true, false, "s", ""));  ("us", (true, false, "s", ""));
  ("V", (true, false, "V", ""));   ("mV", (true, false, "V", ""));  ("uV", (true, false, "V", ""));
  ("A", (true, false, "A", ""));   ("nA", (true, false, "A", ""));
  ("Hz", (true, false, "Hz", "")); ("kHz", (true, false, "Hz", ""));
  ("m", (true, false, "m", ""));   ("mm", (true, false, "m", ""));  ("K", (true, false, "K", ""));
  ("s^2", (true, false, "s", "2")); ("ms^2", (true, false, "s", "2"));
  ("mV/s", (false, true, "mV/s", "")); ("m*s", (false, true, "m*s", "")); ("V*A", (false, true, "V*A", ""));
  ("spikes", (false, false, "spikes", "")); ("foo", (false, false, "foo", "")); ("au", (false, false, "au", ""));
  ("none", (false, false, "none", "")); ("", (false, false, "", "")) ]
let lookup (u : ostring) = match OLst.assoc_opt u unit_table with
  | Some x -> x
  | None -> failwith ("drv_C19: unit not in the table: " ^ u)
let o_atomic u = let (a, _, _, _) = lookup u in a
let o_compound u = let (_, c, _, _) = lookup u in c
let o_isSI u = u <> "" && (o_atomic u || o_compound u)            (* util::isSIUnit *)
let o_scalable a b =                                               (* util::isScalable *)
  if not (o_isSI a && o_isSI b) then false
  else let (_, _, ba, pa) = lookup a and (_, _, bb, pb) = lookup b in ba = bb && pa = pb
let c_isSI (u : string) = o_isSI (ostr u)
let c_isCompound (u : string) = o_compound (ostr u)
let c_scalable (a : string) (b : string) = o_scalable (ostr a) (ostr b)
(* the specification's vocabulary *)
let c_atomicSI (u : string) = o_atomic (ostr u)
let c_validSI (u : string) = o_isSI (ostr u) || o_compound (ostr u)
let c_convertible = c_scalable

(* ---- mutable description of the file ----------------------------------------------------------- *)
type odim = {
  dk : char;                                 (* 's'et 'S'ampled 'r'ange 'a'lias 'f'rame *)
  mutable labels : ostring olist;
  mutable interval : binary_float option;
  mutable offset : binary_float option;
  mutable dunit : ostring option;
  mutable ticks : binary_float olist;
  frame : int;
  col : int option;
}
type oent = {
  kind : char;                               (* b a f t m F s S p *)
  parent : int;
  name : ostring;
  mutable typ : ostring option;
  mutable extent : int olist;
  mutable slots : odim option olist;
  mutable aunit : ostring option;
  mutable poly : int;
  mutable origin : bool;
  mutable data : binary_float olist option;
  mutable rows : int;
  colunit : ostring;
  mutable posn : int;
  mutable extn : int;
  mutable units : ostring olist;
  mutable refs : int olist;
  mutable positions : int option;
  mutable extents : int option;
  mutable fdata : bool;
  mutable flink : int option;
  mutable nvals : int;
  mutable punit : ostring option;
}
let blank kind parent name typ = {
  kind; parent; name; typ = Some typ; extent = []; slots = []; aunit = None; poly = 0; origin = false; data = None;
  rows = 0; colunit = ""; posn = 0; extn = 0; units = []; refs = []; positions = None; extents = None;
  fdata = true; flink = None; nvals = 0; punit = None }

let ents : oent olist ref = ref []           (* in creation order *)
let count () = OLst.length !ents
let get (tok : ostring) : oent = OLst.nth !ents (oint_of_string tok)
let push e = ents := !ents @ [e]
let ord tok = oint_of_string tok

let rec take n l = if n = 0 then [] else match l with [] -> failwith "short line" | x :: r -> x :: take (n - 1) r
let counted toks = match toks with n :: rest -> take (oint_of_string n) rest | [] -> failwith "count expected"
let new_dim dk = { dk; labels = []; interval = None; offset = None; dunit = None; ticks = []; frame = -1; col = None }
let set_slot (e : oent) (k : int) (f : odim option -> odim option) =
  e.slots <- OLst.mapi (fun i s -> if i = k - 1 then f s else s) e.slots
let dim_of (e : oent) (k : int) : odim = match OLst.nth e.slots (k - 1) with Some d -> d | None -> failwith "no such dimension"
let zero = f64_of_bits 0L

(* ---- conversion to the observation tree -------------------------------------------------------- *)
let zi = z_of_int
let vent_of i : vent = { e_id = cstr (ostring_of_int i); e_created = Some (zi 1) }
let vnamed_of i (e : oent) : vnamed =
  { n_ent = vent_of i; n_name = cstr e.name; n_type = (match e.typ with Some t -> Some (cstr t) | None -> None) }
let cso o = match o with Some s -> Some (cstr s) | None -> None
let fill n = OLst.init n (fun _ -> zero)
let vdim_of (all : oent olist) (a : oent) (d : odim) : vdim = match d.dk with
  | 's' -> DSet (OLst.map cstr d.labels)
  | 'S' -> DSampled (d.interval, d.offset, cso d.dunit)
  | 'r' -> DRange (d.ticks, cso d.dunit)
  | 'a' -> (* alias: ticks are the array's own data, the unit is the array's unit *)
    let n = (match a.extent with [n] -> n | _ -> failwith "alias on non 1-D array") in
    DRange ((match a.data with Some v -> v | None -> fill n), cso a.aunit)
  | 'f' ->
    let f = OLst.nth all d.frame in
    DFrame (zi f.rows, (match d.col with Some 0 -> Some (cstr f.colunit) | Some _ -> Some (cstr "") | None -> None))
  | _ -> failwith "bad dimension kind"
let varray_of all i (a : oent) : varray =
  { a_ent = vnamed_of i a; a_dtype_set = true; a_extent = OLst.map zi a.extent;
    a_slots = OLst.map (fun s -> match s with Some d -> Some (vdim_of all a d) | None -> None) a.slots;
    a_unit = cso a.aunit; a_poly_n = zi a.poly; a_origin_set = a.origin }
let indexed l = OLst.mapi (fun i e -> (i, e)) l
let children all kind parent = OLst.filter (fun (_, e) -> e.kind = kind && e.parent = parent) (indexed all)
let vfeature_of i (f : oent) : vfeature =
  { f_ent = vent_of i; f_data = Some f.fdata; f_link = (match f.flink with Some l -> Some (zi l) | None -> None) }
let refs_of all (t : oent) = OLst.map (fun r -> varray_of all r (OLst.nth all r)) t.refs
let feats_of all i = OLst.map (fun (j, f) -> vfeature_of j f) (children all 'F' i)
let vtag_of all i (t : oent) : vtag =
  { t_ent = vnamed_of i t; t_position_n = zi t.posn; t_extent_n = zi t.extn; t_units = OLst.map cstr t.units;
    t_refs = refs_of all t; t_feats = feats_of all i }
let shape_of all r = OLst.map zi (OLst.nth all r).extent
let vmtag_of all i (m : oent) : vmtag =
  { m_ent = vnamed_of i m;
    m_positions = (match m.positions with Some r -> Some (shape_of all r) | None -> None);
    m_extents = (match m.extents with Some r -> Some (shape_of all r) | None -> None);
    m_units = OLst.map cstr m.units; m_refs = refs_of all m; m_feats = feats_of all i }
(* all sources below a block (Block::findSources) / all sections (File::findSections) *)
let rec root_block all (e : oent) = if e.kind = 'b' then e else root_block all (OLst.nth all e.parent)
let vfile_of (all : oent olist) : vfile =
  let blocks = OLst.filter (fun (_, e) -> e.kind = 'b') (indexed all) in
  let vblock_of (i, b) : vblock =
    { b_ent = vnamed_of i b;
      b_arrays = OLst.map (fun (j, a) -> varray_of all j a) (children all 'a' i);
      b_mtags = OLst.map (fun (j, m) -> vmtag_of all j m) (children all 'm' i);
      b_tags = OLst.map (fun (j, t) -> vtag_of all j t) (children all 't' i);
      b_sources = OLst.map (fun (j, s) -> vnamed_of j s)
          (OLst.filter (fun (_, s) -> s.kind = 's' && root_block all s == b) (indexed all)) } in
  let vsection_of (i, s) : vsection =
    { s_ent = vnamed_of i s;
      s_props = OLst.map (fun (j, p) ->
          { p_ent = vent_of j; p_name = cstr p.name; p_valuecount = zi p.nvals; p_unit = cso p.punit })
          (children all 'p' i) } in
  { f_blocks = OLst.map vblock_of blocks;
    f_sections = OLst.map vsection_of (OLst.filter (fun (_, e) -> e.kind = 'S') (indexed all)) }

(* ---- printing ---------------------------------------------------------------------------------- *)
let show_result (r : result) : ostring =
  let one k (m : message) = k ^ ":" ^ ostr m.m_id ^ ":" ^ enc_str (ostr m.m_text) in
  let lines = OLst.sort OStr.compare (OLst.map (one "E") r.errors @ OLst.map (one "W") r.warnings) in
  OStr.concat " " (ostring_of_int (OLst.length lines) :: lines)
let show_verdict (v : verdict) : ostring = match v with
  | VNoErrors -> "NOERR"
  | VNoErrorAbout id -> "NE:" ^ ostr id
  | VErrorAbout id -> "E:" ^ ostr id
  | VUnknownErrors (text, n) -> "EU:" ^ string_of_z n ^ ":" ^ enc_str (ostr text)
  | VWarningAbout (id, text) -> "W:" ^ ostr id ^ ":" ^ enc_str (ostr text)
  | VUnknownWarnings (text, n) -> "WU:" ^ string_of_z n ^ ":" ^ enc_str (ostr text)

let do_validate () : ostring =
  let t = vfile_of !ents in
  let r = validate_current c_isSI c_isCompound c_scalable t in
  let vs = verdicts c_atomicSI c_validSI c_convertible t in
  "OK " ^ show_result r ^ " ## SPEC J=" ^ bool01 (judge vs r)
  ^ OStr.concat "" (OLst.map (fun v -> " " ^ show_verdict v) vs)

(* `entities ro|rw`: the per-entity verdicts of the model, in the format of harness/drv_C19.cpp do_entities.
   The model's answer does not depend on the mode; walk / acc / ids are 1 by C19_validate_is_entitywise,
   C19_result_accessors and all_id_validate_ent. *)
let do_entities () : ostring =
  let t = vfile_of !ents in
  let toks = ref [] and calls = ref 0 in
  let take key (r : result) =
    incr calls;
    OLst.iter (fun (m : message) -> toks := (key ^ ":E:" ^ enc_str (ostr m.m_text)) :: !toks) r.errors;
    OLst.iter (fun (m : message) -> toks := (key ^ ":W:" ^ enc_str (ostr m.m_text)) :: !toks) r.warnings in
  let ve = validate_ent c_isSI c_isCompound c_scalable tagUnits_variant propUnit_variant in
  OLst.iter (fun e ->
      match e with
      | EDim (o, idx, d) ->
        let dk = ostr o.a_ent.n_ent.e_id ^ "." ^ string_of_z idx in
        take ("g" ^ dk) (validate_dimension idx);
        (match d with DFrame _ -> () | _ -> take dk (ve e))
      | _ -> take (ostr (ent_id e)) (ve e))
    (entities t);
  take "file" (validate_file { h_id = cstr "file"; h_open = true; h_created = Some (zi 1); h_version_n = zi 3;
                               h_format = cstr "nix"; h_location = cstr "c19.nix" });
  let whole = validate_current c_isSI c_isCompound c_scalable t in
  let acc = (has_errors whole = (whole.errors <> [])) && (has_warnings whole = (whole.warnings <> []))
            && (result_ok whole = (whole.errors = [] && whole.warnings = [])) in
  "OK walk=1 acc=" ^ bool01 acc ^ " ids=1 n=" ^ ostring_of_int !calls
  ^ OStr.concat "" (OLst.map (fun x -> " " ^ x) (OLst.sort OStr.compare !toks))

(* ---- the script interpreter -------------------------------------------------------------------- *)
let handle toks =
  (match toks with
   | ["new"] -> ents := []; "OK -"
   | ["validate"] | ["vlive"] -> do_validate ()
   | ["entities"; _] -> do_entities ()
   | "h5" :: op :: e :: rest ->
     let x = get e in
     (match op, rest with
      | "ticks", k :: vals -> (dim_of x (ord k)).ticks <- OLst.map dec_dbl (counted vals)
      | "interval", [k; v] -> (dim_of x (ord k)).interval <- Some (dec_dbl v)
      | "nointerval", [k] -> (dim_of x (ord k)).interval <- None
      | "dunit", [k; u] -> (dim_of x (ord k)).dunit <- Some (dec_str u)
      | "deldim", [k] ->
        (* the group named k disappears: one object less in the dimensions group; the remaining groups keep their names *)
        let present = OLst.filter (fun (i, _) -> i <> ord k - 1) (indexed x.slots) in
        let n = OLst.length x.slots - 1 in
        x.slots <- OLst.init n (fun i -> match OLst.assoc_opt i present with Some s -> s | None -> None)
      | "units", vals -> x.units <- OLst.map dec_str (counted vals)
      | "nopositions", [] -> x.positions <- None
      | "noposition", [] -> x.posn <- 0
      | "nodata", [] -> x.fdata <- false
      | "nolink", [] -> x.flink <- None
      | "notype", [] -> x.typ <- None
      | _ -> failwith "bad h5 command");
     "OK -"
   | _ ->
     (match toks with
      | ["block"; n; t] -> push (blank 'b' (-1) n t)
      | "array" :: b :: n :: t :: _ :: ext -> push { (blank 'a' (ord b) n t) with extent = OLst.map oint_of_string ext }
      | ["frame"; b; n; t; rows; cu] -> push { (blank 'f' (ord b) n t) with rows = oint_of_string rows; colunit = dec_str cu }
      | ["aunit"; a; u] -> (get a).aunit <- Some (dec_str u)
      | ["apoly"; a; n] -> (get a).poly <- oint_of_string n
      | ["aorigin"; a] -> (get a).origin <- true
      | "adata" :: a :: vals -> (get a).data <- Some (OLst.map dec_dbl (counted vals))
      | "dset" :: a :: vals -> let x = get a in x.slots <- x.slots @ [Some { (new_dim 's') with labels = OLst.map dec_str (counted vals) }]
      | ["dsamp"; a; iv] -> let x = get a in x.slots <- x.slots @ [Some { (new_dim 'S') with interval = Some (dec_dbl iv) }]
      | "drange" :: a :: vals -> let x = get a in x.slots <- x.slots @ [Some { (new_dim 'r') with ticks = OLst.map dec_dbl (counted vals) }]
      | ["dalias"; a] -> let x = get a in x.slots <- x.slots @ [Some (new_dim 'a')]
      | ["ddf"; a; f; c] ->
        let x = get a in
        x.slots <- x.slots @ [Some { (new_dim 'f') with frame = ord f; col = (if c = "-" then None else Some (oint_of_string c)) }]
      | ["dunit"; a; k; u] -> (dim_of (get a) (ord k)).dunit <- Some (dec_str u)
      | ["doffset"; a; k; o] -> (dim_of (get a) (ord k)).offset <- Some (dec_dbl o)
      | "tag" :: b :: n :: t :: pos -> push { (blank 't' (ord b) n t) with posn = OLst.length (counted pos) }
      | ["mtag"; b; n; t; p] -> push { (blank 'm' (ord b) n t) with positions = Some (ord p) }
      | "tunits" :: t :: vals -> (get t).units <- OLst.map dec_str (counted vals)
      | "textent" :: t :: vals -> (get t).extn <- OLst.length (counted vals)
      | ["mext"; m; a] -> (get m).extents <- Some (ord a)
      | ["ref"; t; a] -> let x = get t in x.refs <- x.refs @ [ord a]
      | ["feat"; t; _; l] -> push { (blank 'F' (ord t) "" "") with flink = Some (oint_of_string l) }
      | ["source"; p; n; t] -> push (blank 's' (ord p) n t)
      | ["section"; p; n; t] -> push (blank 'S' (if p = "-" then -1 else ord p) n t)
      | ["prop"; s; n; k] -> push { (blank 'p' (ord s) n "") with nvals = oint_of_string k }
      | ["punit"; p; u] -> (get p).punit <- Some (dec_str u)
      (* edits of existing entities *)
      | ["dnounit"; a; k] -> (dim_of (get a) (ord k)).dunit <- None
      | ["anounit"; a] -> (get a).aunit <- None
      | ["anopoly"; a] -> (get a).poly <- 0
      | ["anoorigin"; a] -> (get a).origin <- false
      | "dlabels" :: a :: k :: vals -> (dim_of (get a) (ord k)).labels <- OLst.map dec_str (counted vals)
      | "dticks" :: a :: k :: vals -> (dim_of (get a) (ord k)).ticks <- OLst.map dec_dbl (counted vals)
      | ["dinterval"; a; k; v] -> (dim_of (get a) (ord k)).interval <- Some (dec_dbl v)
      | ["dnooffset"; a; k] -> (dim_of (get a) (ord k)).offset <- None
      | ["frows"; f; n] -> (get f).rows <- oint_of_string n
      | "aextent" :: a :: _ :: ext -> (get a).extent <- OLst.map oint_of_string ext
      | ["deldims"; a] -> (get a).slots <- []
      | ["fdata"; f; _] -> (get f).fdata <- true
      | ["mpositions"; m; a] -> (get m).positions <- Some (ord a)
      | ["pnounit"; p] -> (get p).punit <- None
      | ["pvalues"; p; n] -> (get p).nvals <- oint_of_string n
      | ["etype"; e; ty] -> (get e).typ <- Some ty
      | ["unref"; tg; a] -> let x = get tg in x.refs <- OLst.filter (fun r -> r <> ord a) x.refs
      | _ -> failwith ("bad command: " ^ OStr.concat " " toks));
     "OK -")
let () = run_file OSys.argv.(1) handle
