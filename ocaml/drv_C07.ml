(* use: f64glue *)
(* C07 model driver: same case language as harness/drv_C07.cpp.  Model = the GENERATED index
   functions (sampled / set / data frame) and the hand model of getIndex (range); specification =
   the extracted judge [index_ok] applied to the candidates around the model's answers. *)
let rule_of = function
  | "L" -> PositionMatch_Less | "LE" -> PositionMatch_LessOrEqual | "GE" -> PositionMatch_GreaterOrEqual
  | "G" -> PositionMatch_Greater | "EQ" -> PositionMatch_Equal | _ -> failwith "bad rule"
let all_rules = [PositionMatch_Less; PositionMatch_LessOrEqual; PositionMatch_GreaterOrEqual; PositionMatch_Greater; PositionMatch_Equal]
let show_opt = function Some i -> string_of_z i | None -> "none"
let show_pair = function Some (a, b) -> string_of_z a ^ " " ^ string_of_z b | None -> "none"
let show_res f r = match r with Ok o -> "OK " ^ f o | Err e -> "ERR " ^ ostr e | UB w -> "UB " ^ ostr w
let zadd a d = z_of_zarith (Zar.add (zarith_of_z a) (Zar.of_int d))
let two52 = f64_of_bits 0x4330000000000000L
let maxi = z_of_zarith (Zar.shift_left Zar.one 53)

type 'a spec = Any | Undetermined | Is of 'a

(* the unique candidate accepted by the judge, searched around the model's own answers *)
let solve x n m p (centers : z olist) : z option spec =
  let cands = None :: OLst.concat_map (fun c -> OLst.map (fun d -> Some (zadd c d)) [0; -1; 1; -2; 2; -3; 3]) centers in
  match OLst.find_opt (fun c -> index_ok x n m p c) cands with
  | Some c -> Is c
  | None -> Undetermined

let spec_scalar x n m p (model_of : positionMatch -> z option res) : z option spec =
  let centers = OLst.concat_map (fun r -> match model_of r with Ok (Some i) -> [i] | _ -> []) all_rules
                @ [Z0] @ (match n with Some k -> [zadd k (-1)] | None -> []) in
  match m with
  | PositionMatch_Equal ->
    (match solve x n PositionMatch_LessOrEqual p centers with
     | Is le -> Is (spec_equal x p le)
     | s -> s)
  | _ -> solve x n m p centers

let show_spec f = function Any -> "ANY" | Undetermined -> "UNDETERMINED" | Is v -> "OK " ^ f v

let finite_pos dt = fis_finite dt && flt (ofZ Z0) dt
let off_of t = if t = "-" then ofZ Z0 else dec_dbl t

(* domain of the specification for each axis kind *)
let sampled_dom dt off p = finite_pos dt && fis_finite off && fis_finite p
let int_dom p = fis_finite p && flt p two52

let sampled_ctx dt off = (x_sampled dt off, Some (zadd maxi 1), (fun p m -> getSampledIndex p off dt m))
let set_ctx k = (x_int, n_count (z_of_int k), (fun p m -> getSetIndex p (OLst.init k (fun _ -> cstr "l")) m))
let df_ctx k = (x_int, n_count (z_of_int k), (fun p m -> getDataFrameIndex p (z_of_int k) m))
let range_ctx ticks = (x_ticks ticks, Some (z_of_int (OLst.length ticks)), (fun p m -> getIndex p ticks m))

let scalar (x, n, f) dom p m =
  let model = f p m in
  let spec = if dom then spec_scalar x n m p (f p) else Any in
  show_res show_opt model ^ " ## " ^ show_spec show_opt spec

let pair (x, n, f) dom s e incl =
  let em = if incl then PositionMatch_LessOrEqual else PositionMatch_Less in
  let msi = f s PositionMatch_GreaterOrEqual and mei = f e em in
  let model = (match msi, mei with
      | Ok a, Ok b -> Ok (pair_of (fgt s e) a b)
      | (Err x, _) | (_, Err x) -> Err x
      | (UB x, _) | (_, UB x) -> UB x) in
  let spec = if not dom then Any else
      (match spec_scalar x n PositionMatch_GreaterOrEqual s (f s), spec_scalar x n em e (f e) with
       | Is a, Is b -> Is (pair_of (fgt s e) a b)
       | Any, _ | _, Any -> Any
       | _ -> Undetermined) in
  (model, spec)

let mode_incl = function "incl" -> true | "excl" -> false | _ -> failwith "bad mode"
let rec take k l = if k = 0 then [] else match l with [] -> [] | h :: t -> h :: take (k - 1) t
let rec drop k l = if k = 0 then l else match l with [] -> [] | _ :: t -> drop (k - 1) t

let rec handle toks = match toks with
  | ["sampled"; dt; off; p; r] ->
    let dt = dec_dbl dt and o = off_of off and p = dec_dbl p in
    scalar (sampled_ctx dt o) (sampled_dom dt o p) p (rule_of r)
  | ["posat"; dt; off; i] -> "OK " ^ enc_dbl (x_sampled (dec_dbl dt) (off_of off) (z_of_string i))
  | ["set"; k; p; r] -> let p = dec_dbl p in scalar (set_ctx (oint_of_string k)) (int_dom p) p (rule_of r)
  | ["df"; k; p; r] -> let p = dec_dbl p in scalar (df_ctx (oint_of_string k)) (int_dom p) p (rule_of r)
  | "range" :: k :: rest ->
    let k = oint_of_string k in
    let ticks = OLst.map dec_dbl (take k rest) in
    (match drop k rest with
     | [p; r] -> let p = dec_dbl p in scalar (range_ctx ticks) (fis_finite p && k > 0) p (rule_of r)
     | _ -> failwith "bad range")
  | "rangepair" :: k :: rest ->
    let k = oint_of_string k in
    let ticks = OLst.map dec_dbl (take k rest) in
    (match drop k rest with
     | [s; e; m] ->
       let s = dec_dbl s and e = dec_dbl e in
       let (model, spec) = pair (range_ctx ticks) (fis_finite s && fis_finite e && k > 0) s e (mode_incl m) in
       show_res show_pair model ^ " ## " ^ show_spec show_pair spec
     | _ -> failwith "bad rangepair")
  | ["sampledpair"; dt; off; s; e; m] ->
    let dt = dec_dbl dt and o = off_of off and s = dec_dbl s and e = dec_dbl e in
    let (model, spec) = pair (sampled_ctx dt o) (sampled_dom dt o s && fis_finite e) s e (mode_incl m) in
    show_res show_pair model ^ " ## " ^ show_spec show_pair spec
  | ["setpair"; k; s; e; m] ->
    let s = dec_dbl s and e = dec_dbl e in
    let (model, spec) = pair (set_ctx (oint_of_string k)) (int_dom s && int_dom e) s e (mode_incl m) in
    show_res show_pair model ^ " ## " ^ show_spec show_pair spec
  | ["dfpair"; k; s; e; m] ->
    let s = dec_dbl s and e = dec_dbl e in
    let (model, spec) = pair (df_ctx (oint_of_string k)) (int_dom s && int_dom e) s e (mode_incl m) in
    show_res show_pair model ^ " ## " ^ show_spec show_pair spec
  | "sampledvec" :: dt :: off :: m :: cnt :: rest ->
    let dt = dec_dbl dt and o = off_of off in
    let rec pairs l = match l with s :: e :: t -> (dec_dbl s, dec_dbl e) :: pairs t | _ -> [] in
    let ps = pairs rest in
    let rs = OLst.map (fun (s, e) -> pair (sampled_ctx dt o) (sampled_dom dt o s && fis_finite e) s e (mode_incl m)) ps in
    let bad = OLst.find_opt (fun (md, _) -> match md with Ok _ -> false | _ -> true) rs in
    let model = (match bad with
        | Some (md, _) -> show_res show_pair md
        | None -> "OK " ^ cnt ^ OStr.concat "" (OLst.map (fun (md, _) -> match md with Ok v -> " [" ^ show_pair v ^ "]" | _ -> "") rs)) in
    let spec = if OLst.exists (fun (_, sp) -> sp = Any) rs then "ANY"
      else if OLst.exists (fun (_, sp) -> sp = Undetermined) rs then "UNDETERMINED"
      else "OK " ^ cnt ^ OStr.concat "" (OLst.map (fun (_, sp) -> match sp with Is v -> " [" ^ show_pair v ^ "]" | _ -> "") rs) in
    model ^ " ## " ^ spec
  | ("uvec" | "upos" as cmd) :: kind :: rest ->
    (* the dimension, then its unit *)
    let (ctx, mk, domd, rest) = (match kind, rest with
        | "s", dt :: off :: rest ->
          let dt = dec_dbl dt and o = off_of off in
          (sampled_ctx dt o, (fun du -> DSampled (dt, (if off = "-" then None else Some o), du)),
           (fun s e -> sampled_dom dt o s && fis_finite e), rest)
        | "r", k :: rest ->
          let k = oint_of_string k in
          let ticks = OLst.map dec_dbl (take k rest) in
          (range_ctx ticks, (fun du -> DRange (ticks, du)), (fun s e -> fis_finite s && fis_finite e && k > 0), drop k rest)
        | _ -> failwith "bad dimension kind") in
    (match rest with
     | du :: rest ->
       let du_o = if du = "-" then None else Some (cstr du) in
       let d = mk du_o in
       let dim_none = (du = "-" || du = "none") in
       (* the factor the scalar overload applies to a position carrying unit u *)
       let factor u = if u = "none" then Some (Ok fone) else if dim_none then None
         else Some (scaling_or_incompatible (cstr u) (cstr du)) in
       if cmd = "upos" then
         (match rest with
          | [p; u; r] ->
            let p = dec_dbl p and m = rule_of r in
            let model = positionToIndex_one p (cstr u) m d in
            let (x, n, f) = ctx in
            let spec = (match factor u with
                | None -> "ANY"
                | Some (Ok k) -> let q = fmul p k in
                  show_spec show_opt (if domd q q then spec_scalar x n m q (f q) else Any)
                | Some _ -> "ERR") in
            show_res show_opt model ^ " ## " ^ spec
          | _ -> failwith "bad upos")
       else
         (match rest with
          | m :: cnt :: triples ->
            let rec tr l = match l with s :: e :: u :: t -> (dec_dbl s, dec_dbl e, u) :: tr t | _ -> [] in
            let ts = tr triples in
            let rm = if mode_incl m then RangeMatch_Inclusive else RangeMatch_Exclusive in
            let model = positionToIndex_vec (OLst.map (fun (s, _, _) -> s) ts) (OLst.map (fun (_, e, _) -> e) ts)
                (OLst.map (fun (_, _, u) -> cstr u) ts) rm d in
            let show_list l = string_of_int (OLst.length l) ^ OStr.concat "" (OLst.map (fun v -> " [" ^ show_pair v ^ "]") l) in
            let fs = OLst.map (fun (_, _, u) -> factor u) ts in
            let spec =
              if OLst.exists (fun f -> match f with Some (Err _) | Some (UB _) -> true | _ -> false) fs then "ERR"
              else if OLst.exists (fun f -> f = None) fs then "ANY"
              else begin
                let rs = OLst.map2 (fun (s, e, _) f -> match f with
                    | Some (Ok k) -> let s' = fmul s k and e' = fmul e k in
                      snd (pair ctx (domd s' e') s' e' (mode_incl m))
                    | _ -> Any) ts fs in
                if OLst.exists (fun sp -> sp = Any) rs then "ANY"
                else if OLst.exists (fun sp -> sp = Undetermined) rs then "UNDETERMINED"
                else "OK " ^ show_list (OLst.map (fun sp -> match sp with Is v -> v | _ -> None) rs)
              end in
            ignore cnt;
            show_res show_list model ^ " ## " ^ spec
          | _ -> failwith "bad uvec")
     | _ -> failwith "bad uvec/upos")
  (* ---- remaining routes: model = Axis/Wrappers.v over the generated conversions; specification = the same rule, judged *)
  | ["s1"; dt; off; p] ->
    let dt = dec_dbl dt and o = off_of off and p = dec_dbl p in
    let (x, n, f) = sampled_ctx dt o in
    let spec = if sampled_dom dt o p then (match spec_scalar x n PositionMatch_GreaterOrEqual p (f p) with
        | Is (Some i) -> "OK " ^ string_of_z i | Is None -> "ERR" | Any -> "ANY" | Undetermined -> "UNDETERMINED") else "ANY" in
    show_res string_of_z (sampled_index1 p o dt) ^ " ## " ^ spec
  | ["s2"; dt; off; s; e] ->
    let dt = dec_dbl dt and o = off_of off and s = dec_dbl s and e = dec_dbl e in
    let (_, spec) = pair (sampled_ctx dt o) (sampled_dom dt o s && fis_finite e) s e true in
    let sp = (match spec with Is (Some (a, b)) -> "OK " ^ string_of_z a ^ " " ^ string_of_z b | Is None -> "ERR" | Any -> "ANY" | Undetermined -> "UNDETERMINED") in
    show_res (fun (a, b) -> string_of_z a ^ " " ^ string_of_z b) (sampled_pair2 s e dt o) ^ " ## " ^ sp
  | ("svec2" | "setvec" | "dfvec" | "rvec" | "rvecb" as cmd) :: rest ->
    let (ctx, domf, conv, rest) = (match cmd, rest with
        | "svec2", dt :: off :: rest ->
          let dt = dec_dbl dt and o = off_of off in
          (sampled_ctx dt o, (fun s e -> sampled_dom dt o s && fis_finite e), (fun s e rm -> sampled_pair s e dt o rm), "incl" :: rest)
        | "setvec", k :: rest ->
          let k = oint_of_string k in
          let labels = OLst.init k (fun _ -> cstr "l") in
          (set_ctx k, (fun s e -> int_dom s && int_dom e), (fun s e rm -> set_pair s e labels rm labels), rest)
        | "dfvec", k :: rest ->
          let k = oint_of_string k in
          (df_ctx k, (fun s e -> int_dom s && int_dom e), (fun s e rm -> df_pair s e (z_of_int k) rm), rest)
        | ("rvec" | "rvecb"), k :: rest ->
          let k = oint_of_string k in
          let ticks = OLst.map dec_dbl (take k rest) in
          (range_ctx ticks, (fun s e -> fis_finite s && fis_finite e && k > 0), (fun s e rm -> range_pair s e ticks rm ticks), drop k rest)
        | _ -> failwith "bad vector route") in
    let (strict, rest) = if cmd = "rvecb" then (match rest with st :: r -> (Some (st = "1"), r) | [] -> failwith "bad rvecb") else (None, rest) in
    (match rest with
     | m :: cnt :: vals ->
       let incl = mode_incl m in
       let rm = if incl then RangeMatch_Inclusive else RangeMatch_Exclusive in
       let n = oint_of_string cnt in
       let rec prs k l = if k = 0 then [] else (match l with s :: e :: t -> (dec_dbl s, dec_dbl e) :: prs (k - 1) t | _ -> []) in
       let ps = prs n vals in
       let surplus = OLst.length vals > 2 * n in
       let starts = OLst.map fst ps and ends = OLst.map snd ps @ (if surplus then [ofZ Z0] else []) in
       let raw = vec_overload (fun s e -> conv s e rm) starts ends in
       let show_list l = string_of_int (OLst.length l) ^ OStr.concat "" (OLst.map (fun v -> " [" ^ show_pair v ^ "]") l) in
       let show_plain l = string_of_int (OLst.length l) ^ OStr.concat "" (OLst.map (fun (a, b) -> " [" ^ string_of_z a ^ " " ^ string_of_z b ^ "]") l) in
       let all_or_err l = keep_valid true l in
       let model = (match cmd, strict with
           | "svec2", _ -> show_res show_plain (bind raw all_or_err)
           | "rvecb", Some st -> show_res show_plain (bind raw (keep_valid st))
           | _ -> show_res show_list raw) in
       let specs = OLst.map (fun (s, e) -> snd (pair ctx (domf s e) s e incl)) ps in
       let spec =
         if surplus then "ERR"
         else if OLst.exists (fun sp -> sp = Any) specs then "ANY"
         else if OLst.exists (fun sp -> sp = Undetermined) specs then "UNDETERMINED"
         else begin
           let vs = OLst.map (fun sp -> match sp with Is v -> v | _ -> None) specs in
           match cmd, strict with
           | "svec2", _ | "rvecb", Some true ->
             if OLst.exists (fun v -> v = None) vs then "ERR"
             else "OK " ^ show_plain (OLst.concat_map (fun v -> match v with Some p -> [p] | None -> []) vs)
           | "rvecb", Some false -> "OK " ^ show_plain (OLst.concat_map (fun v -> match v with Some p -> [p] | None -> []) vs)
           | _ -> "OK " ^ show_list vs
         end in
       model ^ " ## " ^ spec
     | _ -> failwith "bad vector route")
  | ("r1" | "r2" | "pinr" as cmd) :: k :: rest ->
    let k = oint_of_string k in
    let ticks = OLst.map dec_dbl (take k rest) in
    let (x, n, f) = range_ctx ticks in
    (match cmd, drop k rest with
     | "r1", [p; le] ->
       let p = dec_dbl p and le = (le = "1") in
       let m = if le then PositionMatch_LessOrEqual else PositionMatch_GreaterOrEqual in
       let spec = if fis_finite p && k > 0 then (match spec_scalar x n m p (f p) with
           | Is (Some i) -> "OK " ^ string_of_z i | Is None -> "ERR" | Any -> "ANY" | Undetermined -> "UNDETERMINED") else "ANY" in
       show_res string_of_z (range_index_le p ticks le) ^ " ## " ^ spec
     | "r2", [s; e] ->
       let s = dec_dbl s and e = dec_dbl e in
       let (_, spec) = pair (x, n, f) (fis_finite s && fis_finite e && k > 0) s e true in
       let sp = (match spec with Is (Some (a, b)) -> "OK " ^ string_of_z a ^ " " ^ string_of_z b | Is None -> "ERR" | Any -> "ANY" | Undetermined -> "UNDETERMINED") in
       show_res (fun (a, b) -> string_of_z a ^ " " ^ string_of_z b) (range_pair2 range_pair2_checks_order_now s e ticks) ^ " ## " ^ sp
     | "pinr", [p] ->
       let p = dec_dbl p in
       let r = (match int_of_z (position_in_range p ticks) with 0 -> "norange" | 1 -> "less" | 2 -> "inrange" | _ -> "greater") in
       "OK " ^ r ^ " ## " ^ (if fis_nan p then "ANY" else "OK " ^ r)
     | _ -> failwith "bad range route")
  (* ---- caller-supplied-axis cores = the generated pair conversions themselves *)
  | ["core"; "s"; dt; off; s; e; m] ->
    let dt = dec_dbl dt and o = off_of off and s = dec_dbl s and e = dec_dbl e in
    let (_, spec) = pair (sampled_ctx dt o) (sampled_dom dt o s && fis_finite e) s e (mode_incl m) in
    show_res show_pair (sampled_pair s e dt o (if mode_incl m then RangeMatch_Inclusive else RangeMatch_Exclusive)) ^ " ## " ^ show_spec show_pair spec
  | ["core"; "set"; n; own; s; e; m] ->
    let n = oint_of_string n and own = oint_of_string own and s = dec_dbl s and e = dec_dbl e in
    let mine = OLst.init n (fun _ -> cstr "m") and ownl = OLst.init own (fun _ -> cstr "l") in
    let eff = if n = 0 then own else n in
    let (_, spec) = pair (set_ctx eff) (int_dom s && int_dom e) s e (mode_incl m) in
    let tail = " | labels " ^ string_of_int eff in
    show_res (fun v -> show_pair v ^ tail) (set_pair s e mine (if mode_incl m then RangeMatch_Inclusive else RangeMatch_Exclusive) ownl)
    ^ " ## " ^ (match spec with Is v -> "OK " ^ show_pair v ^ tail | sp -> show_spec show_pair sp)
  | ["core"; "df"; n; _own; s; e; m] ->
    let n = oint_of_string n and s = dec_dbl s and e = dec_dbl e in
    let (_, spec) = pair (df_ctx n) (int_dom s && int_dom e) s e (mode_incl m) in
    show_res show_pair (df_pair s e (z_of_int n) (if mode_incl m then RangeMatch_Inclusive else RangeMatch_Exclusive)) ^ " ## " ^ show_spec show_pair spec
  | "core" :: "r" :: k :: rest ->
    let k = oint_of_string k in
    let ticks = OLst.map dec_dbl (take k rest) in
    let own = [ofZ (z_of_int 1000); ofZ (z_of_int 2000)] in
    (match drop k rest with
     | [s; e; m] ->
       let s = dec_dbl s and e = dec_dbl e in
       let eff = if k = 0 then own else ticks in
       let (_, spec) = pair (range_ctx eff) (fis_finite s && fis_finite e) s e (mode_incl m) in
       show_res show_pair (range_pair s e ticks (if mode_incl m then RangeMatch_Inclusive else RangeMatch_Exclusive) own) ^ " ## " ^ show_spec show_pair spec
     | _ -> failwith "bad core r")
  | ["opidx"; "s"; dt; off; i] -> let r = "OK " ^ enc_dbl (x_sampled (dec_dbl dt) (off_of off) (z_of_string i)) in r ^ " ## " ^ r
  | "opidx" :: "r" :: k :: rest ->
    let k = oint_of_string k in
    let ticks = OLst.map dec_dbl (take k rest) in
    (match drop k rest with
     | [i] -> let i = oint_of_string i in
       let r = if i >= 0 && i < k then "OK " ^ enc_dbl (OLst.nth ticks i) else "ERR" in
       (if r = "ERR" then "ERR nix::OutOfBounds" else r) ^ " ## " ^ r
     | _ -> failwith "bad opidx")
  (* ---- remaining util::positionToIndex overloads *)
  | ["uset"; k; p; r] -> let p = dec_dbl p in scalar (set_ctx (oint_of_string k)) (int_dom p) p (rule_of r)
  | ["udf"; k; p; r] -> let p = dec_dbl p in scalar (df_ctx (oint_of_string k)) (int_dom p) p (rule_of r)
  | ("usetvec" | "udfvec" as cmd) :: rest -> handle ((if cmd = "usetvec" then "setvec" else "dfvec") :: rest)
  | "udep" :: kind :: rest ->
    (* deprecated scalar overloads: GreaterOrEqual, none -> OutOfBounds; sampled / range scale by the unit, set ignores it *)
    let bare sp = (match sp with Is (Some i) -> "OK " ^ string_of_z i | Is None -> "ERR" | Any -> "ANY" | Undetermined -> "UNDETERMINED") in
    (match kind, rest with
     | "set", [k; p; _u] ->
       let p = dec_dbl p in
       let (x, n, f) = set_ctx (oint_of_string k) in
       show_res string_of_z (or_oob (f p PositionMatch_GreaterOrEqual)) ^ " ## " ^ (if int_dom p then bare (spec_scalar x n PositionMatch_GreaterOrEqual p (f p)) else "ANY")
     | ("s" | "r"), _ ->
       let full = handle ("upos" :: kind :: (rest @ ["GE"])) in
       (* reuse the upos answer: OK i | OK none | ERR ..  ->  bare index or OutOfBounds *)
       (match OStr.index_opt full '#' with
        | None -> full
        | Some _ ->
          let cut = (let rec find i = if OStr.sub full i 4 = " ## " then i else find (i + 1) in find 0) in
          let md = OStr.sub full 0 cut and sp = OStr.sub full (cut + 4) (OStr.length full - cut - 4) in
          let conv x = if x = "OK none" then "ERR nix::OutOfBounds" else x in
          conv md ^ " ## " ^ (if sp = "OK none" then "ERR" else sp))
     | _ -> failwith "bad udep")
  | "udepvec" :: kind :: rest ->
    (match kind, rest with
     | "set", k :: cnt :: triples ->
       let rec tr l = match l with s :: e :: _u :: t -> s :: e :: tr t | _ -> [] in
       let full = handle ("svec2set" :: k :: cnt :: tr triples) in full
     | ("s" | "r"), _ ->
       (* = uvec with Inclusive mode, then every range must be valid *)
       let n_dim = (match kind, rest with
           | "s", _ -> 3                                   (* dt off dimunit *)
           | _, k :: _ -> 2 + oint_of_string k               (* k ticks.. dimunit *)
           | _ -> failwith "bad udepvec") in
       let dimpart = take n_dim rest and tail = drop n_dim rest in
       let full = handle ("uvec" :: kind :: (dimpart @ ("incl" :: tail))) in
       let cut = (let rec find i = if OStr.sub full i 4 = " ## " then i else find (i + 1) in find 0) in
       let md = OStr.sub full 0 cut and sp = OStr.sub full (cut + 4) (OStr.length full - cut - 4) in
       let has_none x = (let rec go i = i + 6 <= OStr.length x && (OStr.sub x i 6 = "[none]" || go (i + 1)) in go 0) in
       let unbr x = OStr.concat "" (OStr.split_on_char '~' x) in
       ignore unbr;
       let conv x = if OStr.length x >= 2 && OStr.sub x 0 2 = "OK" && has_none x then "ERR nix::OutOfBounds" else x in
       conv md ^ " ## " ^ (if OStr.length sp >= 2 && OStr.sub sp 0 2 = "OK" && has_none sp then "ERR" else sp)
     | _ -> failwith "bad udepvec")
  | "svec2set" :: k :: cnt :: vals ->
    (* deprecated set vector overload: Inclusive, throws on the first invalid range *)
    let full = handle ("setvec" :: k :: "incl" :: cnt :: vals) in
    let cut = (let rec find i = if OStr.sub full i 4 = " ## " then i else find (i + 1) in find 0) in
    let md = OStr.sub full 0 cut and sp = OStr.sub full (cut + 4) (OStr.length full - cut - 4) in
    let has_none x = (let rec go i = i + 6 <= OStr.length x && (OStr.sub x i 6 = "[none]" || go (i + 1)) in go 0) in
    (if OStr.length md >= 2 && OStr.sub md 0 2 = "OK" && has_none md then "ERR nix::OutOfBounds" else md)
    ^ " ## " ^ (if OStr.length sp >= 2 && OStr.sub sp 0 2 = "OK" && has_none sp then "ERR" else sp)
  | ["saxis"; dt; off; count; start] ->
    let dt = dec_dbl dt and o = off_of off in
    let n = oint_of_string count and st = z_of_string start in
    let xs = OLst.init n (fun i -> x_sampled dt o (zadd st i)) in
    let r = "OK " ^ count ^ OStr.concat "" (OLst.map (fun x -> " " ^ enc_dbl x) xs) in
    r ^ " ## " ^ r
  | ("raxis" | "tickat" as cmd) :: k :: rest ->
    let k = oint_of_string k in
    let ticks = OLst.map dec_dbl (take k rest) in
    (match cmd, drop k rest with
     | "tickat", [i] ->
       let i = oint_of_string i in
       let r = if i >= 0 && i < k then "OK " ^ enc_dbl (OLst.nth ticks i) else "ERR" in
       (if r = "ERR" then "ERR nix::OutOfBounds" else r) ^ " ## " ^ r
     | "raxis", [count; start] ->
       let n = oint_of_string count and st = oint_of_string start in
       let r = if n >= 0 && st >= 0 && st <= k && n <= k && st + n <= k
         then "OK " ^ count ^ OStr.concat "" (OLst.map (fun x -> " " ^ enc_dbl x) (take n (drop st ticks))) else "ERR" in
       (if r = "ERR" then "ERR nix::OutOfBounds" else r) ^ " ## " ^ r
     | _ -> failwith "bad raxis/tickat")
  | "stale" :: k :: rest ->
    let k = oint_of_string k in
    (match drop k rest with
     | k2 :: rest2 ->
       let k2 = oint_of_string k2 in
       let ticks = OLst.map dec_dbl (take k2 rest2) in
       (match drop k2 rest2 with
        | [p; r] ->
          let p = dec_dbl p and m = rule_of r in
          let (x, n, f) = range_ctx ticks in
          let twice g = function Ok o -> "OK " ^ g o ^ " | " ^ g o | Err e -> "ERR " ^ ostr e | UB w -> "UB " ^ ostr w in
          let spec = if fis_finite p && k2 > 0 then spec_scalar x n m p (f p) else Any in
          twice show_opt (f p m) ^ " ## " ^ (match spec with Is v -> "OK " ^ show_opt v ^ " | " ^ show_opt v | s -> show_spec show_opt s)
        | _ -> failwith "bad stale")
     | _ -> failwith "bad stale")
  | _ -> failwith "bad command"
let () = run_file OSys.argv.(1) handle
