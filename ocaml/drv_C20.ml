(* C20 model driver: replays a case script (same language as harness/drv_C20.cpp) on the model's file and
   answers every query twice: from the work-list model (before ##) and from the brute-force / level-order
   specification (after ##).  Entities are named by creation ordinal; model ids are uuid-shaped strings built
   from the ordinal.  "OK set k ..." in the specification half = compared as a set (sorted ordinals). *)
exception Dead

let st = ref empty_file
let nsec = ref 0 and nsrc = ref 0 and nblk = ref 0 and narr = ref 0 and ntag = ref 0 and nmtag = ref 0 and nprop = ref 0

let mkid prefix k = cstr (OPrintf.sprintf "%s-0000-4000-8000-%012d" prefix k)
let sec_id = mkid "5ec00000" and src_id = mkid "50c00000" and blk_id = mkid "b10c0000" and arr_id = mkid "a00a0000"
and tag_id = mkid "7a900000" and mtag_id = mkid "377a0000" and prop_id = mkid "99090000"
let ord_of (s : string) : int = let o = ostr s in oint_of_string (OStr.sub o 24 12)
let num (t : ostring) : int = oint_of_string t
let tail (t : ostring) : int = oint_of_string (OStr.sub t 1 (OStr.length t - 1))

let live_sec k = if k < 0 || k >= !nsec then raise Dead else
    match locate_section !st (sec_id k) with Some (t, anc) -> (t, anc) | None -> raise Dead
let live_src k = if k < 0 || k >= !nsrc then raise Dead else
    match locate_source !st (src_id k) with Some (t, b) -> (t, b) | None -> raise Dead
let live_blk k = if k < 0 || k >= !nblk then raise Dead else
    match block_by_id !st (blk_id k) with Some b -> b | None -> raise Dead

let parse_ref (t : ostring) : string = match t.[0] with
  | 'S' -> sec_id (tail t) | 'R' -> src_id (tail t)
  | 'X' -> cstr "ffffffff-ffff-4fff-8fff-ffffffffffff"
  | _ -> cstr "nosuchid"
let parse_filter toks = match toks with
  | ["all"] -> FAll
  | ["id"; r] -> FId (parse_ref r)
  | ["name"; s] -> FName (cstr (dec_str s))
  | ["type"; s] -> FType (cstr (dec_str s))
  | "ids" :: _ :: refs -> FIds (OLst.map parse_ref refs)
  | ["typei"; s] -> FTypeLoose (cstr (dec_str s))
  | ["typere"; s] -> FType (cstr (dec_str s))       (* TypeFilter(boost::regex(str)): regex_match, as the exact string form *)
  | ["meta"; r] -> FMeta (parse_ref r)
  | ["hassrc"; r] -> FHasSrc (parse_ref r)
  | ["default"] | ["nofilter"] -> FAll
  | _ -> failwith "bad filter"
let parse_depth d = if d = "max" then size_max else z_of_string d

(* entity reference of meta / addsrc: B<i> A<i> T<i> M<i> R<i> *)
let ent_id (t : ostring) : string =
  let k = tail t in
  match t.[0] with
  | 'B' -> ignore (live_blk k); blk_id k
  | 'A' -> if k < 0 || k >= !narr || entity_by_id !st (arr_id k) = None then raise Dead else arr_id k
  | 'T' -> if k < 0 || k >= !ntag || entity_by_id !st (tag_id k) = None then raise Dead else tag_id k
  | 'M' -> if k < 0 || k >= !nmtag || entity_by_id !st (mtag_id k) = None then raise Dead else mtag_id k
  | 'R' -> ignore (live_src k); src_id k
  | _ -> failwith "bad entity"

(* id of any entity kind by ordinal, whether or not it (still) exists: an unknown one matches nothing *)
let ent_ref (t : ostring) : string = match t.[0] with
  | 'A' -> arr_id (tail t) | 'T' -> tag_id (tail t) | 'M' -> mtag_id (tail t) | 'B' -> blk_id (tail t) | 'P' -> prop_id (tail t)
  | _ -> parse_ref t
let parse_efilter toks = match toks with
  | ["all"] -> EAll
  | ["id"; r] -> EId (ent_ref r)
  | ["meta"; r] -> EMeta (parse_ref r)
  | ["srcf"; r] -> ESrc (parse_ref r)
  | _ -> failwith "bad entity filter"

let show_ords (l : int olist) = OStr.concat " " (ostring_of_int (OLst.length l) :: OLst.map ostring_of_int l)
let ordered l = "OK " ^ show_ords l
let as_set l = "OK set " ^ show_ords (OLst.sort compare l)
let tids (l : tree olist) = OLst.map (fun t -> ord_of (tid t)) l
let eids (l : ent olist) = OLst.map (fun e -> ord_of e.e_id) l
let answer (r : 'a res) (f : 'a -> int olist) (spec : ostring) =
  (match r with Ok v -> ordered (f v) | Err e -> "ERR " ^ ostr e | UB w -> "UB " ^ ostr w) ^ " ## " ^ spec

let dup_name (ks : tree olist) (name : string) = OLst.exists (fun k -> ostr (label k).n_name = ostr name) ks

let handle toks =
  (* the handle route of a query (@c @e @f @p) and the open mode do not exist in the model: the answers are the same *)
  let toks = match toks with r :: rest when OStr.length r = 2 && r.[0] = '@' -> rest | _ -> toks in
  try match toks with
  | ["reopen"; _] -> "OK -"
  | ["peek"; e] ->
    (match e.[0] with
     | 'S' -> ignore (live_sec (tail e)) | 'R' -> ignore (live_src (tail e)) | 'B' -> ignore (live_blk (tail e))
     | _ -> failwith "bad peek");
    "OK -"
  | ["new"] ->
    st := empty_file; nsec := 0; nsrc := 0; nblk := 0; narr := 0; ntag := 0; nmtag := 0; nprop := 0; "OK -"
  | ["block"] ->
    let k = !nblk in incr nblk; st := add_block !st (blk_id k); "OK B" ^ ostring_of_int k
  | ["sec"; p; name; ty] ->
    let k = !nsec in incr nsec;
    let name = cstr (dec_str name) and ty = cstr (dec_str ty) in
    let p = num p in
    let sibs = if p < 0 then (!st).f_sections else kids (fst (live_sec p)) in
    if dup_name sibs name then "ERR nix::DuplicateName" else begin
      st := add_section !st (if p < 0 then None else Some (sec_id p)) (new_node (sec_id k) name ty);
      "OK S" ^ ostring_of_int k end
  | ["prop"; s; name] ->
    let k = !nprop in incr nprop;
    let (t, _) = live_sec (num s) in
    let name = cstr (dec_str name) in
    if OLst.exists (fun (_, n) -> ostr n = ostr name) (label t).n_props then "ERR nix::DuplicateName" else begin
      st := add_prop !st (sec_id (num s)) (prop_id k, name); "OK P" ^ ostring_of_int k end
  | ["link"; s; tgt] ->
    ignore (live_sec (num s)); ignore (live_sec (num tgt));
    st := set_link !st (sec_id (num s)) (sec_id (num tgt)); "OK -"
  | ["src"; b; p; name; ty] ->
    let k = !nsrc in incr nsrc;
    let blk = live_blk (num b) in
    let name = cstr (dec_str name) and ty = cstr (dec_str ty) in
    let p = num p in
    let sibs = if p < 0 then blk.b_sources else begin
        let (t, pb) = live_src p in
        if ostr pb.b_id <> ostr blk.b_id then raise Dead; kids t end in
    if dup_name sibs name then "ERR nix::DuplicateName" else begin
      st := add_source !st (blk_id (num b)) (if p < 0 then None else Some (src_id p)) (new_node (src_id k) name ty);
      "OK R" ^ ostring_of_int k end
  | ["array"; b] ->
    let k = !narr in incr narr; ignore (live_blk (num b)); st := add_array !st (blk_id (num b)) (arr_id k); "OK A" ^ ostring_of_int k
  | ["tag"; b] ->
    let k = !ntag in incr ntag; ignore (live_blk (num b)); st := add_tag !st (blk_id (num b)) (tag_id k); "OK T" ^ ostring_of_int k
  | ["mtag"; b] ->
    let k = !nmtag in incr nmtag; ignore (live_blk (num b)); st := add_mtag !st (blk_id (num b)) (mtag_id k); "OK M" ^ ostring_of_int k
  | ["meta"; e; s] ->
    let id = ent_id e in ignore (live_sec (num s)); st := set_meta !st id (sec_id (num s)); "OK -"
  | ["addsrc"; e; s] ->
    let id = ent_id e in ignore (live_src (num s));
    (match add_src !st id (src_id (num s)) with
     | Ok f -> st := f; "OK -"
     | Err c -> "ERR " ^ ostr c
     | UB w -> "UB " ^ ostr w)
  | ["delsec"; s] -> ignore (live_sec (num s)); st := delete_section !st (sec_id (num s)); "OK -"
  | ["delsrc"; s] -> ignore (live_src (num s)); st := delete_source !st (src_id (num s)); "OK -"
  (* ---- queries ---- *)
  | "enum" :: start :: flt ->
    let k = parse_filter flt in let f = apply_filter (!st).f_sections k and g = spec_filter k in
    if start = "file" then answer (Ok (file_sections f (!st).f_sections)) tids (as_set (tids (filter g (!st).f_sections)))
    else if start.[0] = 'S' then let (t, _) = live_sec (tail start) in
      answer (Ok (section_sections f t)) tids (as_set (tids (filter g (kids t))))
    else if start.[0] = 'B' then let b = live_blk (tail start) in
      answer (Ok (block_sources f b)) tids (as_set (tids (filter g b.b_sources)))
    else let (t, _) = live_src (tail start) in
      answer (Ok (source_sources f t)) tids (as_set (tids (filter g (kids t))))
  | ("enuma" | "enumt" | "enumm" as w) :: b :: flt ->
    let blk = live_blk (tail b) in
    let k = parse_efilter flt in
    let f = apply_efilter (!st).f_sections k and g = spec_efilter k in
    (match w with
     | "enuma" -> answer (Ok (block_dataArrays f blk)) eids (as_set (eids (filter g blk.b_arrays)))
     | "enumt" -> answer (Ok (block_tags f blk)) eids (as_set (eids (filter g blk.b_tags)))
     | _ -> answer (Ok (block_multiTags f blk)) eids (as_set (eids (filter g blk.b_mtags))))
  | "enumb" :: flt ->
    let k = parse_efilter flt in
    let bords l = OLst.map (fun b -> ord_of b.b_id) l in
    answer (Ok (file_blocks (apply_bfilter (!st).f_sections k) !st)) bords (as_set (bords (filter (spec_bfilter k) (!st).f_blocks)))
  | "enump" :: s :: flt ->
    let (t, _) = live_sec (num s) in
    let pords l = OLst.map (fun (i, _) -> ord_of i) l in
    let f = (match flt with
        | ["all"] -> (fun _ -> true)
        | ["id"; r] -> propIdFilter (ent_ref r)
        | ["name"; n] -> propNameFilter (cstr (dec_str n))
        | _ -> failwith "bad property filter") in
    answer (Ok (section_properties f t)) pords (as_set (pords (filter f (label t).n_props)))
  | [("refarrays_in" | "reftags_in" | "refmtags_in" | "refsources_in" as w); s; b] ->
    ignore (live_sec (num s));
    let ob = if b = "none" then None else Some (live_blk (tail b)) in
    let id = sec_id (num s) in
    (match w with
     | "refarrays_in" -> answer (Ok (section_referringDataArrays_in !st id ob)) eids (as_set (eids (spec_ref_ents_block (fun b -> b.b_arrays) id ob)))
     | "reftags_in" -> answer (Ok (section_referringTags_in !st id ob)) eids (as_set (eids (spec_ref_ents_block (fun b -> b.b_tags) id ob)))
     | "refmtags_in" -> answer (Ok (section_referringMultiTags_in !st id ob)) eids (as_set (eids (spec_ref_ents_block (fun b -> b.b_mtags) id ob)))
     | _ -> answer (section_referringSources_opt !st id ob) tids (as_set (tids (spec_ref_sources_block id ob))))
  | "findsec" :: start :: d :: flt ->
    let k = parse_filter flt in let f = apply_filter (!st).f_sections k and g = spec_filter k in
    let roots = (!st).f_sections in
    if start = "file" then
      let spec = if d = "max" then flat_map (fun r -> spec_source_all g r) roots else spec_file_find g (parse_depth d) roots in
      answer (file_findSections f (parse_depth d) roots) tids (as_set (tids spec))
    else
      let (t, _) = live_sec (tail start) in
      answer (section_findSections f (parse_depth d) t) tids (ordered (tids (spec_section_find g (parse_depth d) t)))
  | "findsrc" :: start :: d :: flt ->
    let k = parse_filter flt in let f = apply_filter (!st).f_sections k and g = spec_filter k in
    if start.[0] = 'B' then
      let b = live_blk (tail start) in
      let spec = if d = "max" then flat_map (fun r -> spec_source_all g r) b.b_sources else spec_block_find g (parse_depth d) b.b_sources in
      answer (block_findSources f (parse_depth d) b.b_sources) tids (as_set (tids spec))
    else
      let (t, _) = live_src (tail start) in
      answer (source_findSources f (parse_depth d) t) tids (ordered (tids (spec_source_find g (parse_depth d) t)))
  | "related" :: s :: flt ->
    let f = apply_filter (!st).f_sections (parse_filter flt) in
    let (t, anc) = live_sec (num s) in
    answer (section_findRelated f anc t) tids (as_set (tids (related_spec f anc t)))
  | ["inherited"; s] ->
    let (t, _) = live_sec (num s) in
    let pords l = OLst.map (fun (i, _) -> ord_of i) l in
    answer (section_inheritedProperties (!st).f_sections t) pords (as_set (pords (spec_inherited (!st).f_sections t)))
  | ["refarrays"; s] -> ignore (live_sec (num s));
    answer (Ok (section_referringDataArrays !st (sec_id (num s)))) eids (as_set (eids (spec_ref_ents (fun b -> b.b_arrays) !st (sec_id (num s)))))
  | ["reftags"; s] -> ignore (live_sec (num s));
    answer (Ok (section_referringTags !st (sec_id (num s)))) eids (as_set (eids (spec_ref_ents (fun b -> b.b_tags) !st (sec_id (num s)))))
  | ["refmtags"; s] -> ignore (live_sec (num s));
    answer (Ok (section_referringMultiTags !st (sec_id (num s)))) eids (as_set (eids (spec_ref_ents (fun b -> b.b_mtags) !st (sec_id (num s)))))
  | ["refblocks"; s] -> ignore (live_sec (num s));
    let bords l = OLst.map (fun b -> ord_of b.b_id) l in
    answer (Ok (section_referringBlocks !st (sec_id (num s)))) bords (as_set (bords (spec_ref_blocks !st (sec_id (num s)))))
  | ["refsources"; s] -> ignore (live_sec (num s));
    answer (section_referringSources !st (sec_id (num s))) tids (as_set (tids (spec_ref_sources !st (sec_id (num s)))))
  | ["srcarrays"; s] -> let (_, b) = live_src (num s) in
    answer (Ok (source_referringDataArrays b (src_id (num s)))) eids (as_set (eids (spec_src_ents (fun b -> b.b_arrays) b (src_id (num s)))))
  | ["srctags"; s] -> let (_, b) = live_src (num s) in
    answer (Ok (source_referringTags b (src_id (num s)))) eids (as_set (eids (spec_src_ents (fun b -> b.b_tags) b (src_id (num s)))))
  | ["srcmtags"; s] -> let (_, b) = live_src (num s) in
    answer (Ok (source_referringMultiTags b (src_id (num s)))) eids (as_set (eids (spec_src_ents (fun b -> b.b_mtags) b (src_id (num s)))))
  | ["parent"; s] -> let (_, b) = live_src (num s) in
    let opt o = match o with Some t -> [ord_of (tid t)] | None -> [] in
    answer (source_parentSource b (src_id (num s))) opt (ordered (opt (spec_parent b.b_sources (src_id (num s)))))
  | _ -> failwith "bad command"
  with Dead -> "ERR std::runtime_error"

let () = run_file OSys.argv.(1) handle
