(** C18 — the backtracking matcher [ms] of UnitsModel.v against the declarative meaning of a
    regular expression ([matches]): [ms] enumerates exactly the matches, so [regex_match] decides
    the language and [regex_search] succeeds wherever some match exists.  Generic in the
    expression; nothing here depends on the generated tables. *)
From Coq Require Import ZArith Bool String Ascii List Lia.
Require Import NixV.Base.Prelude NixV.Units.UnitsModel.
Import ListNotations.
Local Open Scope string_scope.

(** the language of an expression *)
Inductive matches : re -> string -> Prop :=
| MEps : matches REps ""
| MChr c : matches (RChr c) (String c "")
| MSet (f : ascii -> bool) c : f c = true -> matches (RSet f) (String c "")
| MSeq a b x y : matches a x -> matches b y -> matches (RSeq a b) (x ++ y)
| MAltL a b x : matches a x -> matches (RAlt a b) x
| MAltR a b x : matches b x -> matches (RAlt a b) x
| MOptN a : matches (ROpt a) ""
| MOptS a x : matches a x -> matches (ROpt a) x
| MStar0 a : matches (RStar a) ""
| MStarS a x y : matches a x -> matches (RStar a) y -> matches (RStar a) (x ++ y)
| MPlus a x y : matches a x -> matches (RStar a) y -> matches (RPlus a) (x ++ y).

Lemma app_assoc_s : forall a b c : string, (a ++ b) ++ c = a ++ (b ++ c).
Proof. induction a as [|ch a IH]; intros b c; cbn; [reflexivity | now rewrite IH]. Qed.

Lemma app_nil_r_s : forall a : string, a ++ "" = a.
Proof. induction a as [|ch a IH]; cbn; [reflexivity | now rewrite IH]. Qed.

Lemma length_app_s : forall a b : string, String.length (a ++ b) = (String.length a + String.length b)%nat.
Proof. induction a as [|ch a IH]; intros b; cbn; [reflexivity | now rewrite IH]. Qed.

Lemma app_inv_head_s : forall a b c : string, a ++ b = a ++ c -> b = c.
Proof. induction a as [|ch a IH]; intros b c H; cbn in H; [exact H | injection H as H; now apply IH]. Qed.

Lemma app_same_length_nil : forall x r : string, String.length (x ++ r) = String.length r -> x = "".
Proof. intros x r H. rewrite length_app_s in H. destruct x; [reflexivity | cbn in H; lia]. Qed.

(** ** star_aux *)
Lemma star_aux_sound (a : re) (step : string -> list string)
  (Hstep : forall s rest, In rest (step s) -> exists x, s = x ++ rest /\ matches a x) :
  forall fuel s rest, In rest (star_aux step fuel s) -> exists x, s = x ++ rest /\ matches (RStar a) x.
Proof.
  induction fuel as [|f IH]; intros s rest Hin; cbn [star_aux] in Hin.
  - destruct Hin as [<-|[]]. exists "". split; [reflexivity | constructor].
  - apply in_app_or in Hin. destruct Hin as [Hin|[<-|[]]].
    + apply in_flat_map in Hin. destruct Hin as [r [Hr Hin]].
      destruct (String.length r <? String.length s)%nat; [|destruct Hin].
      destruct (Hstep _ _ Hr) as [x1 [-> Hx1]].
      destruct (IH _ _ Hin) as [x2 [-> Hx2]].
      exists (x1 ++ x2). split; [now rewrite app_assoc_s | now constructor].
    + exists "". split; [reflexivity | constructor].
Qed.

Lemma star_aux_complete (a : re) (step : string -> list string)
  (Hstep : forall s rest x, matches a x -> s = x ++ rest -> In rest (step s)) :
  forall r x, matches r x -> r = RStar a ->
  forall s rest fuel, s = x ++ rest -> (String.length s <= fuel)%nat -> In rest (star_aux step fuel s).
Proof.
  intros r x H. induction H; intros Hr; try discriminate Hr; injection Hr as ->.
  - (* empty iteration *)
    intros s rest fuel -> _. cbn. destruct fuel; cbn [star_aux]; [now left | apply in_or_app; right; now left].
  - intros s rest fuel -> Hlen.
    destruct x as [|c x].
    + cbn. apply IHmatches2; [reflexivity | reflexivity | exact Hlen].
    + destruct fuel as [|f]; [cbn in Hlen; lia|].
      cbn [star_aux]. apply in_or_app. left. apply in_flat_map.
      exists (y ++ rest). split.
      * eapply Hstep; [exact H | now rewrite app_assoc_s].
      * assert (Hlt : (String.length (y ++ rest) <? String.length ((String c x ++ y) ++ rest))%nat = true).
        { apply Nat.ltb_lt. rewrite app_assoc_s. cbn. rewrite (length_app_s x). lia. }
        rewrite Hlt. apply IHmatches2; [reflexivity | reflexivity |].
        rewrite app_assoc_s in Hlen. cbn in Hlen. rewrite (length_app_s x) in Hlen. lia.
Qed.

(** ** [ms] enumerates exactly the matches at the head of the string *)
Theorem ms_spec : forall r s rest, In rest (ms r s) <-> exists x, s = x ++ rest /\ matches r x.
Proof.
  induction r as [| |c|f|a IHa b IHb|a IHa b IHb|a IHa|a IHa|a IHa]; intros s rest; cbn [ms].
  - split; [intros [] | intros [x [_ H]]; inversion H].
  - split.
    + intros [<-|[]]. exists "". split; [reflexivity | constructor].
    + intros [x [-> H]]. inversion H; subst. now left.
  - split.
    + destruct s as [|ch t]; [intros []|]. destruct (Ascii.eqb_spec ch c) as [->|Hne]; [|intros []].
      intros [<-|[]]. exists (String c ""). split; [reflexivity | constructor].
    + intros [x [-> H]]. inversion H; subst. cbn. rewrite Ascii.eqb_refl. now left.
  - split.
    + destruct s as [|ch t]; [intros []|]. destruct (f ch) eqn:Hf; [|intros []].
      intros [<-|[]]. exists (String ch ""). split; [reflexivity | now constructor].
    + intros [x [-> H]]. inversion H; subst. cbn. rewrite H1. now left.
  - split.
    + intros Hin. apply in_flat_map in Hin. destruct Hin as [mid [Hmid Hin]].
      apply IHa in Hmid. destruct Hmid as [x1 [-> H1]].
      apply IHb in Hin. destruct Hin as [x2 [-> H2]].
      exists (x1 ++ x2). split; [now rewrite app_assoc_s | now constructor].
    + intros [x [-> H]]. inversion H; subst. apply in_flat_map. exists (y ++ rest). split.
      * apply IHa. exists x0. split; [now rewrite app_assoc_s | assumption].
      * apply IHb. exists y. split; [reflexivity | assumption].
  - split.
    + intros Hin. apply in_app_or in Hin. destruct Hin as [Hin|Hin].
      * apply IHa in Hin. destruct Hin as [x [-> H]]. exists x. split; [reflexivity | now apply MAltL].
      * apply IHb in Hin. destruct Hin as [x [-> H]]. exists x. split; [reflexivity | now apply MAltR].
    + intros [x [-> H]]. apply in_or_app. inversion H; subst.
      * left. apply IHa. now exists x.
      * right. apply IHb. now exists x.
  - split.
    + intros Hin. apply in_app_or in Hin. destruct Hin as [Hin|[<-|[]]].
      * apply IHa in Hin. destruct Hin as [x [-> H]]. exists x. split; [reflexivity | now apply MOptS].
      * exists "". split; [reflexivity | constructor].
    + intros [x [-> H]]. apply in_or_app. inversion H; subst.
      * right. now left.
      * left. apply IHa. now exists x.
  - split.
    + intros Hin. eapply star_aux_sound; [|exact Hin]. intros s0 r0 H0. now apply IHa.
    + intros [x [-> H]]. eapply star_aux_complete; [| exact H | reflexivity | reflexivity | lia].
      intros s0 r0 x0 Hx0 ->. apply IHa. now exists x0.
  - split.
    + intros Hin. apply in_flat_map in Hin. destruct Hin as [mid [Hmid Hin]].
      apply IHa in Hmid. destruct Hmid as [x1 [-> H1]].
      eapply star_aux_sound in Hin; [|intros s0 r0 H0; now apply IHa].
      destruct Hin as [x2 [-> H2]]. exists (x1 ++ x2). split; [now rewrite app_assoc_s | now constructor].
    + intros [x [-> H]]. inversion H; subst. apply in_flat_map. exists (y ++ rest). split.
      * apply IHa. exists x0. split; [now rewrite app_assoc_s | assumption].
      * eapply star_aux_complete; [| eassumption | reflexivity | reflexivity | lia].
        intros s0 r0 x1 Hx1 ->. apply IHa. now exists x1.
Qed.

Lemma is_empty_true : forall s, is_empty s = true <-> s = "".
Proof. destruct s; cbn; split; congruence. Qed.

(** [regex_match] decides the language *)
Theorem regex_match_spec : forall r s, regex_match r s = true <-> matches r s.
Proof.
  intros r s. unfold regex_match. rewrite existsb_exists. split.
  - intros [rest [Hin He]]. apply is_empty_true in He. subst rest.
    apply ms_spec in Hin. destruct Hin as [x [-> H]]. now rewrite app_nil_r_s.
  - intros H. exists "". split; [|reflexivity]. apply ms_spec. exists s. split; [now rewrite app_nil_r_s | assumption].
Qed.

(** [regex_search] returns a decomposition of the subject, and [m[0]] is a match *)
Lemma take_app_length : forall x rest, take (String.length (x ++ rest) - String.length rest) (x ++ rest) = x.
Proof.
  intros x rest. rewrite length_app_s. replace (String.length x + String.length rest - String.length rest)%nat with (String.length x) by lia.
  induction x as [|c x IH]; cbn; [destruct rest; reflexivity | now rewrite IH].
Qed.

Lemma ms_head_sound : forall r s rest, In rest (ms r s) ->
  s = take (String.length s - String.length rest) s ++ rest /\ matches r (take (String.length s - String.length rest) s).
Proof.
  intros r s rest Hin. apply ms_spec in Hin. destruct Hin as [x [-> Hm]]. rewrite take_app_length. now split.
Qed.

Theorem regex_search_sound : forall r s pre m suf,
  regex_search r s = Some (pre, m, suf) -> s = pre ++ m ++ suf /\ matches r m.
Proof.
  intros r. induction s as [|c t IH]; intros pre m suf H; cbn [regex_search] in H.
  - destruct (ms r "") as [|rest l] eqn:E; [discriminate|]. injection H as <- <- <-.
    apply (ms_head_sound r "" rest). rewrite E. now left.
  - destruct (ms r (String c t)) as [|rest l] eqn:E.
    + destruct (regex_search r t) as [[[p m'] suf']|] eqn:E2; [|discriminate]. injection H as <- <- <-.
      destruct (IH _ _ _ eq_refl) as [Ht Hm]. split; [cbn; now rewrite <- Ht | assumption].
    + injection H as <- <- <-.
      apply (ms_head_sound r (String c t) rest). rewrite E. now left.
Qed.

(** a match at the head makes the search succeed at position 0 with the FIRST match in backtracking order *)
Lemma regex_search_head : forall r s rest l,
  ms r s = rest :: l -> regex_search r s = Some ("", take (String.length s - String.length rest) s, rest).
Proof. intros r s rest l H. destruct s; cbn [regex_search]; now rewrite H. Qed.

(** the search fails only if there is no match anywhere *)
Theorem regex_search_complete : forall r s pre x suf, s = pre ++ x ++ suf -> matches r x -> regex_search r s <> None.
Proof.
  intros r s pre. revert s. induction pre as [|c pre IH]; intros s x suf -> Hm.
  - cbn [append]. destruct (ms r (x ++ suf)) as [|rest l] eqn:E.
    + assert (Hin : In suf (ms r (x ++ suf))) by (apply ms_spec; now exists x). rewrite E in Hin. destruct Hin.
    + erewrite regex_search_head by exact E. discriminate.
  - cbn [append regex_search]. destruct (ms r (String c (pre ++ x ++ suf))); [|discriminate].
    specialize (IH (pre ++ x ++ suf) x suf eq_refl Hm).
    destruct (regex_search r (pre ++ x ++ suf)) as [[[p m] sf]|]; [discriminate | contradiction].
Qed.

(** ** literals and alternations of literals *)
Lemma matches_lit : forall y x, matches (lit y) x <-> x = y.
Proof.
  induction y as [|c y IH]; intros x; cbn [lit].
  - split; [intros H; now inversion H | intros ->; constructor].
  - split.
    + intros H. inversion H; subst. inversion H2; subst. apply IH in H4. now subst.
    + intros ->. change (String c y) with (String c "" ++ y). constructor; [constructor | now apply IH].
Qed.

Lemma matches_alts : forall l x, matches (alts l) x <-> In x l.
Proof.
  induction l as [|y l IH]; intros x; cbn [alts].
  - split; [intros H; inversion H | intros []].
  - split.
    + intros H. inversion H; subst; [left; symmetry; now apply matches_lit | right; now apply IH].
    + intros [<-|Hin]; [apply MAltL; now apply matches_lit | apply MAltR; now apply IH].
Qed.

Lemma matches_star_set : forall f x, matches (RStar (RSet f)) x <-> (forall c, In c (list_ascii_of_string x) -> f c = true).
Proof.
  intros f x. split.
  - intros H. remember (RStar (RSet f)) as r eqn:Hr. induction H; try discriminate Hr; injection Hr as ->.
    + intros c [].
    + inversion H; subst. cbn. intros c' [<-|Hin]; [assumption | now apply IHmatches2].
  - induction x as [|c x IH]; intros H; [constructor|].
    change (String c x) with (String c "" ++ x). constructor.
    + constructor. apply H. now left.
    + apply IH. intros c' Hin. apply H. now right.
Qed.
