(** C18 — the further routes of util.hpp (UnitsRoutes.v) related to the functions the property is about:
    the vector overload of isScalable is the element-wise conjunction and symmetric, isSetAtSamePos is its
    specification, convertToSeconds / convertToKelvin scale an SI-prefixed second / kelvin by the SI
    exponent of the prefix, and splitCompoundUnit returns the atoms of a compound unit (an atom behind a
    slash with its power negated) - a finite sweep over the whole grammar of atoms. *)
From Coq Require Import ZArith Bool String Ascii List Lia.
Require Import NixV.Base.Prelude NixV.Base.F64 NixV.Gen.GenTables NixV.Units.UnitsModel NixV.Units.UnitsRegexProofs
  NixV.Units.UnitsProofs NixV.Units.UnitsRoutes.
Import ListNotations.
Local Open Scope string_scope.
Local Open Scope bool_scope.
Local Open Scope Z_scope.

(** * isScalable(vector, vector) *)
Lemma isScalableLoop_sym : forall a b v, isScalableLoop a b = Ok v -> isScalableLoop b a = Ok v.
Proof.
  induction a as [|x a IH]; intros b v H.
  - cbn in H. destruct b; exact H.
  - destruct b as [|y b]; [exact H|]. cbn [isScalableLoop] in *.
    destruct (isScalable x y) as [v0| |] eqn:E; cbn [bind] in H; try discriminate.
    rewrite (scalable_sym _ _ _ E). cbn [bind]. destruct v0; [now apply IH | exact H].
Qed.

(** SCALABILITY OF UNIT VECTORS IS SYMMETRIC *)
Theorem isScalableVec_sym : forall a b v, isScalableVec a b = Ok v -> isScalableVec b a = Ok v.
Proof.
  intros a b v H. unfold isScalableVec in *. rewrite Nat.eqb_sym.
  destruct (Nat.eqb (List.length a) (List.length b)); cbn [negb] in *; [now apply isScalableLoop_sym | exact H].
Qed.

(** ... and it holds exactly when the vectors have the same length and are scalable element by element *)
Theorem isScalableVec_true : forall a b,
  isScalableVec a b = Ok true <->
  List.length a = List.length b /\ Forall2 (fun x y => isScalable x y = Ok true) a b.
Proof.
  intros a b. unfold isScalableVec. split.
  - destruct (Nat.eqb_spec (List.length a) (List.length b)) as [Hl|Hl]; cbn [negb]; [|discriminate].
    intros H. split; [assumption|]. revert b Hl H.
    induction a as [|x a IH]; intros [|y b] Hl H; try discriminate Hl; [constructor|].
    cbn [isScalableLoop] in H. destruct (isScalable x y) as [[|]| |] eqn:E; cbn [bind] in H; try discriminate.
    constructor; [exact E | apply IH; [now injection Hl | exact H]].
  - intros [Hl HF]. rewrite Hl, Nat.eqb_refl. cbn [negb]. clear Hl.
    induction HF as [|x y a b E _ IH]; [reflexivity|]. cbn [isScalableLoop]. rewrite E. exact IH.
Qed.

(** * isSetAtSamePos *)
Lemma isSetLoop_spec : forall a b, List.length a = List.length b ->
  isSetLoop a b = forallb (fun xy => Bool.eqb (is_empty (fst xy)) (is_empty (snd xy))) (combine a b).
Proof.
  induction a as [|x a IH]; intros [|y b] Hl; try discriminate Hl; [reflexivity|].
  cbn [isSetLoop combine forallb fst snd]. destruct (Bool.eqb (is_empty x) (is_empty y)); [|reflexivity].
  cbn [andb]. apply IH. now injection Hl.
Qed.

Theorem isSetAtSamePos_spec : forall a b, isSetAtSamePos a b = spec_set_same a b.
Proof.
  intros a b. unfold isSetAtSamePos, spec_set_same.
  destruct (Nat.eqb_spec (List.length a) (List.length b)) as [Hl|Hl]; cbn [negb andb]; [now apply isSetLoop_spec | reflexivity].
Qed.

Theorem isSetAtSamePos_sym : forall a b, isSetAtSamePos a b = isSetAtSamePos b a.
Proof.
  intros a b. unfold isSetAtSamePos. rewrite Nat.eqb_sym.
  destruct (Nat.eqb (List.length b) (List.length a)); cbn [negb]; [|reflexivity].
  revert b. induction a as [|x a IH]; intros [|y b]; try reflexivity.
  cbn [isSetLoop]. replace (Bool.eqb (is_empty x) (is_empty y)) with (Bool.eqb (is_empty y) (is_empty x))
    by (destruct (is_empty x), (is_empty y); reflexivity).
  destruct (Bool.eqb (is_empty y) (is_empty x)); [apply IH | reflexivity].
Qed.

(** * convertToSeconds / convertToKelvin on SI-prefixed seconds and kelvins *)
Definition conv_prefix_b (base : string) (special : string -> bool) : bool :=
  forallb (fun pe =>
    let unit := fst pe ++ base in
    negb (special unit) &&
    match isScalable unit base, getSIScaling unit base with
    | Ok true, Ok k => k =? snd pe
    | _, _ => false
    end) SI_PREFIX_EXP.

Definition sec_special (u : string) : bool := String.eqb u "min" || String.eqb u "h" || is_sec_name u.
Definition kel_special (u : string) : bool := is_K u || is_C u || is_F u.

Lemma conv_prefix_s : conv_prefix_b "s" sec_special = true.
Proof. vm_compute. reflexivity. Qed.
Lemma conv_prefix_K : conv_prefix_b "K" kel_special = true.
Proof. vm_compute. reflexivity. Qed.

Lemma conv_prefix_use : forall base special p e, conv_prefix_b base special = true -> In (p, e) SI_PREFIX_EXP ->
  special (p ++ base) = false /\ forall A (v : A), scaled_or_same (p ++ base) base v = Ok (CScaled v e).
Proof.
  intros base special p e H Hin. unfold conv_prefix_b in H. rewrite forallb_forall in H. specialize (H _ Hin).
  cbn [fst snd] in H. apply andb_prop in H. destruct H as [Hs H]. apply negb_true_iff in Hs. split; [exact Hs|].
  intros A v. unfold scaled_or_same.
  destruct (isScalable (p ++ base) base) as [[|]| |]; try discriminate.
  destruct (getSIScaling (p ++ base) base) as [k| |]; try discriminate.
  apply Z.eqb_eq in H. subst k. reflexivity.
Qed.

(** a second / kelvin with SI prefix p is converted by the factor 10^(SI exponent of p), for T = double and T = int *)
Theorem convertToSeconds_prefixed : forall p e, In (p, e) SI_PREFIX_EXP ->
  (forall v, convertToSeconds_d (p ++ "s") v = Ok (CScaled v e)) /\
  (forall n, convertToSeconds_i (p ++ "s") n = Ok (CScaled n e)).
Proof.
  intros p e Hin. destruct (conv_prefix_use _ _ _ _ conv_prefix_s Hin) as [Hs Hv].
  unfold sec_special in Hs. apply orb_false_elim in Hs. destruct Hs as [Hs H3]. apply orb_false_elim in Hs. destruct Hs as [H1 H2].
  split; intros v; unfold convertToSeconds_d, convertToSeconds_i; rewrite H1, H2, H3; apply Hv.
Qed.

Theorem convertToKelvin_prefixed : forall p e, In (p, e) SI_PREFIX_EXP ->
  (forall v, convertToKelvin_d (p ++ "K") v = Ok (CScaled v e)) /\
  (forall n, convertToKelvin_i (p ++ "K") n = Ok (CScaled n e)).
Proof.
  intros p e Hin. destruct (conv_prefix_use _ _ _ _ conv_prefix_K Hin) as [Hs Hv].
  unfold kel_special in Hs. apply orb_false_elim in Hs. destruct Hs as [Hs H3]. apply orb_false_elim in Hs. destruct Hs as [H1 H2].
  split; intros v; unfold convertToKelvin_d, convertToKelvin_i; rewrite H1, H2, H3; apply Hv.
Qed.

(** the fixed names *)
Theorem convertToSeconds_named : forall v,
  convertToSeconds_d "min" v = Ok (CExact (fmul v f60)) /\ convertToSeconds_d "h" v = Ok (CExact (fmul (fmul v f60) f60)) /\
  convertToSeconds_d "s" v = Ok (CExact v) /\ convertToSeconds_d "sec" v = Ok (CExact v).
Proof. intros v. repeat split. Qed.

(** * splitCompoundUnit on the grammar *)
Fixpoint list_eqb (a b : list string) : bool :=
  match a, b with
  | [], [] => true
  | x :: a', y :: b' => String.eqb x y && list_eqb a' b'
  | _, _ => false
  end.

Lemma list_eqb_eq : forall a b, list_eqb a b = true -> a = b.
Proof.
  induction a as [|x a IH]; intros [|y b] H; try discriminate H; [reflexivity|].
  cbn in H. apply andb_prop in H. destruct H as [E H]. apply String.eqb_eq in E. subst. f_equal. now apply IH.
Qed.

Definition split_res_is (s : string) (l : list string) : bool :=
  match splitCompoundUnit s with Ok l' => list_eqb l' l | _ => false end &&
  match spec_split_compound s with Some l' => list_eqb l' l | None => false end.

(** second atoms (as parts) and what each becomes behind a slash *)
Definition SECOND_ATOMS : list (string * string) := [("s", "s^-1"); ("mV^2", "mV^-2"); ("kHz^-1", "kHz^1")].

Definition second_ok (a : string) (bi : string * string) : bool :=
  split_res_is (a ++ "*" ++ fst bi) [a; fst bi] && split_res_is (a ++ "/" ++ fst bi) [a; snd bi].

Definition atom_ok (a : string) : bool := split_res_is a [a] && forallb (second_ok a) SECOND_ATOMS.

(** stated on the unfolded sweep so that using it needs no conversion (the kernel would otherwise
    re-evaluate the sweep with its slow reduction machine) *)
Lemma split_compound_check :
  forallb (fun p => forallb (fun u => forallb (fun w => atom_ok (print_unit p u w)) POWER_SUFFIXES) UNITS) ALL_PREFIXES = true.
Proof. vm_cast_no_check (@eq_refl bool true). Qed.

Lemma split_res_is_use : forall s l, split_res_is s l = true -> splitCompoundUnit s = Ok l /\ spec_split_compound s = Some l.
Proof.
  intros s l Hs. unfold split_res_is in Hs. apply andb_prop in Hs. destruct Hs as [Ha Hb].
  destruct (splitCompoundUnit s) as [l1| |]; try discriminate. destruct (spec_split_compound s) as [l2|]; try discriminate.
  apply list_eqb_eq in Ha, Hb. now subst.
Qed.

Lemma atom_ok_use : forall a b b', atom_ok a = true -> In (b, b') SECOND_ATOMS ->
  splitCompoundUnit a = Ok [a] /\ splitCompoundUnit (a ++ "*" ++ b) = Ok [a; b] /\ splitCompoundUnit (a ++ "/" ++ b) = Ok [a; b'] /\
  spec_split_compound a = Some [a] /\ spec_split_compound (a ++ "*" ++ b) = Some [a; b] /\ spec_split_compound (a ++ "/" ++ b) = Some [a; b'].
Proof.
  intros a b b' H Hb. unfold atom_ok in H. apply andb_prop in H. destruct H as [H0 H].
  rewrite forallb_forall in H. specialize (H _ Hb). unfold second_ok in H. cbn [fst snd] in H.
  apply andb_prop in H. destruct H as [H1 H2].
  destruct (split_res_is_use _ _ H0) as [A0 S0]. destruct (split_res_is_use _ _ H1) as [A1 S1].
  destruct (split_res_is_use _ _ H2) as [A2 S2]. repeat split; assumption.
Qed.

(** every atom of the grammar splits into itself; followed by [*] and a second atom it splits into the
    two atoms, followed by [/] the second atom comes back with its power negated - and that is what the
    oracle's specification says too.  4557 x 7 strings. *)
Theorem splitCompoundUnit_grammar : forall p u w b b', In p ALL_PREFIXES -> In u UNITS -> In w POWER_SUFFIXES ->
  In (b, b') SECOND_ATOMS ->
  splitCompoundUnit (print_unit p u w) = Ok [print_unit p u w] /\
  splitCompoundUnit (print_unit p u w ++ "*" ++ b) = Ok [print_unit p u w; b] /\
  splitCompoundUnit (print_unit p u w ++ "/" ++ b) = Ok [print_unit p u w; b'] /\
  spec_split_compound (print_unit p u w) = Some [print_unit p u w] /\
  spec_split_compound (print_unit p u w ++ "*" ++ b) = Some [print_unit p u w; b] /\
  spec_split_compound (print_unit p u w ++ "/" ++ b) = Some [print_unit p u w; b'].
Proof.
  intros p u w b b' Hp Hu Hw Hb. apply atom_ok_use; [|exact Hb].
  pose proof split_compound_check as H.
  rewrite forallb_forall in H. specialize (H _ Hp).
  rewrite forallb_forall in H. specialize (H _ Hu).
  rewrite forallb_forall in H. exact (H _ Hw).
Qed.

(** name helpers: the sanitizer produces a legal name and leaves legal names alone *)
Theorem nameSanitizer_ok : forall s, nameCheck (nameSanitizer s) = true /\ (nameCheck s = true -> nameSanitizer s = s).
Proof.
  unfold nameCheck. induction s as [|c s [IH1 IH2]]; [now split|]. cbn [nameSanitizer has_slash]. split.
  - destruct (Ascii.eqb_spec c "/") as [->|Hc]; cbn.
    + exact IH1.
    + apply Ascii.eqb_neq in Hc. rewrite Hc. exact IH1.
  - intros H. destruct (Ascii.eqb c "/"); cbn in H; [discriminate|]. f_equal. now apply IH2.
Qed.
