(** C18 — unit scaling: executable model of the SI-unit functions of src/util/util.cpp
    ([splitUnit], [isAtomicSIUnit], [isCompoundSIUnit], [isSIUnit], [isScalable], [getSIScaling],
    [deblankString], [unitSanitizer]) and of the part of Boost.Regex (Perl syntax) they use.

    The alternations PREFIXES and UNITS and the factor table PREFIX_FACTORS are the GENERATED
    definitions of [Gen/GenTables.v] (regenerated from util.cpp on every run) - the order of the
    alternatives is the order in the source, and that order decides what [regex_search] returns.

    Definitions only; the proofs are in UnitsProofs.v / UnitsGrammarProofs.v. *)
From Coq Require Import ZArith Bool String Ascii List Lia.
Require Import NixV.Base.Prelude NixV.Gen.GenTables.
Import ListNotations.
Local Open Scope string_scope.
Local Open Scope bool_scope.
Local Open Scope Z_scope.

(* ------------------------------------------------------------------------------------------ *)
(** * Strings *)

Fixpoint drop (n : nat) (s : string) : string :=
  match n, s with
  | O, _ => s
  | S k, String _ t => drop k t
  | S _, EmptyString => EmptyString
  end.

Fixpoint take (n : nat) (s : string) : string :=
  match n, s with
  | O, _ => EmptyString
  | S k, String c t => String c (take k t)
  | S _, EmptyString => EmptyString
  end.

(** [strip x s] = the rest of [s] after its prefix [x], if [x] is a prefix of [s]. *)
Fixpoint strip (x s : string) : option string :=
  match x, s with
  | EmptyString, _ => Some s
  | String a x', String b s' => if Ascii.eqb a b then strip x' s' else None
  | String _ _, EmptyString => None
  end.

Definition is_empty (s : string) : bool := match s with EmptyString => true | _ => false end.

Definition code (c : ascii) : N := N_of_ascii c.
Definition is_digit (c : ascii) : bool := ((48 <=? code c) && (code c <=? 57))%N.
Definition is_digit19 (c : ascii) : bool := ((49 <=? code c) && (code c <=? 57))%N.
Definition is_sign (c : ascii) : bool := Ascii.eqb c "+" || Ascii.eqb c "-".
Definition digit_val (c : ascii) : Z := Z.of_N (code c) - 48.

(* ------------------------------------------------------------------------------------------ *)
(** * The regular expressions of util.cpp, with Boost's Perl-syntax matching rules *)

Inductive re : Type :=
| RFail                      (* matches nothing (the empty alternation) *)
| REps
| RChr (c : ascii)
| RSet (f : ascii -> bool)   (* a character class *)
| RSeq (a b : re)
| RAlt (a b : re)            (* a|b  - ordered: a is tried first *)
| ROpt (a : re)              (* a?   - greedy: a is tried first, then the empty match *)
| RStar (a : re)             (* a*   - greedy *)
| RPlus (a : re).            (* a+   - greedy *)

(** Greedy iteration: all ways to match [step]* at the head of [s], longest-first in the order
    of the backtracking search.  An iteration has to consume something (Perl stops a loop whose
    body matched the empty string); [fuel] = length of [s] is always enough. *)
Fixpoint star_aux (step : string -> list string) (fuel : nat) (s : string) : list string :=
  match fuel with
  | O => [s]
  | S f => flat_map (fun r => if (String.length r <? String.length s)%nat then star_aux step f r else [])
                    (step s) ++ [s]
  end.

(** [ms r s]: the remainders of [s] after every way in which [r] matches at the head of [s], in
    exactly the order in which a Perl-style backtracking matcher (Boost.Regex, default syntax)
    finds them: first alternative first, greedy quantifiers longest first, depth first. *)
Fixpoint ms (r : re) (s : string) : list string :=
  match r with
  | RFail => []
  | REps => [s]
  | RChr c => match s with String a t => if Ascii.eqb a c then [t] else [] | EmptyString => [] end
  | RSet f => match s with String a t => if f a then [t] else [] | EmptyString => [] end
  | RSeq a b => flat_map (ms b) (ms a s)
  | RAlt a b => ms a s ++ ms b s
  | ROpt a => ms a s ++ [s]
  | RStar a => star_aux (ms a) (String.length s) s
  | RPlus a => flat_map (fun r => star_aux (ms a) (String.length r) r) (ms a s)
  end.

(** [boost::regex_match(s, r)]: the whole of [s] has to be matched; the matcher backtracks until
    an alternative path consumes everything. *)
Definition regex_match (r : re) (s : string) : bool := existsb is_empty (ms r s).

(** [boost::regex_search(s, m, r)]: the leftmost start position at which [r] matches, and at
    that position the first match in backtracking order.  Result: [(m.prefix(), m[0], m.suffix())]. *)
Fixpoint regex_search (r : re) (s : string) : option (string * string * string) :=
  match ms r s with
  | rest :: _ => Some (EmptyString, take (String.length s - String.length rest) s, rest)
  | [] => match s with
          | EmptyString => None
          | String c t => match regex_search r t with
                          | Some (p, m, suf) => Some (String c p, m, suf)
                          | None => None
                          end
          end
  end.

Fixpoint lit (x : string) : re :=
  match x with
  | EmptyString => REps
  | String c t => RSeq (RChr c) (lit t)
  end.

(** the alternation (a|b|c), alternatives in source order *)
Fixpoint alts (l : list string) : re :=
  match l with
  | [] => RFail
  | x :: t => RAlt (lit x) (alts t)
  end.

Definition rPREFIXES : re := alts PREFIXES.
Definition rUNITS : re := alts UNITS.
(** POWER: a caret, an optional sign, a digit 1-9, further digits (pinned to the generated string
    [GenTables.POWER] by [UnitsProofs.POWER_pinned]) *)
Definition rPOWER : re :=
  RSeq (RChr "^") (RSeq (ROpt (RSet is_sign)) (RSeq (RSet is_digit19) (RStar (RSet is_digit)))).
Definition POWER_expected : string := "(\^[+-]?[1-9]\d*)".

Definition r_prefix_unit_power : re := RSeq rPREFIXES (RSeq rUNITS rPOWER).
Definition r_prefix_unit : re := RSeq rPREFIXES rUNITS.
Definition r_unit_power : re := RSeq rUNITS rPOWER.
(** PREFIXES? UNITS POWER?  -- the regex of isAtomicSIUnit and splitCompoundUnit *)
Definition r_atomic : re := RSeq (ROpt rPREFIXES) (RSeq rUNITS (ROpt rPOWER)).
(** ( atomic ( star | slash ) )+ atomic   -- the regex of isCompoundSIUnit *)
Definition r_compound : re := RSeq (RPlus (RSeq r_atomic (RAlt (RChr "*") (RChr "/")))) r_atomic.

(* ------------------------------------------------------------------------------------------ *)
(** * util.cpp *)

(** [std::string::substr(1)]: throws when the string is empty (pos > size()). *)
Definition substr1 (s : string) : res string :=
  match s with
  | EmptyString => Err "std::out_of_range"
  | String _ t => Ok t
  end.

(** Boost: "if regex_search returns false the effect on m is undefined" - the code reads m
    without testing the result. *)
Definition failed_search {A} : res A := UB "match_results read after a failed regex_search".

(** [splitUnit(combinedUnit, prefix, unit, power)], branch by branch; result (prefix, unit, power). *)
Definition splitUnit (s : string) : res (string * string * string) :=
  if regex_match r_prefix_unit_power s then
    match regex_search rPREFIXES s with
    | None => failed_search
    | Some (_, p, suffix) =>
        match regex_search rUNITS suffix with
        | None => failed_search
        | Some (_, u, suffix2) => bind (substr1 suffix2) (fun w => Ok (p, u, w))
        end
    end
  else if regex_match r_unit_power s then
    match regex_search rUNITS s with
    | None => failed_search
    | Some (_, u, suffix) => bind (substr1 suffix) (fun w => Ok (EmptyString, u, w))
    end
  else if regex_match r_prefix_unit s then
    match regex_search rPREFIXES s with
    | None => failed_search
    | Some (_, p, suffix) => Ok (p, suffix, EmptyString)
    end
  else Ok (EmptyString, s, EmptyString).

Definition isAtomicSIUnit (s : string) : bool := regex_match r_atomic s.
Definition isCompoundSIUnit (s : string) : bool := negb (is_empty s) && regex_match r_compound s.
Definition isSIUnit (s : string) : bool := negb (is_empty s) && (isAtomicSIUnit s || isCompoundSIUnit s).

(** [isScalable(unitA, unitB)] *)
Definition isScalable (a b : string) : res bool :=
  if negb (isSIUnit a && isSIUnit b) then Ok false
  else
    bind (splitUnit a) (fun pa => let '(a_prefix, a_unit, a_power) := pa in
    bind (splitUnit b) (fun pb => let '(b_prefix, b_unit, b_power) := pb in
    if negb (String.eqb a_unit b_unit) || negb (String.eqb a_power b_power) then Ok false else Ok true)).

(** [std::stoi(str)] = strtol base 10 + range check: leading white space, optional sign, digits;
    trailing characters are ignored. *)
Definition is_space (c : ascii) : bool := (((9 <=? code c) && (code c <=? 13)) || (code c =? 32))%N.

Fixpoint skip_space (s : string) : string :=
  match s with
  | String c t => if is_space c then skip_space t else s
  | EmptyString => s
  end.

(** value of the leading digits (accumulated) and whether there was at least one *)
Fixpoint digits_val (s : string) (acc : Z) (seen : bool) : Z * bool :=
  match s with
  | String c t => if is_digit c then digits_val t (acc * 10 + digit_val c) true else (acc, seen)
  | EmptyString => (acc, seen)
  end.

Definition stoi (s : string) : res Z :=
  let s1 := skip_space s in
  let '(neg, s2) := match s1 with
                    | String c t => if Ascii.eqb c "-" then (true, t) else if Ascii.eqb c "+" then (false, t) else (false, s1)
                    | EmptyString => (false, s1)
                    end in
  let '(v, seen) := digits_val s2 0 false in
  if negb seen then Err "std::invalid_argument"
  else let v' := if neg then - v else v in
       if ((v' <? int_min) || (int_max <? v'))%Z then Err "std::out_of_range" else Ok v'.

(** [PREFIX_FACTORS.at(p)], as the decimal exponent of the factor.  A [std::map] built from an
    initializer list keeps the first of two equal keys.  The model speaks about factors that are
    powers of ten only ([table_is_SI] shows that every entry is one). *)
Definition factor_at (p : string) : res Z :=
  match find (fun e => String.eqb (fst e) p) PREFIX_FACTORS with
  | None => Err "std::out_of_range"
  | Some (_, (_, Some k)) => Ok k
  | Some (_, (_, None)) => UB "model: a PREFIX_FACTORS entry is not a power of ten"
  end.

(** [getSIScaling(originUnit, destinationUnit)]: the result is the EXPONENT k; the C++ function
    returns the double it computes for 10^k (table lookups, one division, [pow]). *)
Definition getSIScaling (org dest : string) : res Z :=
  bind (isScalable org dest) (fun sc =>
  if negb sc then Err "nix::InvalidUnit" else
  bind (splitUnit org) (fun po => let '(org_prefix, org_unit, org_power) := po in
  bind (splitUnit dest) (fun pd => let '(dest_prefix, dest_unit, dest_power) := pd in
  if String.eqb org_prefix dest_prefix && String.eqb org_power dest_power then Ok 0
  else
    bind (if is_empty dest_prefix && negb (is_empty org_prefix) then factor_at org_prefix
          else if is_empty org_prefix && negb (is_empty dest_prefix) then
                 bind (factor_at dest_prefix) (fun e => Ok (- e))
          else if negb (is_empty org_prefix) && negb (is_empty dest_prefix) then
                 bind (factor_at org_prefix) (fun eo => bind (factor_at dest_prefix) (fun ed => Ok (eo - ed)))
          else Ok 0) (fun k0 =>
    if negb (is_empty org_power) then bind (stoi org_power) (fun n => Ok (k0 * n))
    else Ok k0)))).

(** [deblankString]: removes every char with [c > 0 && isblank(c)] (space and tab in the C locale). *)
Definition is_blank (c : ascii) : bool := ((code c =? 32) || (code c =? 9))%N.

Fixpoint deblankString (s : string) : string :=
  match s with
  | EmptyString => EmptyString
  | String c t => if is_blank c then deblankString t else String c (deblankString t)
  end.

(** [s.replace(s.find(pat), 2, u)] for a two-byte [pat]; [None] when [pat] does not occur *)
Fixpoint replace_first (pat s : string) : option string :=
  match strip pat s with
  | Some rest => Some (String "u" rest)
  | None => match s with
            | EmptyString => None
            | String c t => match replace_first pat t with Some t' => Some (String c t') | None => None end
            end
  end.

(** [while (s.find(pat) != npos) s.replace(...)]; every round shortens [s], so [length s] rounds suffice *)
Fixpoint replace_loop (fuel : nat) (pat s : string) : string :=
  match fuel with
  | O => s
  | S f => match replace_first pat s with
           | Some s' => replace_loop f pat s'
           | None => s
           end
  end.

Definition micro_utf8 : string := String (ascii_of_N 194) (String (ascii_of_N 181) EmptyString).

Definition unitSanitizer (unit : string) : string :=
  let u1 := deblankString unit in
  let u2 := replace_loop (String.length u1) "mu" u1 in
  replace_loop (String.length u2) micro_utf8 u2.

(* ------------------------------------------------------------------------------------------ *)
(** * The specification side: units as (prefix, base unit, power) and what scaling means.
      Independent of the regular expressions; this is what the oracle of the check runs. *)

(** The SI prefixes and their decimal exponents (BIPM brochure, 8th edition; u for micro). *)
Definition SI_PREFIX_EXP : list (string * Z) :=
  [("y", -24); ("z", -21); ("a", -18); ("f", -15); ("p", -12); ("n", -9); ("u", -6); ("m", -3);
   ("c", -2); ("d", -1); ("da", 1); ("h", 2); ("k", 3); ("M", 6); ("G", 9); ("T", 12); ("P", 15);
   ("E", 18); ("Z", 21); ("Y", 24)].

(** exponent of a prefix; the empty prefix has exponent 0 *)
Definition si_exp (p : string) : option Z :=
  if is_empty p then Some 0
  else match find (fun e => String.eqb (fst e) p) SI_PREFIX_EXP with
       | Some (_, k) => Some k
       | None => None
       end.

Definition mem (x : string) (l : list string) : bool := existsb (String.eqb x) l.

Fixpoint all_digits (s : string) : bool :=
  match s with
  | EmptyString => true
  | String c t => is_digit c && all_digits t
  end.

(** value of a string of digits *)
Fixpoint dec_val (s : string) (acc : Z) : Z :=
  match s with
  | EmptyString => acc
  | String c t => dec_val t (acc * 10 + digit_val c)
  end.

(** A power suffix is empty (power 1) or [^], an optional sign, a digit 1-9, further digits.
    [Some n] = well formed with value n. *)
Definition power_val (w : string) : option Z :=
  match w with
  | EmptyString => Some 1
  | String c t =>
      if negb (Ascii.eqb c "^") then None else
      let '(neg, ds) := match t with
                        | String d t' => if Ascii.eqb d "-" then (true, t') else if Ascii.eqb d "+" then (false, t') else (false, t)
                        | EmptyString => (false, t)
                        end in
      match ds with
      | String d _ => if is_digit19 d && all_digits ds then Some (if neg then - dec_val ds 0 else dec_val ds 0) else None
      | EmptyString => None
      end
  end.

(** well-formed parts of an atomic SI unit *)
Definition parts_ok (p u w : string) : bool :=
  (is_empty p || mem p PREFIXES) && mem u UNITS && match power_val w with Some _ => true | None => false end.

(** the unit string the parts denote *)
Definition print_unit (p u w : string) : string := p ++ u ++ w.

(** brute force: every (prefix, unit) of the tables whose concatenation starts [s] and leaves a
    well-formed power suffix *)
Definition spec_parses (s : string) : list (string * string * string) :=
  flat_map (fun p =>
    flat_map (fun u =>
      match strip (p ++ u) s with
      | Some w => match power_val w with Some _ => [(p, u, w)] | None => [] end
      | None => []
      end) UNITS) (EmptyString :: PREFIXES).

Definition spec_parse (s : string) : option (string * string * string) := hd_error (spec_parses s).

(** split at the separators of compound units *)
Fixpoint split_seps (s : string) (cur : string) : list string :=
  match s with
  | EmptyString => [cur]
  | String c t => if Ascii.eqb c "*" || Ascii.eqb c "/" then cur :: split_seps t EmptyString
                  else split_seps t (cur ++ String c EmptyString)
  end.

Definition spec_atomic (s : string) : bool := match spec_parse s with Some _ => true | None => false end.
(** an SI unit is a non-empty sequence of atomic SI units joined by [*] or [/] *)
Definition spec_issi (s : string) : bool := forallb spec_atomic (split_seps s EmptyString).

(** What the specification says about one observation *)
Inductive spec_ans (A : Type) : Type :=
| SAny                 (* not constrained *)
| SReject              (* has to be refused / false *)
| SVal (a : A).
Arguments SAny {A}.
Arguments SReject {A}.
Arguments SVal {A} a.

(** largest |k| for which 10^k is a normal binary64 number; beyond it the specification does not say
    what a double-valued function has to return *)
Definition K_MAX : Z := 300.

(** Scaling between two units GIVEN BY THEIR PARTS: defined when both are well formed; same base
    and same power suffix: factor 10^(power * (exp_a - exp_b)); different base or different power
    value: refused; same power value written differently ([^2] / [^+2], no suffix / [^1]): open. *)
Definition spec_scaling (pa ua wa pb ub wb : string) : spec_ans Z :=
  if negb (parts_ok pa ua wa && parts_ok pb ub wb) then SAny else
  match power_val wa, power_val wb, si_exp pa, si_exp pb with
  | Some na, Some nb, Some ea, Some eb =>
      if negb (String.eqb ua ub) || negb (na =? nb) then SReject
      else if negb (String.eqb wa wb) then SAny
      else let k := na * (ea - eb) in
           if (Z.abs k <=? K_MAX) && (Z.abs na <=? int_max) then SVal k else SAny
  | _, _, _, _ => SAny
  end.

Definition spec_scalable (pa ua wa pb ub wb : string) : spec_ans bool :=
  if negb (parts_ok pa ua wa && parts_ok pb ub wb) then SAny else
  match power_val wa, power_val wb with
  | Some na, Some nb =>
      if negb (String.eqb ua ub) || negb (na =? nb) then SVal false
      else if negb (String.eqb wa wb) then SAny
      else SVal true
  | _, _ => SAny
  end.

(** the power as [splitUnit] reports it: the suffix without its [^] *)
Definition power_text (w : string) : string := match w with EmptyString => EmptyString | String _ t => t end.

(** The same for raw strings: a string that is no SI unit is refused; atomic units go by their
    (unique) parts; compound units are not constrained further. *)
Definition spec_scaling_raw (a b : string) : spec_ans Z :=
  if negb (spec_issi a && spec_issi b) then SReject else
  match spec_parse a, spec_parse b with
  | Some (pa, ua, wa), Some (pb, ub, wb) => spec_scaling pa ua wa pb ub wb
  | _, _ => SAny
  end.

Definition spec_scalable_raw (a b : string) : spec_ans bool :=
  if negb (spec_issi a && spec_issi b) then SVal false else
  match spec_parse a, spec_parse b with
  | Some (pa, ua, wa), Some (pb, ub, wb) => spec_scalable pa ua wa pb ub wb
  | _, _ => SAny
  end.

(** the strings of the property's quantifier: every prefix (and none) x every unit x the seven
    power suffixes for powers -3..3 (no suffix, ^1 ... ^-3) *)
Definition POWER_SUFFIXES : list string := [""; "^1"; "^2"; "^3"; "^-1"; "^-2"; "^-3"].
Definition ALL_PREFIXES : list string := EmptyString :: PREFIXES.
