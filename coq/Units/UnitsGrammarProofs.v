(** C18 — the statements about the concrete grammar: for every prefix (and none) x every base unit
    of the library x every power -3..3 the printed unit string parses back into its parts
    ([parse_print], a finite sweep over the GENERATED tables by [vm_compute]); on top of it the
    factor formula, reciprocity, composition, the scalability test and the rejection of different
    base / power for all pairs and triples of such units, and the agreement of the model with the
    oracle's specification.

    [parse_print_check] depends on the ORDER of the alternatives in UNITS: it does not compute to
    [true] while a unit is listed behind a unit that is its proper prefix (m before mol, W before
    Wb, S before Sv on the pinned tree - DESIGN.md section 9 item 15). *)
From Coq Require Import ZArith Bool String Ascii List Lia.
Require Import NixV.Base.Prelude NixV.Gen.GenTables NixV.Units.UnitsModel NixV.Units.UnitsRegexProofs NixV.Units.UnitsProofs.
Import ListNotations.
Local Open Scope string_scope.
Local Open Scope bool_scope.
Local Open Scope Z_scope.

Definition parse_print_b : bool :=
  forallb (fun p => forallb (fun u => forallb (fun w =>
    let s := print_unit p u w in
    split_is s p u (power_text w) && isAtomicSIUnit s && isSIUnit s && negb (isCompoundSIUnit s))
    POWER_SUFFIXES) UNITS) ALL_PREFIXES.

(** 21 x 31 x 7 = 4557 evaluations of the model *)
Lemma parse_print_check :
  forallb (fun p => forallb (fun u => forallb (fun w =>
    let s := print_unit p u w in
    split_is s p u (power_text w) && isAtomicSIUnit s && isSIUnit s && negb (isCompoundSIUnit s))
    POWER_SUFFIXES) UNITS) ALL_PREFIXES = true.
Proof. vm_cast_no_check (@eq_refl bool true). Qed.

(** PARSE-PRINT.  Bound: p ranges over the empty prefix and the 20 entries of PREFIXES, u over the 31
    entries of UNITS, w over the 7 power suffixes "", ^1, ^2, ^3, ^-1, ^-2, ^-3. *)
Theorem parse_print : forall p u w, In p ALL_PREFIXES -> In u UNITS -> In w POWER_SUFFIXES ->
  splitUnit (print_unit p u w) = Ok (p, u, power_text w) /\
  isAtomicSIUnit (print_unit p u w) = true /\ isSIUnit (print_unit p u w) = true /\
  isCompoundSIUnit (print_unit p u w) = false.
Proof.
  intros p u w Hp Hu Hw. pose proof parse_print_check as H.
  rewrite forallb_forall in H. specialize (H _ Hp).
  rewrite forallb_forall in H. specialize (H _ Hu).
  rewrite forallb_forall in H. specialize (H _ Hw). cbv zeta in H.
  rewrite !andb_true_iff in H. destruct H as [[[Hs Ha] Hsi] Hc].
  repeat split; try assumption; [now apply split_is_true | now apply negb_true_iff].
Qed.

(** on this tree no base unit is shadowed by an earlier alternative *)
Lemma no_shadowed_units : shadowed_units = [].
Proof. vm_compute. reflexivity. Qed.

(** the seven power suffixes: value as the specification reads it = value [stoi] gives the code *)
Definition power_suffix_b (w : string) : bool :=
  match power_val w, power_of (power_text w) with
  | Some n, Ok n' => (n =? n') && (-3 <=? n) && (n <=? 3) && negb (n =? 0)
  | _, _ => false
  end.

Lemma power_suffixes_ok : forall w, In w POWER_SUFFIXES ->
  exists n, power_val w = Some n /\ power_of (power_text w) = Ok n /\ -3 <= n <= 3 /\ n <> 0.
Proof.
  intros w Hw. assert (H : forallb power_suffix_b POWER_SUFFIXES = true) by (vm_compute; reflexivity).
  rewrite forallb_forall in H. specialize (H _ Hw). unfold power_suffix_b in H.
  destruct (power_val w) as [n|]; [|discriminate]. destruct (power_of (power_text w)) as [n'| |]; try discriminate.
  rewrite !andb_true_iff in H. destruct H as [[[E L1] L2] N0]. apply Z.eqb_eq in E. subst n'.
  apply negb_true_iff, Z.eqb_neq in N0. apply Z.leb_le in L1, L2.
  exists n. repeat split; try assumption; lia.
Qed.

Lemma power_text_eqb : forall w1 w2, In w1 POWER_SUFFIXES -> In w2 POWER_SUFFIXES ->
  (power_text w1 =? power_text w2)%string = (w1 =? w2)%string.
Proof.
  intros w1 w2 H1 H2.
  assert (H : forallb (fun a => forallb (fun b => Bool.eqb (power_text a =? power_text b)%string (a =? b)%string)
                                         POWER_SUFFIXES) POWER_SUFFIXES = true) by (vm_compute; reflexivity).
  rewrite forallb_forall in H. specialize (H _ H1). rewrite forallb_forall in H. specialize (H _ H2).
  now apply Bool.eqb_prop in H.
Qed.

Lemma parts_ok_grammar : forall p u w, In p ALL_PREFIXES -> In u UNITS -> In w POWER_SUFFIXES -> parts_ok p u w = true.
Proof.
  intros p u w Hp Hu Hw. apply parts_ok_spec. repeat split; [now apply ALL_PREFIXES_In | assumption |].
  destruct (power_suffixes_ok _ Hw) as [n [Hn _]]. now exists n.
Qed.

(** FACTOR FORMULA on the grammar: units that differ only by prefix scale by 10^(power * (exp_a - exp_b)),
    exp the SI exponent of the prefix (0 for none), power the value of the power suffix (1 for none). *)
Theorem factor_formula : forall pa pb u w,
  In pa ALL_PREFIXES -> In pb ALL_PREFIXES -> In u UNITS -> In w POWER_SUFFIXES ->
  exists ea eb n, si_exp pa = Some ea /\ si_exp pb = Some eb /\ power_val w = Some n /\
    getSIScaling (print_unit pa u w) (print_unit pb u w) = Ok (n * (ea - eb)).
Proof.
  intros pa pb u w Hpa Hpb Hu Hw.
  destruct (parse_print _ _ _ Hpa Hu Hw) as [Sa [_ [Ia _]]].
  destruct (parse_print _ _ _ Hpb Hu Hw) as [Sb [_ [Ib _]]].
  destruct (prefix_exp_si _ Hpa) as [ea [Sea Pea]]. destruct (prefix_exp_si _ Hpb) as [eb [Seb Peb]].
  destruct (power_suffixes_ok _ Hw) as [n [Hn [Hpo _]]].
  exists ea, eb, n. repeat split; try assumption.
  exact (factor_formula_parsed _ _ _ _ _ _ _ _ _ Ia Ib Sa Sb Pea Peb Hpo).
Qed.

(** RECIPROCAL on the grammar: both directions answer, with opposite exponents *)
Theorem reciprocal_grammar : forall pa pb u w,
  In pa ALL_PREFIXES -> In pb ALL_PREFIXES -> In u UNITS -> In w POWER_SUFFIXES ->
  exists k, getSIScaling (print_unit pa u w) (print_unit pb u w) = Ok k /\
            getSIScaling (print_unit pb u w) (print_unit pa u w) = Ok (- k).
Proof.
  intros pa pb u w Hpa Hpb Hu Hw.
  destruct (factor_formula _ _ _ _ Hpa Hpb Hu Hw) as [ea [eb [n [_ [_ [_ H]]]]]].
  exists (n * (ea - eb)). split; [assumption | now apply reciprocal].
Qed.

(** COMPOSE on the grammar: a -> b, b -> c and a -> c all answer, and the exponents add up *)
Theorem compose_grammar : forall pa pb pc u w,
  In pa ALL_PREFIXES -> In pb ALL_PREFIXES -> In pc ALL_PREFIXES -> In u UNITS -> In w POWER_SUFFIXES ->
  exists k1 k2, getSIScaling (print_unit pa u w) (print_unit pb u w) = Ok k1 /\
                getSIScaling (print_unit pb u w) (print_unit pc u w) = Ok k2 /\
                getSIScaling (print_unit pa u w) (print_unit pc u w) = Ok (k1 + k2).
Proof.
  intros pa pb pc u w Hpa Hpb Hpc Hu Hw.
  destruct (factor_formula _ _ _ _ Hpa Hpb Hu Hw) as [ea [eb [n [_ [_ [_ H1]]]]]].
  destruct (factor_formula _ _ _ _ Hpb Hpc Hu Hw) as [eb' [ec [n' [_ [_ [_ H2]]]]]].
  exists (n * (ea - eb)), (n' * (eb' - ec)). repeat split; try assumption. now apply (compose _ _ _ _ _ H1 H2).
Qed.

(** SCALABILITY on the grammar: exactly the pairs with the same base unit and the same power *)
Theorem scalable_grammar : forall pa ua wa pb ub wb,
  In pa ALL_PREFIXES -> In ua UNITS -> In wa POWER_SUFFIXES ->
  In pb ALL_PREFIXES -> In ub UNITS -> In wb POWER_SUFFIXES ->
  isScalable (print_unit pa ua wa) (print_unit pb ub wb) = Ok ((ua =? ub)%string && (wa =? wb)%string) /\
  isScalable (print_unit pb ub wb) (print_unit pa ua wa) = Ok ((ua =? ub)%string && (wa =? wb)%string).
Proof.
  intros pa ua wa pb ub wb Hpa Hua Hwa Hpb Hub Hwb.
  destruct (parse_print _ _ _ Hpa Hua Hwa) as [Sa [_ [Ia _]]].
  destruct (parse_print _ _ _ Hpb Hub Hwb) as [Sb [_ [Ib _]]].
  assert (H : isScalable (print_unit pa ua wa) (print_unit pb ub wb) = Ok ((ua =? ub)%string && (wa =? wb)%string)).
  { rewrite (isScalable_parsed _ _ _ _ _ _ _ _ Ia Ib Sa Sb). now rewrite power_text_eqb. }
  split; [assumption | now apply scalable_sym].
Qed.

(** DIFFERENT BASE OR POWER IS REJECTED on the grammar *)
Theorem different_base_or_power_rejected : forall pa ua wa pb ub wb,
  In pa ALL_PREFIXES -> In ua UNITS -> In wa POWER_SUFFIXES ->
  In pb ALL_PREFIXES -> In ub UNITS -> In wb POWER_SUFFIXES ->
  ua <> ub \/ wa <> wb ->
  isScalable (print_unit pa ua wa) (print_unit pb ub wb) = Ok false /\
  getSIScaling (print_unit pa ua wa) (print_unit pb ub wb) = Err "nix::InvalidUnit".
Proof.
  intros pa ua wa pb ub wb Hpa Hua Hwa Hpb Hub Hwb Hd.
  destruct (parse_print _ _ _ Hpa Hua Hwa) as [Sa _]. destruct (parse_print _ _ _ Hpb Hub Hwb) as [Sb _].
  apply (different_base_or_power_rejected_parsed _ _ _ _ _ _ _ _ Sa Sb).
  destruct Hd as [Hd | Hd]; [now left | right].
  intros He. apply Hd. apply String.eqb_eq. rewrite <- power_text_eqb by assumption. now apply String.eqb_eq.
Qed.

(** THE MODEL MEETS THE ORACLE'S SPECIFICATION on every pair of units of the grammar: where the
    specification demands the factor 10^k the model computes k, where it demands a refusal the
    model throws nix::InvalidUnit. *)
Theorem scaling_meets_spec : forall pa ua wa pb ub wb,
  In pa ALL_PREFIXES -> In ua UNITS -> In wa POWER_SUFFIXES ->
  In pb ALL_PREFIXES -> In ub UNITS -> In wb POWER_SUFFIXES ->
  match spec_scaling pa ua wa pb ub wb with
  | SVal k => getSIScaling (print_unit pa ua wa) (print_unit pb ub wb) = Ok k
  | SReject => getSIScaling (print_unit pa ua wa) (print_unit pb ub wb) = Err "nix::InvalidUnit"
  | SAny => True
  end.
Proof.
  intros pa ua wa pb ub wb Hpa Hua Hwa Hpb Hub Hwb. unfold spec_scaling.
  rewrite (parts_ok_grammar _ _ _ Hpa Hua Hwa), (parts_ok_grammar _ _ _ Hpb Hub Hwb). cbn [andb negb].
  destruct (power_suffixes_ok _ Hwa) as [na [Hna _]]. destruct (power_suffixes_ok _ Hwb) as [nb [Hnb _]].
  destruct (prefix_exp_si _ Hpa) as [ea [Sea _]]. destruct (prefix_exp_si _ Hpb) as [eb [Seb _]].
  rewrite Hna, Hnb, Sea, Seb.
  destruct (String.eqb_spec ua ub) as [->|Hu]; cbn [negb orb].
  - destruct (Z.eqb_spec na nb) as [->|Hn]; cbn [negb].
    + destruct (String.eqb_spec wa wb) as [->|Hw]; cbn [negb]; [|exact I].
      destruct ((Z.abs (nb * (ea - eb)) <=? K_MAX) && (Z.abs nb <=? int_max)); [|exact I].
      destruct (factor_formula _ _ _ _ Hpa Hpb Hub Hwb) as [ea' [eb' [n' [E1 [E2 [E3 H]]]]]].
      rewrite Sea in E1. rewrite Seb in E2. rewrite Hnb in E3.
      injection E1 as <-. injection E2 as <-. injection E3 as <-. exact H.
    + apply (different_base_or_power_rejected _ _ _ _ _ _ Hpa Hub Hwa Hpb Hub Hwb). right. intros ->.
      rewrite Hna in Hnb. injection Hnb as ->. contradiction.
  - apply (different_base_or_power_rejected _ _ _ _ _ _ Hpa Hua Hwa Hpb Hub Hwb). now left.
Qed.

Theorem scalable_meets_spec : forall pa ua wa pb ub wb,
  In pa ALL_PREFIXES -> In ua UNITS -> In wa POWER_SUFFIXES ->
  In pb ALL_PREFIXES -> In ub UNITS -> In wb POWER_SUFFIXES ->
  match spec_scalable pa ua wa pb ub wb with
  | SVal v => isScalable (print_unit pa ua wa) (print_unit pb ub wb) = Ok v
  | _ => True
  end.
Proof.
  intros pa ua wa pb ub wb Hpa Hua Hwa Hpb Hub Hwb. unfold spec_scalable.
  rewrite (parts_ok_grammar _ _ _ Hpa Hua Hwa), (parts_ok_grammar _ _ _ Hpb Hub Hwb). cbn [andb negb].
  destruct (power_suffixes_ok _ Hwa) as [na [Hna _]]. destruct (power_suffixes_ok _ Hwb) as [nb [Hnb _]].
  rewrite Hna, Hnb.
  destruct (scalable_grammar _ _ _ _ _ _ Hpa Hua Hwa Hpb Hub Hwb) as [H _]. rewrite H.
  destruct (String.eqb_spec ua ub) as [->|Hu]; cbn [negb orb andb]; [|reflexivity].
  destruct (Z.eqb_spec na nb) as [->|Hn]; cbn [negb].
  - destruct (String.eqb_spec wa wb) as [->|Hw]; cbn [negb]; [reflexivity | exact I].
  - destruct (String.eqb_spec wa wb) as [->|Hw]; [|reflexivity].
    rewrite Hna in Hnb. injection Hnb as ->. contradiction.
Qed.

(** the oracle's raw-string parser reads every string of the grammar as the model's [splitUnit] does *)
Theorem split_meets_spec : forall p u w, In p ALL_PREFIXES -> In u UNITS -> In w POWER_SUFFIXES ->
  spec_parse (print_unit p u w) = Some (p, u, w) /\ splitUnit (print_unit p u w) = Ok (p, u, power_text w).
Proof.
  intros p u w Hp Hu Hw. split.
  - apply spec_parse_complete. now apply parts_ok_grammar.
  - now destruct (parse_print _ _ _ Hp Hu Hw).
Qed.
