(** C18 — the remaining public routes of include/nix/util/util.hpp that deal with units:
    [isScalable(vector, vector)], [isSetAtSamePos], [splitCompoundUnit] (with the internal
    [invertPower]), the header templates [convertToSeconds<T>] / [convertToKelvin<T>] for
    T = double and T = int, and the small name helpers.  Every route reuses the functions of
    UnitsModel.v; only the route's own logic is added here.  Definitions only. *)
From Coq Require Import ZArith Bool String Ascii List Lia.
From Flocq Require Import Core BinarySingleNaN.
Require Import NixV.Base.Prelude NixV.Base.F64 NixV.Gen.GenTables NixV.Units.UnitsModel.
Import ListNotations.
Local Open Scope string_scope.
Local Open Scope bool_scope.
Local Open Scope Z_scope.

(* ------------------------------------------------------------------------------------------ *)
(** * [isScalable(const vector<string>&, const vector<string>&)] and [isSetAtSamePos] *)

(** the loop: while scalable and not at the end, scalable = isScalable of the two current elements *)
Fixpoint isScalableLoop (a b : list string) : res bool :=
  match a, b with
  | x :: a', y :: b' => bind (isScalable x y) (fun v => if v then isScalableLoop a' b' else Ok false)
  | _, _ => Ok true
  end.

Definition isScalableVec (a b : list string) : res bool :=
  if negb (Nat.eqb (List.length a) (List.length b)) then Ok false else isScalableLoop a b.

Fixpoint isSetLoop (a b : list string) : bool :=
  match a, b with
  | x :: a', y :: b' => if Bool.eqb (is_empty x) (is_empty y) then isSetLoop a' b' else false
  | _, _ => true
  end.

Definition isSetAtSamePos (a b : list string) : bool :=
  if negb (Nat.eqb (List.length a) (List.length b)) then false else isSetLoop a b.

(* ------------------------------------------------------------------------------------------ *)
(** * [splitCompoundUnit] *)

(** [invertPower(unit)] (util.cpp, not declared in the header; reached through splitCompoundUnit) *)
Definition invertPower (unit : string) : res string :=
  bind (splitUnit unit) (fun r => let '(p, u, power) := r in
  match power with
  | EmptyString => Ok (p ++ u ++ "^-1")
  | String c rest => if Ascii.eqb c "-" then Ok (p ++ u ++ "^" ++ rest) else Ok (p ++ u ++ "^-" ++ power)
  end).

Definition push_atom (sep m0 : string) (acc : list string) : res (list string) :=
  if String.eqb sep "/" then bind (invertPower m0) (fun u => Ok (acc ++ [u])%list) else Ok (acc ++ [m0])%list.

(** The while loop of splitCompoundUnit.  [regex_search] with the atomic expression finds the leftmost
    atom (anything before it is dropped); the character after it - whatever it is - becomes the
    separator.  When the search fails the code still reads m[0]: Boost 1.83 leaves an unmatched
    sub-expression there, which converts to the empty string (documented as undefined; this is
    what the library does and what the correspondence run observes).  Every round shortens [s]. *)
Fixpoint splitCompoundLoop (fuel : nat) (s sep : string) (acc : list string) : res (list string) :=
  match fuel with
  | O => UB "model: splitCompoundUnit out of fuel"
  | S f =>
      match regex_search r_atomic s with
      | None => push_atom sep EmptyString acc
      | Some (_, m0, suffix) =>
          if is_empty suffix then push_atom sep m0 acc
          else
            bind (push_atom sep m0 acc) (fun acc' =>
            match deblankString suffix with
            | EmptyString => Err "std::out_of_range"      (* suffix.substr(1) of the empty string *)
            | String c t => splitCompoundLoop f t (String c EmptyString) acc'
            end)
      end
  end.

Definition splitCompoundUnit (s : string) : res (list string) :=
  splitCompoundLoop (S (String.length s)) s EmptyString [].

(* ------------------------------------------------------------------------------------------ *)
(** * [convertToSeconds<T>] and [convertToKelvin<T>] *)

(** Result of a conversion: a value computed exactly as the code computes it, or [value * f] where f
    is the double [getSIScaling] returned for 10^k (the product is then only known up to the
    tolerance of that double, see tools/props/C18.py). *)
Inductive conv (A : Type) : Type :=
| CExact (v : A)
| CScaled (v : A) (k : Z).
Arguments CExact {A} v.
Arguments CScaled {A} v k.

Definition f60 : F64 := ofZ 60.
Definition f32 : F64 := ofZ 32.
Definition f5 : F64 := ofZ 5.
Definition f9 : F64 := ofZ 9.
(** the double nearest to 273.15 = 2402652809016115 * 2^-43 *)
Definition f273_15 : F64 := ofME 2402652809016115 (-43).

Definition is_sec_name (unit : string) : bool := String.eqb unit "s" || String.eqb unit "sec".

(** scaling through [isScalable] + [getSIScaling] to the base unit [base], as both templates do *)
Definition scaled_or_same {A} (unit base : string) (value : A) : res (conv A) :=
  bind (isScalable unit base) (fun sc =>
  if sc then bind (getSIScaling unit base) (fun k => Ok (CScaled value k)) else Ok (CExact value)).

Definition convertToSeconds_d (unit : string) (value : F64) : res (conv F64) :=
  if String.eqb unit "min" then Ok (CExact (fmul value f60))
  else if String.eqb unit "h" then Ok (CExact (fmul (fmul value f60) f60))
  else if is_sec_name unit then Ok (CExact value)
  else scaled_or_same unit "s" value.

(** C++ [int] arithmetic: overflow is undefined behaviour *)
Definition in_int (z : Z) : bool := (int_min <=? z) && (z <=? int_max).
Definition int_op (z : Z) : res Z := if in_int z then Ok z else UB "signed integer overflow".

Definition convertToSeconds_i (unit : string) (value : Z) : res (conv Z) :=
  if String.eqb unit "min" then bind (int_op (value * 60)) (fun v => Ok (CExact v))
  else if String.eqb unit "h" then bind (int_op (value * 60)) (fun v => bind (int_op (v * 60)) (fun v' => Ok (CExact v')))
  else if is_sec_name unit then Ok (CExact value)
  else scaled_or_same unit "s" value.

Definition deg : string := String (ascii_of_N 194) (String (ascii_of_N 176) EmptyString).   (* UTF-8 degree sign *)
Definition is_K (unit : string) : bool := String.eqb unit (deg ++ "K") || String.eqb unit "K".
Definition is_C (unit : string) : bool := String.eqb unit (deg ++ "C") || String.eqb unit "C".
Definition is_F (unit : string) : bool := String.eqb unit (deg ++ "F") || String.eqb unit "F".

Definition celsius (v : F64) : F64 := fadd v f273_15.
(** [(value - 32) * 5.0/9 + 273.15], left to right, on a double [value - 32] *)
Definition fahrenheit (v_minus_32 : F64) : F64 := fadd (fdiv (fmul v_minus_32 f5) f9) f273_15.

Definition convertToKelvin_d (unit : string) (value : F64) : res (conv F64) :=
  if is_K unit then Ok (CExact value)
  else if is_C unit then Ok (CExact (celsius value))
  else if is_F unit then Ok (CExact (fahrenheit (fsub value f32)))
  else scaled_or_same unit "K" value.

(** [static_cast<int>(std::round(x))] *)
Definition round_to_int (x : F64) : res Z :=
  match x with
  | B754_nan => UB "double->int cast of NaN"
  | B754_infinity _ => UB "double->int cast of infinity"
  | _ => let z := Btrunc (fround x) in if in_int z then Ok z else UB "double->int cast out of range"
  end.

Definition convertToKelvin_i (unit : string) (value : Z) : res (conv Z) :=
  if is_K unit then Ok (CExact value)
  else if is_C unit then bind (round_to_int (celsius (ofZ value))) (fun v => Ok (CExact v))
  else if is_F unit then bind (int_op (value - 32)) (fun d => bind (round_to_int (fahrenheit (ofZ d))) (fun v => Ok (CExact v)))
  else scaled_or_same unit "K" value.

(* ------------------------------------------------------------------------------------------ *)
(** * name helpers of util.hpp *)

Fixpoint has_slash (s : string) : bool :=
  match s with
  | EmptyString => false
  | String c t => Ascii.eqb c "/" || has_slash t
  end.

Definition nameCheck (name : string) : bool := negb (has_slash name).

Fixpoint nameSanitizer (name : string) : string :=
  match name with
  | EmptyString => EmptyString
  | String c t => String (if Ascii.eqb c "/" then "_"%char else c) (nameSanitizer t)
  end.

Definition checkEntityName (name : string) : res unit :=
  if is_empty name then Err "nix::EmptyString" else if negb (nameCheck name) then Err "nix::InvalidName" else Ok tt.
Definition checkEntityType (s : string) : res unit := if is_empty s then Err "nix::EmptyString" else Ok tt.
Definition checkEmptyString (s : string) : res unit := if is_empty s then Err "nix::EmptyString" else Ok tt.
Definition checkEntityNameAndType (name type : string) : res unit :=
  bind (checkEntityName name) (fun _ => checkEntityType type).

(* ------------------------------------------------------------------------------------------ *)
(** * specification side for the compound split: the atoms between the separators, an atom behind
      a slash with its power negated *)

Definition POWER_INVERSE : list (string * string) :=
  [("", "^-1"); ("^1", "^-1"); ("^2", "^-2"); ("^3", "^-3"); ("^-1", "^1"); ("^-2", "^2"); ("^-3", "^3")].

Definition spec_invert_atom (a : string) : option string :=
  match spec_parse a with
  | Some (p, u, w) =>
      match find (fun e => String.eqb (fst e) w) POWER_INVERSE with
      | Some (_, w') => Some (p ++ u ++ w')
      | None => None
      end
  | None => None
  end.

(** separators in order of appearance *)
Fixpoint seps_of (s : string) : list ascii :=
  match s with
  | EmptyString => []
  | String c t => if Ascii.eqb c "*" || Ascii.eqb c "/" then c :: seps_of t else seps_of t
  end.

Fixpoint spec_apply_seps (atoms : list string) (seps : list ascii) : option (list string) :=
  match atoms, seps with
  | a :: atoms', c :: seps' =>
      match (if Ascii.eqb c "/" then spec_invert_atom a else Some a), spec_apply_seps atoms' seps' with
      | Some a', Some r => Some (a' :: r)
      | _, _ => None
      end
  | [], [] => Some []
  | _, _ => None
  end.

(** [Some atoms] when [s] is an SI unit whose atoms have powers -3..3; [None] = not constrained *)
Definition spec_split_compound (s : string) : option (list string) :=
  if negb (spec_issi s) then None else
  match split_seps s EmptyString with
  | a :: rest => match spec_apply_seps rest (seps_of s) with Some r => Some (a :: r) | None => None end
  | [] => None
  end.

(** specification of [isSetAtSamePos]: same length and at every index both set or both empty *)
Definition spec_set_same (a b : list string) : bool :=
  Nat.eqb (List.length a) (List.length b) &&
  forallb (fun xy => Bool.eqb (is_empty (fst xy)) (is_empty (snd xy))) (combine a b).
